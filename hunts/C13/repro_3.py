# A class defining a getter-less (write-only or empty) property cannot be
# decorated at all.
import sys, traceback
from beartype import beartype

class A:
    def _set_x(self, value: int) -> None:
        self._x = value
    x = property(None, _set_x)          # legal write-only property
    y = property()                      # legal empty property

try:
    beartype(A)
except BaseException as e:
    traceback.print_exc(limit=2)
    print('BUG:', type(e).__name__, e)
    sys.exit(1)
a = A(); a.x = 3
try:
    a.x = 'three'
except Exception as e:
    print('ok, setter checked:', type(e).__name__); sys.exit(0)
print('BUG: setter unchecked'); sys.exit(1)
