# Transitivity: a TypeVar that is a member of a union (or a TypeVar bound to a union) is not
# expanded when the subhint is not itself a union.
import sys
from typing import Optional, TypeVar, Union
from beartype.door import is_subhint
T = TypeVar('T', bound=int)
TU = TypeVar('TU', bound=Union[int, str])
bad = 0
for A, B, C in ((int, T, Optional[T]), (int, Optional[int], Optional[T]), (list[int], list[T], list[Optional[T]]),
                (int, Union[int, str], TU)):
    ab, bc, ac = is_subhint(A, B), is_subhint(B, C), is_subhint(A, C)
    print(f'{A} <= {B}: {ab}; {B} <= {C}: {bc}; {A} <= {C}: {ac}')
    bad |= (ab and bc and not ac)
sys.exit(1 if bad else 0)
