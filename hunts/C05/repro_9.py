# A valid module with a long elif chain (or a long a+b+c+... expression) imports
# fine without the hook but raises RecursionError under the hook.
import sys; sys.path.insert(0, '/tmp/wt/hunt_C05_scratch')
from _common import *

N = 400
SRC_ELIF = ('def name(code: int) -> str:\n    if code == 0:\n        return "0"\n' +
    ''.join(f'    elif code == {i}:\n        return "{i}"\n' for i in range(1, N)) +
    '    return "?"\n')
SRC_SUM = 'TOTAL = ' + ' + '.join(['1'] * N) + '\n'
bad = 0
for label, src in (('elif chain', SRC_ELIF), ('sum expression', SRC_SUM)):
    import_plain(src)
    print(f'{label} x{N}: unhooked import ok')
    try:
        import_hooked(src)
        print(f'{label} x{N}: hooked import ok')
    except RecursionError as e:
        print(f'{label} x{N}: hooked import raised RecursionError: {e}')
        bad += 1
sys.exit(1 if bad else 0)
