# A synchronous functools.wraps() pass-through decorator applied to an
# "async def" function: @beartype takes the signature AND annotations from the
# coroutine function but decides sync/async from the outer wrapper, so the
# returned coroutine object is checked against the *awaited* return hint and
# every valid call raises a return violation (the coroutine is never awaited).
import asyncio, functools, warnings
from beartype import beartype

warnings.simplefilter('ignore', RuntimeWarning)

def passthrough(fn):
    @functools.wraps(fn)
    def wrapper(*args, **kwargs):
        return fn(*args, **kwargs)
    return wrapper

ran = []
@passthrough
async def orig(a: int) -> int:
    ran.append(a)
    return a

assert asyncio.run(orig(1)) == 1          # undecorated: fine
ran.clear()

dec = beartype(orig)
try:
    r = asyncio.run(dec(1))
    assert r == 1 and ran == [1]
    raise SystemExit(0)
except Exception as e:
    print('BUG valid call raised', e.__class__.__name__, str(e)[:200])
    print('original ran', len(ran), 'times')
    raise SystemExit(1)
