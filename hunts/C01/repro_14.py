# type[Optional[A]] / type[Union[A, None]] is refused although the equivalent
# spellings type[A | None] and type[Union[A, B, None]] are accepted.
import sys
from typing import Optional, Union
from beartype import beartype
from beartype.door import is_bearable
bad = 0
# NOTE: the typing.Optional spelling must be tried first in a fresh process:
# type[Optional[int]] == type[int | None], so whichever spelling is seen first
# is cached and decides the outcome for the other one too.
for name, hint in (('type[Optional[int]]', type[Optional[int]]),
                   ('type[Union[int, None]]', type[Union[int, None]])):
    for cls in (int, bool, type(None)):
        try:
            print(name, '<-', cls.__name__, ':', is_bearable(cls, hint))
        except Exception as e:
            bad += 1
            print(name, '<-', cls.__name__, ':', type(e).__name__, str(e)[:160])
try:
    @beartype
    def make(cls: type[Optional[int]]) -> None: pass
    make(int)
except Exception as e:
    bad += 1
    print('@beartype:', type(e).__name__, str(e)[:160])
print('control type[Union[int, str, None]] <- int:', is_bearable(int, type[Union[int, str, None]]))
print('control type[int | str] <- bool:', is_bearable(bool, type[int | str]))
sys.exit(1 if bad else 0)
