# Decoration never terminates for an isomorphic (*args, **kwargs) callable whose
# __wrapped__ chain is cyclic (inspect.unwrap() raises ValueError instead).
import signal, sys
from beartype import beartype
def f(*args: int, **kwargs: int) -> int: return 1
f.__wrapped__ = f
def on_alarm(*_):
    print('BUG: beartype(f) still running after 5s (infinite unwrap loop)')
    sys.exit(1)
signal.signal(signal.SIGALRM, on_alarm); signal.alarm(5)
try:
    beartype(f)
except Exception as e:
    print('ok: raised', type(e).__name__)
signal.alarm(0); sys.exit(0)
