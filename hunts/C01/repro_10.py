# A generic NamedTuple (legal since Python 3.11) is unusable as a hint.
import sys
from typing import Generic, NamedTuple, TypeVar
from beartype import beartype
from beartype.door import is_bearable
T = TypeVar('T')
class Pair(NamedTuple, Generic[T]):
    first: T
    second: T
bad = 0
for hint in (Pair, Pair[int], list[Pair[int]]):
    obj = [Pair(1, 2)] if hint is not Pair and getattr(hint, '__origin__', None) is list else Pair(1, 2)
    try:
        print(hint, '->', is_bearable(obj, hint))
    except Exception as e:
        bad += 1
        print(hint, '->', type(e).__name__, str(e)[:170])
try:
    @beartype
    def swap(p: Pair[int]) -> Pair[int]:
        return Pair(p.second, p.first)
    swap(Pair(1, 2))
except Exception as e:
    bad += 1
    print('@beartype:', type(e).__name__, str(e)[:170])
sys.exit(1 if bad else 0)
