# Callable[..., object] (no Any involved) is treated as an ignorable child hint.
import sys
from typing import Callable, Mapping, TypeVar
from beartype.door import is_bearable, is_subhint, TypeHint
bad = 0
print('TypeHint(Callable[..., object]).is_ignorable =', TypeHint(Callable[..., object]).is_ignorable,
      '; is_bearable(1, Callable[..., object]) =', is_bearable(1, Callable[..., object]))
TC = TypeVar('TC', bound=Callable[..., object])
for A, B, obj in (
    (list[int], list[Callable[..., object]], [1]),
    (tuple[int, ...], tuple[Callable[..., object], ...], (1,)),
    (dict[str, int], Mapping[Callable[..., object], object], {'a': 1}),
    (list[int], list[TC], [1]),
):
    sub, a, b = is_subhint(A, B), is_bearable(obj, A), is_bearable(obj, B)
    print(f'is_subhint({A}, {B}) = {sub}; {obj!r} satisfies sub: {a}; satisfies super: {b}')
    bad |= (sub and a and not b)
sys.exit(1 if bad else 0)
