# Annotated assignments: the injected die_if_unbearable() call re-evaluates the
# target's object expression and the annotation expression (and evaluates
# annotations Python itself never evaluates).
import sys; sys.path.insert(0, '/tmp/wt/hunt_C05_scratch')
from _common import *

SRC = '''
from typing import TYPE_CHECKING
if TYPE_CHECKING:
    from decimal import Decimal          # typing-only import

class Job: pass
queue = [Job(), Job(), Job()]
try:
    queue.pop().priority: int = 1        # target object expression has a side effect
    pop_result = 'ok'
except Exception as e:
    pop_result = repr(e)
remaining = len(queue)

hint_calls = []
def hint():
    hint_calls.append(1)
    return int
limit: hint() = 10                       # annotation expression has a side effect

def total(amount):
    value: Decimal = amount              # local annotations are never evaluated by Python
    return value
try:
    total_result = total(5)
except Exception as e:
    total_result = repr(e)
'''
p, h = import_plain(SRC), import_hooked(SRC)
bad = 0
for label, a, b in (
    ('queue.pop().priority: int = 1', p.pop_result, h.pop_result),
    ('jobs left in queue after one pop()', p.remaining, h.remaining),
    ('calls of hint()', len(p.hint_calls), len(h.hint_calls)),
    ('total(5)', p.total_result, h.total_result),
):
    print(f'{label}: unhooked={a!r} hooked={b!r}')
    bad += a != b
sys.exit(1 if bad else 0)
