# The hook changes the first line number of every annotated function that
# already has a decorator (default claw_decor_place_func): the injected
# decorator node carries the line of "def" but is inserted as decorator #0.
import sys, inspect; sys.path.insert(0, '/tmp/wt/hunt_C05_scratch')
from _common import *

SRC = '''
import functools

def logged(fn):
    @functools.wraps(fn)
    def wrapper(*a, **k):
        return fn(*a, **k)
    return wrapper

@logged
@logged
def area(w: int, h: int) -> int:
    return w * h
'''
bad = 0
res = []
for imp in (import_plain, import_hooked):
    f = inspect.unwrap(imp(SRC).area)     # the user's own function object
    lines, first = inspect.getsourcelines(f)
    res.append((f.__code__.co_firstlineno, first, lines[0].strip()))
    print(imp.__name__, 'co_firstlineno =', f.__code__.co_firstlineno,
          '| inspect.getsourcelines ->', first, repr(lines[0].strip()))
sys.exit(0 if res[0] == res[1] else 1)
