"""Path-forking symbolic executor for the Python subset that beartype's generated checkers / wrappers and the
function-mode targets use (DESIGN.md 2.1, 2.2, appendix E).

Every operation that can raise produces a *definedness obligation* (path => defined) and the path then continues
under the definedness assumption; every container-item read increments a symbolic *cost*; every operation executed
on a non-constant object is recorded as an *effect* with the path condition under which it runs.
Unsupported constructs raise Unsupported (the check then exits 3 - never a violation)."""
import ast, builtins, z3, types, inspect, textwrap, collections.abc as cabc
from dataclasses import dataclass, field
from . import model as M
from .model import Obj

class Unsupported(Exception): pass
class _AllRaised(Exception): pass      # an assignment whose every branch raised (the raise is queued in Exec.raised)
_BI_IDS = {id(getattr(builtins, n)): n for n in ('zip', 'enumerate', 'id', 'dict', 'hash', 'super', 'isinstance', 'issubclass', 'len', 'iter', 'next', 'getattr', 'bool', 'type', 'callable', 'tuple', 'all', 'any', 'list', 'set', 'sorted', 'sum', 'min', 'max', 'frozenset')}

# ---------------------------------------------------------------- values
class V: pass
@dataclass(frozen=True)
class VObj(V):
    t: object
@dataclass(frozen=True)
class VEnum(VObj):     # enumerate(src): still an opaque object, but a for loop over it knows its source
    src: object = None
@dataclass(frozen=True)
class VInt(V):
    t: object
@dataclass(frozen=True)
class VBool(V):
    t: object
@dataclass(frozen=True)
class VPy(V):            # a concrete Python object taken from the real scope / builtins / a constant
    o: object
    def __hash__(self): return id(self.o)
    def __eq__(self, other): return isinstance(other, VPy) and other.o is self.o
@dataclass(frozen=True)
class VTup(V):
    items: tuple
@dataclass(frozen=True)
class VIter(V):          # iter(x) / iter(x.values()) / iter(x.items())
    src: object; kind: str
@dataclass(frozen=True)
class VView(V):          # x.values() / x.items() / x.keys()
    src: object; kind: str
@dataclass(frozen=True)
class VSlice(V):         # x[a:b] of a symbolic sequence
    src: object; lo: object; hi: object
@dataclass(frozen=True)
class VBound(V):         # bound method x.name
    self_: object; name: str
@dataclass(frozen=True)
class VStar(V):          # *x in a call
    v: object
@dataclass(frozen=True)
class VClosure(V):       # a lambda / nested def defined in verified text
    node: object; env: object; scope: object

@dataclass(frozen=True)
class VExc(V):           # an exception instance constructed in verified text: class is concrete
    cls: object; args: tuple = ()
@dataclass
class Obl:
    name: str; kind: str; pc: tuple; goal: object; where: str = ''

@dataclass(frozen=True)
class St:
    env: tuple = ()              # persistent assoc: tuple of (name, V)   (locals of the function being executed)
    pc: tuple = ()
    cost: object = 0             # python int or z3 Int: number of container-item reads
    effects: tuple = ()          # (op, target-term-or-None, detail)
    events: tuple = ()           # ghost events (calls of abstract callees, checks, yields)
    heap: tuple = ()             # persistent assoc: (key, value) - survives calls (dict contents, field arrays, ghost tables)
    def get(self, n):
        for k, v in reversed(self.env):
            if k == n: return v
        return None
    def _r(self, **kw):
        d = dict(env=self.env, pc=self.pc, cost=self.cost, effects=self.effects, events=self.events, heap=self.heap); d.update(kw)
        return St(**d)
    def set(self, n, v): return self._r(env=tuple((k, w) for k, w in self.env if k != n) + ((n, v),))
    def assume(self, c):
        if z3.is_true(c): return self
        return self._r(pc=self.pc + (c,))
    def read(self, n=1): return self._r(cost=self.cost + n)
    def eff(self, op, tgt=None, detail=None): return self._r(effects=self.effects + ((op, tgt, detail),))
    def ev(self, *e): return self._r(events=self.events + (e,))
    def hget(self, k, default=None):
        for kk, v in reversed(self.heap):
            if kk == k: return v
        return default
    def hset(self, k, v): return self._r(heap=tuple((kk, w) for kk, w in self.heap if kk != k) + ((k, v),))
    def with_env(self, env): return self._r(env=env)

UNBOUND = VPy(type('Unbound', (), {'__repr__': lambda s: '<unbound>'})())
POISON = VPy(type('Poison', (), {'__repr__': lambda s: '<loop-carried>'})())
@dataclass(frozen=True)
class VKeyDiff(V):       # kwargs.keys() - <constant set of names>
    src: object; excluded: tuple
@dataclass(frozen=True)
class VDictRef(V):       # a dict object created in verified text with constant keys; contents live in the state heap under ('dict', rid)
    rid: int
@dataclass(frozen=True)
class VKw(V):            # the **kwargs dict of a function under contract (immutable: only forwarded with ** or tested for emptiness)
    items: tuple
@dataclass(frozen=True)
class VFStr(V):          # f-string: ordered parts
    parts: tuple
@dataclass(frozen=True)
class VPartial(V):       # functools.partial(func, **kwargs)
    func: object; kwargs: tuple
@dataclass(frozen=True)
class VSuper(V):         # super() inside a method: only super().__new__(cls) (object allocation) is modelled
    pass
ABSENT = z3.Const('absent_attribute', Obj)      # heap mode: what getattr(x, name, default) finds when x has no such attribute; never stored
@dataclass(frozen=True)
class VGhostMap(V):      # a module-level table under contract: lookups identify keys modulo ==/hash (model.eqc)
    name: str
@dataclass
class SymIter:           # a symbolic iteration domain: all values elem(var) with dom(var); ordered => var is an Int index
    var: object; dom: object; elem: object; ordered: bool; lo: object = None; st: object = None

class Exec:
    def __init__(self, uni, scope=None, *, prune=True, call_model=None, name='', random_int_name='__beartype_random_int',
                 inline_repo_funcs=True):
        self.uni = uni; self.scope = dict(scope or {}); self.obls = []; self.name = name
        self.prune = prune; self.call_model = call_model or {}; self._solver = None; self.npaths = 0
        self.inline_repo_funcs = inline_repo_funcs; self.assumptions = set(); self.dropped = set()
        self._axioms = None; self.nprune = 0; self.raised = []; self.fstr_eval_calls = False; self.on_yield = None; self.yield_resume = None; self.loop_contracts = {}; self.loop_index = {}; self.fields_mode = False; self.method_names = {'values', 'items', 'keys', 'get'}; self.ghost_unhashable = False; self.quantify_allany = False; self.bitor_is_dict_union = False; self.local_lists = set(); self.subscript_hook = None
    # ------------------------------------------------------------ helpers
    def obl(self, st, kind, goal, where=''):
        self.obls.append(Obl(f'{self.name}.{kind}.{len(self.obls)}', kind, st.pc, goal, where))
    def feasible(self, st):
        if not self.prune or not st.pc: return True
        s = z3.Solver(); s.set('timeout', 300)
        s.add(*self.ground_axioms()); s.add(*st.pc); self.nprune += 1
        return s.check() != z3.unsat
    def ground_axioms(self):
        # cheap, quantifier-free-ish subset used only for pruning infeasible paths (soundness does not depend on it)
        return []
    def obj(self, v):
        """coerce a value into an Obj term (boxing ints/bools as CPython would have an object there)"""
        if isinstance(v, VObj): return v.t
        if isinstance(v, VPy): return self.uni.const(v.o)
        if isinstance(v, VInt): return M.box_int(v.t)
        if isinstance(v, VBool): return M.box_bool(v.t)
        if isinstance(v, VTup):
            n = len(v.items)
            if n == 0: return self.uni.const(())
            return z3.Function(f'tuple{n}', *([Obj] * n), Obj)(*[self.obj(i) for i in v.items])
        if isinstance(v, VDictRef): return z3.Const(f'dictref_{v.rid}', Obj)
        if isinstance(v, VFStr):
            # one canonical string-concatenation symbol for f-strings and `+` (left-nested), so that equivalent spellings give the same term
            if not v.parts: return self.uni.const('')
            t = self.obj(v.parts[0])
            for p_ in v.parts[1:]: t = z3.Function('concat', Obj, Obj, Obj)(t, self.obj(p_))
            return t
        if isinstance(v, VSlice): return z3.Function('slice_of', Obj, Obj)(self.obj(v.src))
        if isinstance(v, VPartial): return z3.Const(f'partial_{getattr(v.func, "o", v.func)!r}'[:60], Obj)
        if isinstance(v, VExc): return z3.Const(f'exc_{v.cls.__name__}', Obj)
        raise Unsupported(f'object coercion of {type(v).__name__}')
    def beff(self, s, v):
        """truth-testing a general object runs its __bool__ (or __len__): recorded as an effect on that object (pure for bools / ints / constants)"""
        if isinstance(v, VObj): return s.eff('bool', v.t, None)
        return s
    def truth(self, v):
        if isinstance(v, VBool): return v.t
        if isinstance(v, VInt): return v.t != 0
        if isinstance(v, VObj): return M.truthy(v.t)
        if isinstance(v, VPy):
            return z3.BoolVal(bool(v.o))
        if isinstance(v, VTup): return z3.BoolVal(len(v.items) > 0)
        if isinstance(v, (VClosure, VBound, VPartial)): return z3.BoolVal(True)
        if isinstance(v, VKw): return z3.BoolVal(len(v.items) > 0)
        if isinstance(v, VFStr): return z3.BoolVal(True) if any(isinstance(p, VPy) and p.o for p in v.parts) else M.truthy(self.obj(v))
        raise Unsupported(f'truth of {type(v).__name__}')
    def fork(self, st, cond):
        """-> [(state, bool)] feasible branches on a z3 Bool"""
        cond = z3.simplify(cond)
        if z3.is_true(cond): return [(st, True)]
        if z3.is_false(cond): return [(st, False)]
        out = []
        for c, b in ((cond, True), (z3.Not(cond), False)):
            s2 = st.assume(c)
            if self.feasible(s2): out.append((s2, b))
        return out
    def as_int(self, v):
        if isinstance(v, VInt): return v.t
        if isinstance(v, VBool): return z3.If(v.t, 1, 0)
        if isinstance(v, VPy) and isinstance(v.o, (int, bool)): return z3.IntVal(int(v.o))
        if isinstance(v, VObj): return M.unbox_int(v.t)
        raise Unsupported(f'int coercion of {v}')
    def classes_of(self, v):
        """second argument of isinstance/issubclass -> list of class terms"""
        if isinstance(v, VPy):
            if isinstance(v.o, tuple): return [self.uni.const(c) for c in v.o]
            return [self.uni.const(v.o)]
        if isinstance(v, VTup): return [t for it in v.items for t in self.classes_of(it)]
        if isinstance(v, VObj): return [v.t]
        raise Unsupported('class argument')

    # ------------------------------------------------------------ expressions
    def eval(self, n, st):
        m = getattr(self, 'e_' + type(n).__name__, None)
        if m is None: raise Unsupported(f'expression {type(n).__name__}: {ast.unparse(n)[:80]}')
        return m(n, st)
    def eval_list(self, nodes, st):
        outs = [(st, ())]
        for n in nodes:
            nxt = []
            for s, vs in outs:
                if isinstance(n, ast.Starred):
                    for s2, v in self.eval(n.value, s): nxt.append((s2, vs + (VStar(v),)))
                else:
                    for s2, v in self.eval(n, s): nxt.append((s2, vs + (v,)))
            outs = nxt
        return outs
    def e_Constant(self, n, st):
        v = n.value
        if isinstance(v, bool): return [(st, VBool(z3.BoolVal(v)))]
        if isinstance(v, int): return [(st, VInt(z3.IntVal(v)))]
        return [(st, VPy(v))]
    def e_Name(self, n, st):
        v = st.get(n.id)
        if v is not None:
            if v is UNBOUND:
                self.obl(st, 'defined.name', z3.BoolVal(False), f'read of unassigned {n.id}')
                return []
            if v is POISON: raise Unsupported(f'loop-carried variable {n.id} (loop summarisation needs iterations without carried state)')
            return [(st, v)]
        if n.id in self.scope: return [(st, self.wrap(self.scope[n.id]))]
        if hasattr(builtins, n.id): return [(st, VPy(getattr(builtins, n.id)))]
        self.obl(st, 'defined.name', z3.BoolVal(False), f'NameError {n.id}')
        return []
    def wrap(self, o):
        if isinstance(o, V): return o
        return VPy(o)   # keep identity (literal objects, incl. True/1); as_int / truth convert on demand
    def e_NamedExpr(self, n, st):
        return [(s.set(n.target.id, v), v) for s, v in self.eval(n.value, st)]
    def e_BoolOp(self, n, st):
        is_and = isinstance(n.op, ast.And)
        outs = []; cur = [(st, None)]
        for idx, sub in enumerate(n.values):
            nxt = []
            for s, _ in cur:
                for s2, v in self.eval(sub, s):
                    if idx == len(n.values) - 1:
                        outs.append((s2, v)); continue
                    for s3, b in self.fork(self.beff(s2, v), self.truth(v)):
                        if b == is_and: nxt.append((s3, None))
                        else: outs.append((s3, v))
            cur = nxt
        return outs
    def e_UnaryOp(self, n, st):
        outs = []
        for s, v in self.eval(n.operand, st):
            if isinstance(n.op, ast.Not): outs.append((self.beff(s, v), VBool(z3.simplify(z3.Not(self.truth(v))))))
            elif isinstance(n.op, ast.USub): outs.append((s, VInt(-self.as_int(v))))
            else: raise Unsupported('unary op')
        return outs
    def e_IfExp(self, n, st):
        outs = []
        for s, c in self.eval(n.test, st):
            for s2, b in self.fork(self.beff(s, c), self.truth(c)):
                outs += self.eval(n.body if b else n.orelse, s2)
        return outs
    def e_Dict(self, n, st):
        """a dict display with constant string keys (or none): a fresh local dictionary (allocation recorded: `dictref_<rid>` is a new object)"""
        if any(k is None or not (isinstance(k, ast.Constant) and isinstance(k.value, str)) for k in n.keys): raise Unsupported(f'dict display with non-constant keys: {ast.unparse(n)[:60]}')
        cur = [(st, [])]
        for k, vnode in zip(n.keys, n.values):
            nxt = []
            for s, items in cur:
                for s2, v in self.eval(vnode, s): nxt.append((s2, items + [(k.value, v)]))
            cur = nxt
        outs = []
        for s, items in cur:
            s2, ref = self.new_dict(s, items); outs.append((s2.ev('alloc_dict', ref.rid, len(items)), ref))
        return outs
    def e_Tuple(self, n, st):
        return [(s, VTup(vs)) for s, vs in self.eval_list(n.elts, st)]
    e_List = e_Tuple
    def e_Compare(self, n, st):
        if len(n.ops) != 1: raise Unsupported('chained comparison')
        op = n.ops[0]; outs = []
        for s, (l, r) in self.eval_list([n.left, n.comparators[0]], st):
            outs += self.compare(s, op, l, r)
        return outs
    def is_intlike(self, v):
        return isinstance(v, VInt) or (isinstance(v, VPy) and type(v.o) is int)
    def compare(self, s, op, l, r):
        if isinstance(op, (ast.Is, ast.IsNot)):
            # True / False / None are singletons: a literal in the text and the real object denote the same thing
            if isinstance(l, VPy) and isinstance(l.o, bool) and isinstance(r, VBool): l = VBool(z3.BoolVal(l.o))
            if isinstance(r, VPy) and isinstance(r.o, bool) and isinstance(l, VBool): r = VBool(z3.BoolVal(r.o))
            if isinstance(l, VBool) and isinstance(r, VBool): c = (l.t == r.t)
            elif isinstance(l, VPy) and isinstance(r, VPy): c = z3.BoolVal(l.o is r.o)
            elif isinstance(l, (VInt, VBool)) or isinstance(r, (VInt, VBool)):
                c = self.obj(l) == self.obj(r)
            else: c = self.obj(l) == self.obj(r)
            return [(s, VBool(c if isinstance(op, ast.Is) else z3.Not(c)))]
        if isinstance(op, (ast.Eq, ast.NotEq)):
            if isinstance(l, VInt) and self.is_intlike(r) or isinstance(r, VInt) and self.is_intlike(l):
                c = self.as_int(l) == self.as_int(r)
            elif isinstance(l, VPy) and isinstance(r, VPy): c = z3.BoolVal(bool(l.o == r.o))
            else:
                s = s.eff('eq', self.obj(l)); c = M.eq(self.obj(l), self.obj(r))
            return [(s, VBool(c if isinstance(op, ast.Eq) else z3.Not(c)))]
        if isinstance(op, (ast.Lt, ast.LtE, ast.Gt, ast.GtE)):
            a, b = self.as_int(l), self.as_int(r)
            c = {ast.Lt: a < b, ast.LtE: a <= b, ast.Gt: a > b, ast.GtE: a >= b}[type(op)]
            return [(s, VBool(c))]
        if isinstance(op, (ast.In, ast.NotIn)):
            return self.contains(s, op, l, r)
        raise Unsupported('comparison ' + type(op).__name__)
    def contains(self, s, op, l, r):
        neg = isinstance(op, ast.NotIn)
        if isinstance(r, VGhostMap):
            outs = []
            for s1 in self.ghost_hashable(s, l):      # `key in dict` hashes the key too
                present, _ = self.ghost_lookup(s1, r, l)
                outs.append((s1, VBool(z3.Not(present) if neg else present)))
            return outs
        if isinstance(r, VDictRef) and isinstance(l, VPy):
            c = z3.BoolVal(l.o in dict(s.hget(('dict', r.rid), ())))
            return [(s, VBool(z3.Not(c) if neg else c))]
        if isinstance(r, VPy) and isinstance(r.o, (frozenset, set, tuple, dict, str)) and isinstance(l, VPy):
            c = z3.BoolVal(l.o in r.o)
        elif isinstance(r, VPy) and isinstance(r.o, (frozenset, set, tuple, dict)):
            # membership of a symbolic object in a concrete constant collection: equality with one of its members
            lt = self.obj(l)
            c = z3.Or(*[z3.Or(lt == self.uni.const(k), M.eq(lt, self.uni.const(k))) for k in r.o]) if len(r.o) else z3.BoolVal(False)
        else:
            rt = self.obj(r)
            # `in` on a symbolic container: hash lookup for Set/Mapping (O(1)), linear scan otherwise
            s = s.eff('contains', rt)
            c = M.mem(rt, self.obj(l))
            setlike = z3.Or(M.inst(rt, self.uni.const(cabc.Set)), M.inst(rt, self.uni.const(cabc.Mapping)))
            s = s._r(cost=s.cost + z3.If(setlike, 0, M.len_(rt)))
        return [(s, VBool(z3.Not(c) if neg else c))]
    def e_BinOp(self, n, st):
        outs = []
        for s, (l, r) in self.eval_list([n.left, n.right], st):
            if isinstance(n.op, ast.Sub) and isinstance(l, VView) and l.kind == 'keys' and isinstance(r, VPy) and isinstance(r.o, (set, frozenset)):
                outs.append((s, VKeyDiff(l.src, tuple(sorted(r.o, key=repr))))); continue
            if isinstance(n.op, ast.Add) and not (self.is_intlike(l) or isinstance(l, VBool)) and not (self.is_intlike(r) or isinstance(r, VBool)) and (isinstance(l, (VTup, VSlice, VFStr)) or isinstance(r, (VTup, VSlice, VFStr))):
                # sequence / string concatenation: an uninterpreted function of both operands
                outs.append((s, VObj(z3.Function('concat', Obj, Obj, Obj)(self.obj(l), self.obj(r))))); continue
            if isinstance(n.op, ast.BitOr) and self.bitor_is_dict_union and not (self.is_intlike(l) or isinstance(l, (VInt, VBool))):
                # PEP 584 dict union (also FrozenDict): keys of either operand, the right operand's value wins
                lt, rt = self.obj(l), self.obj(r); R = M.fresh('dict_union'); kq = M.fresh('ku')
                Map = self.uni.const(cabc.Mapping); ok = z3.And(M.inst(lt, Map), M.inst(rt, Map))
                self.obl(s, 'defined.dict_union', ok, ast.unparse(n)[:80]); s2 = s.assume(ok)
                law = z3.ForAll([kq], z3.And(M.mem(R, kq) == z3.Or(M.mem(lt, kq), M.mem(rt, kq)), M.mget(R, kq) == z3.If(M.mem(rt, kq), M.mget(rt, kq), M.mget(lt, kq))))
                outs.append((s2.assume(law).assume(M.inst(R, Map)), VObj(R))); continue
            a, b = self.as_int(l), self.as_int(r)
            if isinstance(n.op, ast.Mod):
                self.obl(s, 'defined.mod', b != 0, ast.unparse(n)[:80]); s = s.assume(b != 0)
                # Python % takes the sign of the divisor; SMT mod is non-negative: equal for b > 0
                res = z3.If(b > 0, a % b, -((-a) % (-b)))
                outs.append((s, VInt(res)))
            elif isinstance(n.op, ast.Add): outs.append((s, VInt(a + b)))
            elif isinstance(n.op, ast.Sub): outs.append((s, VInt(a - b)))
            elif isinstance(n.op, ast.Mult): outs.append((s, VInt(a * b)))
            elif isinstance(n.op, ast.FloorDiv):
                self.obl(s, 'defined.div', b != 0, ast.unparse(n)[:80]); s = s.assume(b != 0)
                outs.append((s, VInt(z3.If(b > 0, a / b, -((-a) / (-b)) if False else (a / b)))))
            else: raise Unsupported('binop ' + type(n.op).__name__)
        return outs
    def e_Subscript(self, n, st):
        outs = []
        if isinstance(n.slice, ast.Slice):
            sl = n.slice
            if sl.step is not None: raise Unsupported('slice step')
            for s, b in self.eval(n.value, st):
                los = self.eval(sl.lower, s) if sl.lower is not None else [(s, None)]
                for s2, lo in los:
                    his = self.eval(sl.upper, s2) if sl.upper is not None else [(s2, None)]
                    for s3, hi in his:
                        outs.append((s3, VSlice(b, None if lo is None else self.as_int(lo), None if hi is None else self.as_int(hi))))
            return outs
        for s, (b, i) in self.eval_list([n.value, n.slice], st):
            outs += self.subscript(s, b, i, ast.unparse(n)[:80])
        return outs
    def subscript(self, s, b, i, where=''):
        if self.subscript_hook is not None:
            r = self.subscript_hook(self, s, b, i, where)
            if r is not None: return r
        if isinstance(b, VDictRef):
            if not (isinstance(i, VPy) and isinstance(i.o, str)): raise Unsupported('non-constant key into a local dict: ' + where)
            cur = dict(s.hget(('dict', b.rid), ()))
            if i.o not in cur:
                self.obl(s, 'defined.key', z3.BoolVal(False), where); return []
            return [(s, cur[i.o])]
        if isinstance(b, VGhostMap):
            present, val = self.ghost_lookup(s, b, i)
            self.obl(s, 'defined.key', present, where); s = s.assume(present)
            return [(s.ev('ghost_get', b.name, self.keycls(i)), VObj(val))]
        if isinstance(b, VTup) and isinstance(i, (VInt,)) and z3.is_int_value(z3.simplify(i.t)):
            k = z3.simplify(i.t).as_long()
            if not (-len(b.items) <= k < len(b.items)):
                self.obl(s, 'defined.index', z3.BoolVal(False), where); return []
            return [(s, b.items[k])]
        if isinstance(b, VPy) and isinstance(i, VPy):
            try: return [(s, self.wrap(b.o[i.o]))]
            except Exception:
                self.obl(s, 'defined.index', z3.BoolVal(False), where); return []
        if isinstance(b, VPy) and isinstance(b.o, (tuple, list)) and isinstance(i, VInt) and z3.is_int_value(z3.simplify(i.t)):
            k = z3.simplify(i.t).as_long()
            try: return [(s, self.wrap(b.o[k]))]
            except Exception:
                self.obl(s, 'defined.index', z3.BoolVal(False), where); return []
        bt = self.obj(b)
        if isinstance(i, (VInt, VBool)) or (isinstance(i, VPy) and type(i.o) is int):
            it = self.as_int(i); ln = M.len_(bt)
            ok = z3.And(M.inst(bt, self.uni.const(cabc.Sequence)), -ln <= it, it < ln)
            self.obl(s, 'defined.index', ok, where); s = s.assume(ok)
            s = s.read().eff('getitem_int', bt, it)
            res = M.item(bt, z3.If(it >= 0, it, it + ln) if not z3.is_int_value(z3.simplify(it)) or z3.simplify(it).as_long() < 0 else it)
            return [(s.ev('read', 'item', bt, res, it), VObj(res))]
        kt = self.obj(i)
        ok = z3.And(M.inst(bt, self.uni.const(cabc.Mapping)), M.mem(bt, kt))
        self.obl(s, 'defined.key', ok, where); s = s.assume(ok)
        s = s.read().eff('getitem_key', bt, kt)
        return [(s.ev('read', 'value', bt, M.mget(bt, kt), kt), VObj(M.mget(bt, kt)))]
    def e_Attribute(self, n, st):
        outs = []
        for s, b in self.eval(n.value, st):
            outs += self.getattr_(s, b, n.attr)
        return outs
    def getattr_(self, s, b, name):
        if isinstance(b, VPy) and isinstance(b.o, types.ModuleType) and s.hget(('global', b.o.__name__, name)) is not None:
            return [(s, s.hget(('global', b.o.__name__, name)))]
        if isinstance(b, VPy) and not isinstance(b.o, (int, str, dict, list, tuple, set, frozenset)):
            try: v = getattr(b.o, name)
            except AttributeError: return [(s, VBound(b, name))]
            if not callable(v) or isinstance(v, (types.FunctionType, types.MethodType, type)): return [(s, self.wrap(v))]
        if isinstance(b, VObj) and self.fields_mode and name not in self.method_names:
            last = s.hget(('fieldlast', name))
            if last is not None and last[0].eq(b.t): return [(s, last[1])]      # the structured value just stored into this very object
            return [(s, VObj(z3.Select(self.field(s, name), b.t)))]
        return [(s, VBound(b, name))]
    def e_Yield(self, n, st):
        outs = []
        vals = self.eval(n.value, st) if n.value is not None else [(st, VPy(None))]
        for s, v in vals:
            k = s.hget('__nyield', 0)
            idx = s.get('__nyield')
            s = s.ev('yield', v, idx)
            if self.on_yield is not None: self.on_yield(self, s, v, idx)
            if idx is not None: s = s.set('__nyield', VInt(self.as_int(idx) + 1))
            if self.yield_resume is not None:
                # a suspension point: the caller resumes with a sent value (None for next()) or by throwing an exception in
                sent, thrown, thrown_pre = self.yield_resume(self, s)
                self.raised.append((s.assume(thrown_pre).ev('resume', 'throw', thrown), VObj(thrown)))
                outs.append((s.ev('resume', 'send', sent), VObj(sent)))
            else: outs.append((s, VPy(None)))
        return outs
    def e_Await(self, n, st):
        return [(s.ev('await'), v) for s, v in self.eval(n.value, st)]
    def e_YieldFrom(self, n, st):
        return [(s.ev('yield_from', v), VObj(M.fresh('yield_from_result'))) for s, v in self.eval(n.value, st)]
    def e_Lambda(self, n, st):
        return [(st, VClosure(n, st.env, None))]
    def e_JoinedStr(self, n, st):
        # an f-string is the ordered concatenation of its parts: constants stay constants, substitutions keep their value terms
        outs = [(st, ())]
        for part in n.values:
            nxt = []
            for s, acc in outs:
                if isinstance(part, ast.Constant): nxt.append((s, acc + (VPy(part.value),)))
                elif not self.fstr_eval_calls and any(isinstance(x, (ast.Call, ast.Await, ast.Yield, ast.NamedExpr)) for x in ast.walk(part.value)):
                    # message text: calls inside f-strings (repr(...), label_*(...)) are NOT executed - the part is an opaque string
                    self.dropped.add('call expressions inside f-strings (message text) are not executed')
                    nxt.append((s, acc + (VObj(M.fresh('fstr_part')),)))
                else:
                    for s2, v in self.eval(part.value, s): nxt.append((s2, acc + (v,)))
            outs = nxt
        self.dropped.add('f-string conversion/format specs (parts and their order are kept)')
        return [(s, VFStr(acc)) for s, acc in outs]
    def e_GeneratorExp(self, n, st):
        return [(st, VClosure(n, st.env, None))]

    # ------------------------------------------------------------ calls
    def e_Call(self, n, st):
        outs = []
        for s, f in self.eval(n.func, st):
            for s2, args in self.eval_list(n.args, s):
                kws = [(s2, ())]
                for kw in n.keywords:
                    nxt = []
                    for s3, acc in kws:
                        for s4, v in self.eval(kw.value, s3):
                            if kw.arg is None and isinstance(v, VKw): nxt.append((s4, acc + tuple(v.items)))      # **kwargs forwarded: expanded
                            else: nxt.append((s4, acc + ((kw.arg, v),)))
                    kws = nxt
                for s3, kwargs in kws:
                    outs += self.call(s3, f, args, dict(kwargs) if all(k is not None for k, _ in kwargs) else kwargs, ast.unparse(n)[:100])
        return outs
    def call(self, s, f, args, kwargs, where=''):
        # 1. contracts supplied by the sidecar for this callee (callee contract, never its body)
        key = f.o if isinstance(f, VPy) else (f.name if isinstance(f, VBound) else None)
        try:
            cm = self.call_model.get(key) if key is not None else None
        except TypeError: cm = None
        if cm is None and isinstance(f, VBound): cm = self.call_model.get('.' + f.name)
        if cm is not None: return cm(self, s, f, args, kwargs, where)
        if isinstance(f, VPy):
            o = f.o
            h = self.BUILTINS.get(_BI_IDS.get(id(o)))
            if h: return h(self, s, args, kwargs, where)
            if isinstance(o, types.FunctionType) and self.inline_repo_funcs and self.is_repo_func(o):
                return self.inline(s, o, args, kwargs, where)
            if isinstance(o, types.MethodType) and self.inline_repo_funcs and self.is_repo_func(o.__func__):
                return self.inline(s, o.__func__, (VPy(o.__self__),) + tuple(args), kwargs, where)
            if isinstance(o, type) and issubclass(o, BaseException):
                return [(s, VExc(o, tuple(args)))]
            if callable(o):
                # user callable (validator lambda, instance-check hook, ...): abstract, deterministic, may run user code
                if len(args) == 1 and not kwargs:
                    at = self.obj(args[0]); s = s.eff('usercall', self.uni.const(o), at)
                    return [(s, VObj(M.callres(self.uni.const(o), at)))]
                raise Unsupported(f'call of concrete callable {o!r} with {len(args)} args: {where}')
        if isinstance(f, VBound): return self.call_method(s, f, args, kwargs, where)
        if isinstance(f, VClosure): return self.call_closure(s, f, args, kwargs, where)
        raise Unsupported(f'call {where}')
    def is_repo_func(self, o):
        from . import REPO
        try: fn = inspect.getsourcefile(o) or ''
        except TypeError: return False
        import os
        return os.path.abspath(fn).startswith(REPO + os.sep)
    _src_cache = {}
    def func_ast(self, o):
        """AST of a real function of the working tree, located by file and first line (nested defs and lambdas too)"""
        code = o.__code__; fn = code.co_filename
        tree = self._src_cache.get(fn)
        if tree is None:
            tree = self._src_cache[fn] = ast.parse(open(fn).read())
        cands = [x for x in ast.walk(tree) if isinstance(x, (ast.FunctionDef, ast.Lambda, ast.AsyncFunctionDef)) and min([d.lineno for d in getattr(x, 'decorator_list', [])] + [x.lineno]) == code.co_firstlineno
                 and (isinstance(x, ast.Lambda)) == (code.co_name == '<lambda>')]
        if isinstance(cands[0] if cands else None, ast.FunctionDef): cands = [x for x in cands if x.name == code.co_name]
        if len(cands) != 1: raise Unsupported(f'cannot locate source of {o!r}')
        return cands[0]
    def inline(self, s, o, args, kwargs, where):
        node = self.func_ast(o)
        scope = dict(o.__globals__)
        if o.__closure__:
            for nm, cell in zip(o.__code__.co_freevars, o.__closure__):
                try: scope[nm] = cell.cell_contents
                except ValueError: pass
        sub = Exec(self.uni, scope, prune=self.prune, call_model=self.call_model, name=self.name + '>' + o.__name__,
                   inline_repo_funcs=self.inline_repo_funcs)
        sub.obls = self.obls; sub.assumptions = self.assumptions; sub.dropped = self.dropped; sub.raised = self.raised; sub.on_yield = None; sub.fstr_eval_calls = self.fstr_eval_calls; sub.fields_mode = self.fields_mode; sub.method_names = self.method_names; sub.ghost_unhashable = self.ghost_unhashable; sub.quantify_allany = self.quantify_allany
        return sub.run_function(node, s, args, kwargs, o)
    def bind_params(self, node, s, args, kwargs, defaults_from=None):
        a = node.args; env = {}
        params = [p.arg for p in a.posonlyargs + a.args]
        if any(isinstance(x, VStar) for x in args): raise Unsupported('star-args into inlined function')
        if len(args) > len(params) and not a.vararg: raise Unsupported('too many positional args')
        for p, v in zip(params, args): env[p] = v
        if a.vararg: env[a.vararg.arg] = VTup(tuple(args[len(params):]))
        kwargs = dict(kwargs)
        for p in params[len(args):] + [k.arg for k in a.kwonlyargs]:
            if p in kwargs: env[p] = kwargs.pop(p)
        # defaults: evaluated values from the real function object when available
        if defaults_from is not None:
            sig_defaults = {}
            d = defaults_from.__defaults__ or ()
            for p, v in zip(params[len(params) - len(d):], d): sig_defaults[p] = v
            sig_defaults.update(defaults_from.__kwdefaults__ or {})
            for p, v in sig_defaults.items():
                if p not in env: env[p] = self.wrap(v)
        missing = [p for p in params + [k.arg for k in a.kwonlyargs] if p not in env]
        if missing: raise Unsupported(f'missing args {missing}')
        if a.kwarg: env[a.kwarg.arg] = VKw(tuple(kwargs.items()))
        elif kwargs: raise Unsupported(f'unexpected kwargs {list(kwargs)}')
        return env
    def run_function(self, node, s, args, kwargs, fobj=None):
        env = self.bind_params(node, s, args, kwargs, fobj)
        inner = s.with_env(tuple(env.items()))
        outs = []
        if isinstance(node, ast.Lambda):
            for s2, v in self.eval(node.body, inner):
                outs.append((s2.with_env(s.env), v))
            return outs
        for kind, s2, v in self.exec_block(node.body, inner):
            back = s2.with_env(s.env)
            if kind == 'next': outs.append((back, VPy(None)))
            elif kind == 'return': outs.append((back, v))
            elif kind == 'raise': self.raised.append((back, v))
            else: raise Unsupported('completion ' + kind)
        return outs
    def call_closure(self, s, f, args, kwargs, where):
        if isinstance(f.node, ast.Lambda):
            env = self.bind_params(f.node, s, args, kwargs)
            inner = s.with_env(f.env + tuple(env.items()))
            return [(s2.with_env(s.env), v) for s2, v in self.eval(f.node.body, inner)]
        raise Unsupported('closure call ' + where)
    def call_method(self, s, f, args, kwargs, where):
        b, name = f.self_, f.name
        if isinstance(b, VSuper) and self.call_model.get('super.' + name) is not None:
            return self.call_model['super.' + name](self, s, f, args, kwargs, where)
        if isinstance(b, VSuper) and name == '__new__' and len(args) == 1:
            t = M.fresh('new'); cs = self.classes_of(args[0])
            s = s.assume(M.inst(t, cs[0])).ev('alloc', t)
            return [(s, VObj(t))]
        if isinstance(b, VGhostMap) and name == 'get' and 1 <= len(args) <= 2:
            outs = []
            for s1 in self.ghost_hashable(s, args[0]):
                present, val = self.ghost_lookup(s1, b, args[0])
                for s2, p in self.fork(s1, present):
                    outs.append((s2.ev('ghost_get', b.name, self.keycls(args[0])), VObj(val)) if p else (s2, args[1] if len(args) == 2 else VPy(None)))
            return outs
        if isinstance(b, VDictRef) and name == 'get' and 1 <= len(args) <= 2 and isinstance(args[0], VPy):
            cur = dict(s.hget(('dict', b.rid), ()))
            return [(s, cur.get(args[0].o, args[1] if len(args) == 2 else VPy(None)))]
        if isinstance(b, VDictRef) and name == 'copy' and not args:
            s2, ref = self.new_dict(s, list(s.hget(('dict', b.rid), ()))); return [(s2, ref)]
        if name in ('values', 'items', 'keys') and not args:
            bt = self.obj(b); ok = M.inst(bt, self.uni.const(cabc.Mapping))
            self.obl(s, 'defined.attr', ok, where); s = s.assume(ok)
            return [(s.eff('view_' + name, bt), VView(b, name))]
        if name == 'get' and 1 <= len(args) <= 2:
            bt = self.obj(b); kt = self.obj(args[0]); ok = M.inst(bt, self.uni.const(cabc.Mapping))
            self.obl(s, 'defined.attr', ok, where); s = s.assume(ok)
            dflt = args[1] if len(args) == 2 else VPy(None)
            outs = []
            for s2, present in self.fork(s, M.mem(bt, kt)):
                outs.append((s2.eff('dict_get', bt, kt), VObj(M.mget(bt, kt)) if present else dflt))
            return outs
        if name in ('isidentifier',) and isinstance(b, VPy) and isinstance(b.o, str):
            return [(s, VBool(z3.BoolVal(getattr(b.o, name)())))]
        # any other method call on a symbolic object is an unknown (possibly mutating, possibly linear) operation
        s = s.eff('method:' + name, self.obj(b) if not isinstance(b, (VClosure,)) else None)
        raise Unsupported(f'method call .{name}(): {where}')

    # builtin encodings -------------------------------------------------
    def b_id(self, s, args, kw, where):
        return [(s, VInt(M.id_(self.obj(args[0]))))]
    def b_super(self, s, args, kw, where):
        return [(s, VSuper())]
    def b_dict(self, s, args, kw, where):
        if args: raise Unsupported('dict(positional): ' + where)
        s2, ref = self.new_dict(s, list(dict(kw).items()))
        return [(s2, ref)]
    def b_hash(self, s, args, kw, where):
        kc = self.keycls(args[0])
        H = z3.Function(f'hash{len(kc)}', *([Obj] * len(kc)), Obj)
        return [(s, VObj(H(*kc)))]
    def b_isinstance(self, s, args, kw, where):
        o, c = args
        if isinstance(o, VDictRef) and isinstance(c, VPy):
            try: return [(s, VBool(z3.BoolVal(issubclass(dict, c.o))))]
            except TypeError: pass
        ot = self.obj(o)
        if isinstance(o, VPy) and isinstance(c, VPy):
            try: return [(s, VBool(z3.BoolVal(isinstance(o.o, c.o))))]
            except TypeError: pass
        cs = self.classes_of(c)
        return [(s.eff('isinstance', ot), VBool(z3.Or(*[M.inst(ot, k) for k in cs]) if len(cs) != 1 else M.inst(ot, cs[0])))]
    def b_issubclass(self, s, args, kw, where):
        o, c = args; ot = self.obj(o)
        ok = M.inst(ot, self.uni.const(type))
        self.obl(s, 'defined.issubclass', ok, where); s = s.assume(ok)
        cs = self.classes_of(c)
        return [(s.eff('issubclass', ot), VBool(z3.Or(*[M.subc(ot, k) for k in cs]) if len(cs) != 1 else M.subc(ot, cs[0])))]
    def b_len(self, s, args, kw, where):
        (o,) = args
        if isinstance(o, VDictRef): return [(s, VInt(z3.IntVal(len(s.hget(('dict', o.rid), ())))))]
        if isinstance(o, VTup): return [(s, VInt(z3.IntVal(len(o.items))))]
        if isinstance(o, VPy) and isinstance(o.o, (tuple, list, str, dict, set, frozenset)): return [(s, VInt(z3.IntVal(len(o.o))))]
        ot = self.obj(o); ok = M.inst(ot, self.uni.const(cabc.Sized))
        self.obl(s, 'defined.len', ok, where); s = s.assume(ok)
        return [(s.eff('len', ot), VInt(M.len_(ot)))]
    def b_enumerate(self, s, args, kw, where):
        src = args[0]
        if isinstance(src, VSlice):
            t = self.obj(src.src)
            return [(s.eff('enumerate', t).ev('enumerate', t), VEnum(M.fresh('enumerate_of_slice'), src))]
        t = self.obj(src)
        return [(s.eff('enumerate', t).ev('enumerate', t), VEnum(z3.Function('enumerate_of', Obj, Obj)(t), t))]
    def b_iter(self, s, args, kw, where):
        (o,) = args
        if isinstance(o, VView): return [(s, VIter(o.src, o.kind))]
        if isinstance(o, VTup): return [(s, VIter(o, 'tuple'))]
        ot = self.obj(o); ok = M.inst(ot, self.uni.const(cabc.Iterable))
        self.obl(s, 'defined.iter', ok, where); s = s.assume(ok)
        return [(s.eff('iter', ot), VIter(o, 'plain'))]
    def b_next(self, s, args, kw, where):
        (it,) = args
        if not isinstance(it, VIter): raise Unsupported('next() of non-iter() value: ' + where)
        bt = self.obj(it.src)
        ok = M.len_(bt) > 0
        self.obl(s, 'defined.next', ok, where); s = s.assume(ok)
        s = s.read().eff('next', bt, it.kind)
        if it.kind == 'items':
            # the first (key, value) pair of a mapping: the first key and its value (Mapping laws)
            k0 = M.first(bt)
            return [(s.ev('read', 'first', bt, k0, None).ev('read', 'value', bt, M.mget(bt, k0), k0), VTup((VObj(k0), VObj(M.mget(bt, k0)))))]
        fn = {'plain': M.first, 'keys': M.first, 'values': M.firstval}[it.kind]
        return [(s.ev('read', {'plain': 'first', 'keys': 'first', 'values': 'value'}[it.kind], bt, fn(bt), None), VObj(fn(bt)))]
    def b_getattr(self, s, args, kw, where):
        if len(args) == 3 and isinstance(args[1], VPy) and isinstance(args[1].o, str):
            ot = self.obj(args[0]); nm = self.uni.const(args[1].o)
            outs = []
            if self.fields_mode and isinstance(args[0], VObj) and args[1].o not in self.method_names:
                # heap mode: the attribute is the field the code itself may have stored; "absent" is a distinguished value no store ever writes
                t = z3.Select(self.field(s, args[1].o), ot)
                for s2, has in self.fork(s, t != ABSENT):
                    if has and isinstance(args[2], VPy):
                        self.assumptions.add('no attribute value is the private sentinel passed as getattr() default')
                        s2 = s2.assume(t != self.obj(args[2]))
                    outs.append((s2.eff('getattr', ot, args[1].o), VObj(t) if has else args[2]))
                return outs
            for s2, has in self.fork(s, M.hasattr_(ot, nm)):
                if has and isinstance(args[2], VPy):
                    # assumption (listed in the evidence): an attribute value is never the private default/sentinel object itself
                    self.assumptions.add('no attribute value is the private sentinel passed as getattr() default')
                    s2 = s2.assume(M.attr(ot, nm) != self.obj(args[2]))
                outs.append((s2.eff('getattr', ot, args[1].o), VObj(M.attr(ot, nm)) if has else args[2]))
            return outs
        raise Unsupported('getattr form: ' + where)
    def b_bool(self, s, args, kw, where):
        return [(self.beff(s, args[0]), VBool(self.truth(args[0])))]
    def b_type(self, s, args, kw, where):
        if len(args) == 1: return [(s, VObj(M.typeof(self.obj(args[0]))))]
        raise Unsupported('type() 3-arg')
    def b_callable(self, s, args, kw, where):
        if isinstance(args[0], VPy): return [(s, VBool(z3.BoolVal(callable(args[0].o))))]
        return [(s, VBool(M.inst(self.obj(args[0]), self.uni.const(cabc.Callable))))]
    def b_zip(self, s, args, kw, where):
        if all(isinstance(a, VTup) for a in args):
            n = min(len(a.items) for a in args) if args else 0
            return [(s, VTup(tuple(VTup(tuple(a.items[i] for a in args)) for i in range(n))))]
        raise Unsupported('zip over symbolic iterables: ' + where)
    def b_allany(self, s, args, kw, where, is_all):
        """all()/any() over a generator expression whose source has a concrete length: unrolled with short-circuit"""
        a = args[0] if args else None
        if isinstance(a, VClosure) and isinstance(a.node, ast.GeneratorExp) and len(a.node.generators) == 1 and not a.node.generators[0].ifs:
            g = a.node.generators[0]
            r = self.eval(g.iter, s.with_env(a.env))
            if len(r) == 1 and (isinstance(r[0][1], VTup) or (isinstance(r[0][1], VPy) and isinstance(r[0][1].o, (tuple, list)))):
                s1, src = r[0]
                elems = list(src.items) if isinstance(src, VTup) else [self.wrap(e) for e in src.o]
                outs = []; cur = [s1]
                for e in elems:
                    nxt = []
                    for sc in cur:
                        for s2, v in self.eval(a.node.elt, self.assign(sc, g.target, e)):
                            for s3, b in self.fork(s2, self.truth(v)):
                                if b == is_all: nxt.append(s3)
                                else: outs.append((s3.with_env(s.env), VBool(z3.BoolVal(not is_all))))
                    cur = nxt
                return outs + [(sc.with_env(s.env), VBool(z3.BoolVal(is_all))) for sc in cur]
        if a is not None and not kw and len(args) == 1 and self.quantify_allany:
            # symbolic source: the result is DEFINED by a quantified formula over the iteration domain (element expression single-path)
            if isinstance(a, VClosure) and isinstance(a.node, ast.GeneratorExp) and len(a.node.generators) == 1 and not a.node.generators[0].ifs and isinstance(a.node.generators[0].target, ast.Name):
                # element expressions may fork (short-circuit and/or, nested any()/all()): the element's truth is the disjunction over its paths
                g = a.node.generators[0]
                r0 = self.eval(g.iter, s.with_env(a.env))
                if len(r0) != 1: raise Unsupported('generator source forks')
                it0 = self.symiter(r0[0][0], r0[0][1])
                s2 = it0.st.set(g.target.id, it0.elem).assume(it0.dom); base = len(s2.pc)
                parts = [z3.And(*(list(s3.pc[base:]) + [self.truth(v3)])) for s3, v3 in self.eval(a.node.elt, s2)]
                t = z3.Or(*parts) if parts else z3.BoolVal(False)
                it = SymIter(it0.var, it0.dom, None, it0.ordered, it0.lo, it0.st._r(env=s.env))
            else:
                it = self.symiter(s, a)
                t = self.truth(it.elem)
            q = z3.ForAll([it.var], z3.Implies(it.dom, t)) if is_all else z3.Exists([it.var], z3.And(it.dom, t))
            # the value IS the quantified formula (no fresh name: a nested any()/all() inside a generator element must stay a function of
            # the enclosing iteration variable)
            return [(it.st._r(env=s.env), VBool(q))]
        return self.b_linear(s, args, kw, where)
    def b_all(self, s, args, kw, where): return self.b_allany(s, args, kw, where, True)
    def b_any(self, s, args, kw, where): return self.b_allany(s, args, kw, where, False)
    def b_minmax(self, s, args, kw, where, is_min=True):
        if len(args) >= 2 and not kw and all(self.is_intlike(a) or isinstance(a, (VInt, VBool)) for a in args):
            cur = self.as_int(args[0])
            for a in args[1:]:
                b = self.as_int(a); cur = z3.If(cur <= b, cur, b) if is_min else z3.If(cur >= b, cur, b)
            return [(s, VInt(cur))]
        return self.b_linear(s, args, kw, where)
    def b_min(self, s, args, kw, where): return self.b_minmax(s, args, kw, where, True)
    def b_max(self, s, args, kw, where): return self.b_minmax(s, args, kw, where, False)
    def b_collect(self, s, args, kw, where):
        """set()/tuple()/list()/frozenset() of a symbolic collection: a new collection with exactly the same members (order / multiplicity abstract)"""
        a = args[0] if args else None
        if self.local_lists and isinstance(a, VObj) and len(args) == 1 and not kw:
            R = M.fresh('collected'); k = M.fresh('kc')
            s = s._r(cost=s.cost + M.len_(a.t), effects=s.effects + (('iterate_all', a.t, where),))
            return [(s.assume(z3.ForAll([k], M.mem(R, k) == M.mem(a.t, k))), VObj(R))]
        return self.b_linear(s, args, kw, where)
    def b_linear(self, s, args, kw, where):
        """all()/any()/tuple()/list()/sorted()/... over a symbolic container: an operation whose cost is the container's length"""
        a = args[0] if args else None
        if isinstance(a, VClosure) and isinstance(a.node, ast.GeneratorExp):
            g = a.node.generators[0]
            inner = s.with_env(a.env)
            res = self.eval(g.iter, inner)
            if len(res) != 1: raise Unsupported('generator source forks')
            src = res[0][1]
        else: src = a
        if isinstance(src, (VObj,)):
            t = src.t
            s = s._r(cost=s.cost + M.len_(t), effects=s.effects + (('iterate_all', t, where),))
            return [(s, VObj(M.fresh('linres')))] if True else []
        raise Unsupported('linear builtin over ' + type(src).__name__ + ': ' + where)
    BUILTINS = {'enumerate': b_enumerate, 'id': b_id, 'super': b_super, 'dict': b_dict, 'hash': b_hash, 'isinstance': b_isinstance, 'issubclass': b_issubclass, 'len': b_len, 'iter': b_iter, 'next': b_next,
                'getattr': b_getattr, 'bool': b_bool, 'type': b_type, 'callable': b_callable,
                'all': b_all, 'any': b_any, 'zip': b_zip, 'tuple': b_collect, 'list': b_collect, 'set': b_collect, 'sorted': b_linear,
                'sum': b_linear, 'min': b_min, 'max': b_max, 'frozenset': b_collect}

    # ------------------------------------------------------------ statements
    def exec_block(self, stmts, st):
        """-> [(kind, state, value)] kind in next/return/raise/break/continue"""
        cur = [st]; outs = []
        for stmt in stmts:
            nxt = []
            for s in cur:
                for kind, s2, v in self.exec_stmt(stmt, s):
                    if kind == 'next': nxt.append(s2)
                    else: outs.append((kind, s2, v))
            cur = nxt
            if not cur: break
        return outs + [('next', s, None) for s in cur]
    def exec_stmt(self, n, st):
        m = getattr(self, 's_' + type(n).__name__, None)
        if m is None: raise Unsupported(f'statement {type(n).__name__}: {ast.unparse(n)[:80]}')
        mark = len(self.raised)
        outs = m(n, st)
        new = self.raised[mark:]; del self.raised[mark:]
        # exceptions raised inside inlined callees surface at the enclosing statement of the caller
        return outs + [('raise', s.with_env(st.env), v) for s, v in new]
    def s_Expr(self, n, st):
        if isinstance(n.value, ast.Constant): return [('next', st, None)]   # docstring
        c = n.value
        if (isinstance(c, ast.Call) and isinstance(c.func, ast.Attribute) and c.func.attr == 'append' and isinstance(c.func.value, ast.Name) and c.func.value.id in self.local_lists
                and len(c.args) == 1 and not c.keywords and isinstance(st.get(c.func.value.id), VObj)):
            # a LOCAL, unaliased list (named by the sidecar): append rebinds the name to the extended sequence
            outs = []
            for s, v in self.eval(c.args[0], st):
                L = s.get(c.func.value.id).t; L2 = M.fresh('list_app'); j = M.fresh('ja', z3.IntSort()); n0 = M.len_(L)
                s = s.assume(z3.And(M.inst(L2, self.uni.const(list)), M.len_(L2) == n0 + 1, M.item(L2, n0) == self.obj(v), z3.ForAll([j], z3.Implies(z3.And(0 <= j, j < n0), M.item(L2, j) == M.item(L, j)))))
                outs.append(('next', s.set(c.func.value.id, VObj(L2)), None))
            return outs
        return [('next', s, None) for s, _ in self.eval(n.value, st)]
    def s_Pass(self, n, st): return [('next', st, None)]
    def s_Break(self, n, st): return [('break', st, None)]
    def s_Continue(self, n, st): return [('continue', st, None)]
    def s_Return(self, n, st):
        if n.value is None: return [('return', st, VPy(None))]
        return [('return', s, v) for s, v in self.eval(n.value, st)]
    def s_Raise(self, n, st):
        if n.exc is None: return [('raise', st, st.get('__exc__'))]
        return [('raise', s, v) for s, v in self.eval(n.exc, st)]
    def exc_matches(self, exc, handler_type_v):
        """-> True/False/None(unknown) : does the handler catch this exception value"""
        if handler_type_v is None: return True
        hts = handler_type_v.o if isinstance(handler_type_v, VPy) else None
        if isinstance(handler_type_v, VTup): hts = tuple(x.o for x in handler_type_v.items if isinstance(x, VPy))
        if hts is None: return None
        if isinstance(exc, VExc):
            try: return issubclass(exc.cls, hts)
            except TypeError: return None
        return None
    def s_Try(self, n, st):
        outs = []
        body = self.exec_block(n.body, st)
        after = []
        for kind, s, v in body:
            if kind == 'raise':
                pending = [s]      # states in which the exception is still unhandled
                for h in n.handlers:
                    ht = None
                    if h.type is not None:
                        r = self.eval(h.type, pending[0]) if pending else []
                        if pending and len(r) != 1: raise Unsupported('handler type forks')
                        ht = r[0][1] if r else None
                    nxt = []
                    for sp in pending:
                        m = self.exc_matches(v, ht)
                        if m is None and isinstance(v, VObj):
                            # symbolic exception object: the handler catches it iff it is an instance of the handler's class(es)
                            cond = z3.Or(*[M.inst(v.t, k) for k in self.classes_of(ht)])
                            branches = self.fork(sp, cond)
                        elif m is None: raise Unsupported(f'cannot decide whether `except {ast.unparse(h.type) if h.type else ""}` catches {v}')
                        else: branches = [(sp, bool(m))]
                        for sb, hit in branches:
                            if hit:
                                s2 = sb.set('__exc__', v) if v is not None else sb
                                if h.name: s2 = s2.set(h.name, v if v is not None else VPy(None))
                                after += self.exec_block(h.body, s2)
                            else: nxt.append(sb)
                    pending = nxt
                after += [(kind, sp, v) for sp in pending]
            elif kind == 'next' and n.orelse:
                after += self.exec_block(n.orelse, s)
            else: after.append((kind, s, v))
        if not n.finalbody: return after
        for kind, s, v in after:
            for k2, s2, v2 in self.exec_block(n.finalbody, s):
                outs.append((kind, s2, v) if k2 == 'next' else (k2, s2, v2))
        return outs
    def s_Assign(self, n, st):
        outs = []
        if isinstance(n.value, ast.List) and not n.value.elts and len(n.targets) == 1 and isinstance(n.targets[0], ast.Name) and n.targets[0].id in self.local_lists:
            L = M.fresh('list_new')
            return [('next', st.assume(z3.And(M.inst(L, self.uni.const(list)), M.len_(L) == 0)).set(n.targets[0].id, VObj(L)), None)]
        for s, v in self.eval(n.value, st):
            try:
                for tgt in n.targets:
                    s = self.assign(s, tgt, v)
            except _AllRaised: continue
            outs.append(('next', s, None))
        return outs
    def s_AugAssign(self, n, st):
        load = ast.Name(id=n.target.id, ctx=ast.Load()) if isinstance(n.target, ast.Name) else (ast.Attribute(value=n.target.value, attr=n.target.attr, ctx=ast.Load()) if isinstance(n.target, ast.Attribute) else None)
        if load is None: raise Unsupported('augmented assignment target')
        outs = []
        for s, l in self.eval(load, st):
            for s2, r in self.eval(n.value, s):
                if isinstance(n.op, ast.Add): v = VInt(self.as_int(l) + self.as_int(r))
                elif isinstance(n.op, ast.Sub): v = VInt(self.as_int(l) - self.as_int(r))
                elif isinstance(n.op, ast.BitOr):
                    if isinstance(l, VObj) and isinstance(r, VObj) and not self.bool_fields_hint(n): v = VObj(z3.Function('bitor', Obj, Obj, Obj)(l.t, r.t))     # set / frozenset union
                    else: v = VBool(z3.Or(self.truth(l), self.truth(r)))
                elif isinstance(n.op, ast.BitAnd): v = VBool(z3.And(self.truth(l), self.truth(r)))
                else: raise Unsupported('augmented operator ' + type(n.op).__name__)
                outs.append(('next', self.assign(s2, n.target, v), None))
        return outs
    def bool_fields_hint(self, n): return False
    def s_AnnAssign(self, n, st):
        if n.value is None: return [('next', st, None)]
        return [('next', self.assign(s, n.target, v), None) for s, v in self.eval(n.value, st)]
    def assign(self, s, tgt, v):
        if isinstance(tgt, ast.Name): return s.set(tgt.id, v)
        if isinstance(tgt, ast.Tuple) and isinstance(v, VTup) and len(tgt.elts) == len(v.items):
            for t, x in zip(tgt.elts, v.items): s = self.assign(s, t, x)
            return s
        if isinstance(tgt, ast.Subscript) and isinstance(tgt.slice, ast.Slice):
            # slice assignment into a list object: recorded as an event (lo, hi, value); the list itself is not modelled further
            r = self.eval(tgt.value, s)
            if len(r) != 1: raise Unsupported('slice target forks')
            s, b = r[0]; sl = tgt.slice; bounds = []
            for part in (sl.lower, sl.upper):
                if part is None: bounds.append(None); continue
                rr = self.eval(part, s)
                if len(rr) != 1: raise Unsupported('slice bound forks')
                s, pv = rr[0]; bounds.append(self.as_int(pv))
            return s.ev('slice_assign', self.obj(b), bounds[0], bounds[1], v).eff('setitem', self.obj(b), 'slice')
        if isinstance(tgt, ast.Subscript):
            r = self.eval_list([tgt.value, tgt.slice], s)
            if len(r) != 1: raise Unsupported('subscript target forks')
            s, (b, k) = r[0]
            return self.setitem(s, b, k, v, ast.unparse(tgt)[:60])
        if isinstance(tgt, ast.Attribute):
            r = self.eval(tgt.value, s)
            if len(r) != 1: raise Unsupported('attribute target forks')
            s, b = r[0]
            return self.setattr_(s, b, tgt.attr, v)
        raise Unsupported('assignment target ' + ast.unparse(tgt)[:60])
    # ---- heap: local dicts, field arrays, ghost tables
    _rid = [0]
    def new_dict(self, s, items):
        self._rid[0] += 1; rid = self._rid[0]
        return s.hset(('dict', rid), tuple(items)), VDictRef(rid)
    def setitem(self, s, b, k, v, where=''):
        if isinstance(b, VDictRef):
            if not (isinstance(k, VPy) and isinstance(k.o, str)): raise Unsupported('non-constant key into a local dict: ' + where)
            cur = dict(s.hget(('dict', b.rid), ())); cur[k.o] = v
            return s.hset(('dict', b.rid), tuple(cur.items()))
        if isinstance(b, VGhostMap):
            hs = self.ghost_hashable(s, k)
            if not hs: raise _AllRaised()
            s = hs[0]
            stores = s.hget(('ghost', b.name), ())
            return s.hset(('ghost', b.name), stores + ((self.keycls(k), v),)).ev('ghost_store', b.name, self.keycls(k), v, k)
        if isinstance(b, VObj):
            return s.eff('setitem', b.t, (self.obj(k), self.obj(v)))
        raise Unsupported('item assignment on ' + type(b).__name__ + ': ' + where)
    def keycls(self, k):
        if isinstance(k, VTup): return tuple(M.eqc(self.obj(c)) for c in k.items)
        return (M.eqc(self.obj(k)),)
    def ghost_base(self, name, arity):
        has = z3.Function(f'{name}_has{arity}', *([Obj] * arity), z3.BoolSort()); get = z3.Function(f'{name}_get{arity}', *([Obj] * arity), Obj)
        return has, get
    def ghost_hashable(self, s, k):
        """dict operations raise TypeError for an unhashable key: -> states in which the key is hashable (the raising branch is queued)"""
        if not self.ghost_unhashable or isinstance(k, VTup) and all(isinstance(c, (VInt, VPy)) for c in k.items): return [s]
        # a tuple is hashable iff each of its components is
        cond = z3.And(*[M.hashable(self.obj(c)) for c in k.items if not isinstance(c, (VInt,))]) if isinstance(k, VTup) else M.hashable(self.obj(k))
        outs = []
        for s2, h in self.fork(s, cond):
            if h: outs.append(s2)
            else: self.raised.append((s2.ev('unhashable_key'), VExc(TypeError)))
        return outs
    def ghost_lookup(self, s, g, k):
        """-> (present: z3 Bool, value: z3 Obj term)"""
        kc = self.keycls(k); has, get = self.ghost_base(g.name, len(kc))
        present = has(*kc); val = get(*kc)
        for skc, sv in s.hget(('ghost', g.name), ()):
            if len(skc) != len(kc): continue
            same = z3.And(*[a == b for a, b in zip(skc, kc)])
            present = z3.Or(same, present); val = z3.If(same, self.obj(sv), val)
        return present, val
    def field(self, s, name):
        arr = s.hget(('field', name))
        if arr is None: arr = z3.Const(f'H_{name}', z3.ArraySort(Obj, Obj))
        return arr
    def setattr_(self, s, b, name, v):
        if isinstance(b, VObj):
            return s.assume(self.obj(v) != ABSENT).hset(('field', name), z3.Store(self.field(s, name), b.t, self.obj(v))).hset(('fieldlast', name), (b.t, v)).eff('setattr', b.t, name)
        if isinstance(b, VPy) and isinstance(b.o, types.ModuleType):
            return s.hset(('global', b.o.__name__, name), v).ev('global_store', b.o.__name__, name, v)
        raise Unsupported(f'attribute assignment on {type(b).__name__}.{name}')
    def s_With(self, n, st):
        # (1) generator-based context managers defined in the working tree (@contextmanager): their real body is executed -
        #     the part before the yield on entry, the part after it on exit (shape: `pre; yield; post` or `try: pre; yield  finally: post`)
        # (2) locks, catch_warnings(...), warnings_ignored(...): transparent (protocol trusted); `as` names bound to an opaque object
        if len(n.items) == 1 and isinstance(n.items[0].context_expr, ast.Call):
            item = n.items[0]; outs = []
            handled = False
            for s, f in self.eval(item.context_expr.func, st):
                cmf = f.o if isinstance(f, VPy) else None
                gen = getattr(cmf, '__wrapped__', None)
                if gen is None or not isinstance(gen, types.FunctionType) or not self.is_repo_func(gen) or not inspect.isgeneratorfunction(gen): break
                handled = True
                split = self.cm_split(self.func_ast(gen))
                if split is None: raise Unsupported(f'context manager {gen.__name__}: unsupported generator shape')
                pre, post_ok, post_exc = split
                for s1, args in self.eval_list(item.context_expr.args, s):
                    kws = {}
                    s2 = s1
                    for kw in item.context_expr.keywords:
                        r = self.eval(kw.value, s2)
                        if len(r) != 1: raise Unsupported('context manager argument forks')
                        s2, kv = r[0]; kws[kw.arg] = kv
                    sub = Exec(self.uni, dict(gen.__globals__), prune=self.prune, call_model=self.call_model, name=self.name + '>' + gen.__name__)
                    for a_ in ('obls', 'assumptions', 'dropped', 'raised', 'fields_mode', 'method_names', 'ghost_unhashable', 'fstr_eval_calls', 'quantify_allany'): setattr(sub, a_, getattr(self, a_))
                    genv = sub.bind_params(self.func_ast(gen), s2, args, kws, gen)
                    caller_env = s2.env
                    for k1, g1, v1 in sub.exec_block(pre, s2.with_env(tuple(genv.items()))):
                        if k1 != 'next': outs.append((k1, g1.with_env(caller_env), v1)); continue
                        gen_env = g1.env
                        b0 = g1.with_env(caller_env)
                        if item.optional_vars is not None: b0 = self.assign(b0, item.optional_vars, VPy(None))
                        for kb, sb, vb in self.exec_block(n.body, b0):
                            body_env = sb.env
                            if kb == 'raise':
                                if post_exc is None: outs.append((kb, sb, vb)); continue        # the generator is not resumed normally: code after a bare yield is skipped
                                for k2, g2, v2 in sub.exec_block(post_exc, sb.with_env(gen_env)):
                                    outs.append((kb, g2.with_env(body_env), vb) if k2 == 'next' else (k2, g2.with_env(body_env), v2))
                            else:
                                for k2, g2, v2 in sub.exec_block(post_ok, sb.with_env(gen_env)):
                                    outs.append((kb, g2.with_env(body_env), vb) if k2 in ('next', 'return') else (k2, g2.with_env(body_env), v2))
            if handled: return outs
        cur = [st]
        for item in n.items:
            nxt = []
            for s in cur:
                try: rs = self.eval(item.context_expr, s)
                except Unsupported: rs = [(s, VObj(M.fresh('ctx')))]
                for s2, v in rs:
                    nxt.append(self.assign(s2, item.optional_vars, VObj(M.fresh('ctxval'))) if item.optional_vars is not None else s2)
            cur = nxt
        self.dropped.add('with-statement context managers other than repository @contextmanager generators (locks / warning filters): transparent')
        outs = []
        for s in cur: outs += self.exec_block(n.body, s)
        return outs
    @staticmethod
    def cm_split(node):
        body = [b for b in node.body if not (isinstance(b, ast.Expr) and isinstance(b.value, ast.Constant))]
        def is_yield(st_): return isinstance(st_, ast.Expr) and isinstance(st_.value, ast.Yield)
        for idx, st_ in enumerate(body):
            if is_yield(st_): return body[:idx], body[idx + 1:], None
        for idx, st_ in enumerate(body):
            if isinstance(st_, ast.Try) and not st_.handlers and not st_.orelse:
                for j, s2 in enumerate(st_.body):
                    if is_yield(s2): return body[:idx] + st_.body[:j], st_.body[j + 1:] + st_.finalbody + body[idx + 1:], st_.finalbody
        return None
    def s_If(self, n, st):
        outs = []
        for s, c in self.eval(n.test, st):
            for s2, b in self.fork(self.beff(s, c), self.truth(c)):
                outs += self.exec_block(n.body if b else n.orelse, s2)
        return outs
    def s_Assert(self, n, st):
        outs = []
        for s, c in self.eval(n.test, st):
            t = self.truth(c)
            self.obl(s, 'assert', t, ast.unparse(n.test)[:80])
            outs.append(('next', s.assume(t), None))
        return outs
    def s_Import(self, n, st): return [('next', st, None)]
    s_Global = s_Import; s_Nonlocal = s_Import
    def s_ImportFrom(self, n, st):
        # a local import binds the real object of the working tree / stdlib - unless the sidecar put a contract value under that name
        import importlib
        s = st
        for a in n.names:
            nm = a.asname or a.name
            if isinstance(self.scope.get(nm), V): continue
            try: obj = getattr(importlib.import_module(n.module), a.name)
            except Exception: continue
            if nm not in self.scope: s = s.set(nm, VPy(obj))
        return [('next', s, None)]
    # ---- loops: summarisation of `for v in <symbolic iterable>: body` whose iterations carry no state (appendix E)
    def symiter(self, s, v):
        if isinstance(v, VSlice):
            bt = self.obj(v.src); j = M.fresh('j', z3.IntSort()); n = M.len_(bt)
            ok = M.inst(bt, self.uni.const(cabc.Sequence)); self.obl(s, 'defined.slice', ok, 'slice of a sequence'); s = s.assume(ok)
            lo = v.lo if v.lo is not None else z3.IntVal(0)
            if v.hi is not None: raise Unsupported('slice with upper bound in a for loop')
            self.obl(s, 'defined.slice_nonneg', lo >= 0, 'non-negative slice start (negative starts count from the end: not modelled)')
            return SymIter(j, z3.And(lo <= j, j < n), VObj(M.item(bt, j)), True, lo, s.eff('iterate_slice', bt, lo))
        if isinstance(v, VView) and v.kind in ('items', 'keys', 'values'):
            bt = self.obj(v.src); k = M.fresh('k')
            el = {'items': VTup((VObj(k), VObj(M.mget(bt, k)))), 'keys': VObj(k), 'values': VObj(M.mget(bt, k))}[v.kind]
            return SymIter(k, M.mem(bt, k), el, False, None, s.eff('iterate_' + v.kind, bt))
        if isinstance(v, VKeyDiff):
            bt = self.obj(v.src); k = M.fresh('k')
            return SymIter(k, z3.And(M.mem(bt, k), *[k != self.uni.const(e) for e in v.excluded]), VObj(k), False, None, s.eff('iterate_keys', bt))
        if isinstance(v, VClosure) and isinstance(v.node, ast.GeneratorExp):
            g = v.node
            if len(g.generators) != 1 or g.generators[0].ifs or not isinstance(g.generators[0].target, ast.Name): raise Unsupported('generator expression form')
            inner_env = s.with_env(v.env)
            r = self.eval(g.generators[0].iter, inner_env)
            if len(r) != 1: raise Unsupported('generator source forks')
            it = self.symiter(r[0][0], r[0][1])
            s2 = it.st.set(g.generators[0].target.id, it.elem).assume(it.dom)
            r2 = self.eval(g.elt, s2)
            if len(r2) != 1: raise Unsupported('generator element forks')
            s3, ev = r2[0]
            return SymIter(it.var, it.dom, ev, it.ordered, it.lo, s3._r(env=s.env, pc=tuple(c for c in s3.pc if not c.eq(it.dom))))
        if isinstance(v, VEnum):
            if isinstance(v.src, V): raise Unsupported('enumerate() of a slice in a summarised loop (give a loop invariant)')
            bt = v.src; j = M.fresh('j', z3.IntSort())
            ok = M.inst(bt, self.uni.const(cabc.Sequence)); self.obl(s, 'defined.enumerate_sequence', ok, 'enumerate() in a for loop is modelled for sequences only (index j, item j)'); s = s.assume(ok)
            return SymIter(j, z3.And(0 <= j, j < M.len_(bt)), VTup((VInt(j), VObj(M.item(bt, j)))), True, z3.IntVal(0), s._r(cost=s.cost + M.len_(bt), effects=s.effects + (('iterate_all', bt, 'for enumerate'),)))
        if isinstance(v, VObj):
            bt = v.t; k = M.fresh('k')
            ok = M.inst(bt, self.uni.const(cabc.Iterable)); self.obl(s, 'defined.iter', ok, 'for loop over an iterable'); s = s.assume(ok)
            return SymIter(k, M.mem(bt, k), VObj(k), False, None, s._r(cost=s.cost + M.len_(bt), effects=s.effects + (('iterate_all', bt, 'for'),)))
        raise Unsupported(f'for loop over {type(v).__name__}')
    def set_target(self, node):
        """number the loops of the function under contract in source order (sidecar invariants are keyed by loop ordinal)"""
        loops = [x for x in ast.walk(node) if isinstance(x, (ast.For, ast.While))]
        loops.sort(key=lambda x: (x.lineno, x.col_offset))
        self.loop_index = {id(x): i for i, x in enumerate(loops)}
    def for_invariant(self, n, st, lc):
        """`for v in <sequence>` by inductive invariant (inv.init / inv.preserve are obligations; the code after the loop is
        executed from an arbitrary state satisfying the invariant at exit, or from a `break` state)"""
        outs = []
        name = lc.get('name', 'loop')
        for s0, itv in self.eval(n.iter, st):
            # the iteration source: a whole sequence, a slice seq[lo:hi] of one, or enumerate() of either; the loop index i is the ABSOLUTE
            # index into the sequence (lo <= i < hi), the invariant is stated over it
            enum = isinstance(itv, VEnum); src = itv.src if enum else itv
            if enum and not isinstance(src, V): src = VObj(src)
            if isinstance(src, VSlice):
                B = self.obj(src.src); L = M.len_(B); lo = src.lo if src.lo is not None else z3.IntVal(0); hi = src.hi if src.hi is not None else L
                okb = z3.And(0 <= lo, lo <= hi, hi <= L)
                self.obl(s0, 'defined.slice_bounds', okb, 'slice bounds within the sequence (clamping / negative bounds are not modelled)'); s0 = s0.assume(okb)
            elif isinstance(src, VObj): B = src.t; L = M.len_(B); lo = z3.IntVal(0); hi = L
            else: raise Unsupported('invariant loop over ' + type(itv).__name__)
            ok = M.inst(B, self.uni.const(cabc.Sequence)); self.obl(s0, 'defined.iter', ok, 'invariant loop over a sequence'); s0 = s0.assume(ok)
            inv = lc['inv']; vars_ = lc['vars']
            def envof(s): return {v: s.get(v) for v in vars_}
            self.obl(s0, f'inv.init.{name}', inv(self, lo, envof(s0), B, s0), 'loop invariant holds on entry')
            def havoc(s, tag):
                for v in vars_:
                    cur = s.get(v)
                    if isinstance(cur, VBool): s = s.set(v, VBool(M.fresh(f'{v}_{tag}', z3.BoolSort())))
                    elif isinstance(cur, VInt): s = s.set(v, VInt(M.fresh(f'{v}_{tag}', z3.IntSort())))
                    else: s = s.set(v, VObj(M.fresh(f'{v}_{tag}')))
                return s
            i = M.fresh('i', z3.IntSort())
            sb = havoc(s0, 'it'); sb = sb.assume(z3.And(lo <= i, i < hi)).assume(inv(self, i, envof(sb), B, sb))
            sb = self.assign(sb, n.target, VTup((VInt(i - lo), VObj(M.item(B, i)))) if enum else VObj(M.item(B, i)))
            for kind, s2, v in self.exec_block(n.body, sb):
                if kind in ('next', 'continue'):
                    self.obl(s2, f'inv.preserve.{name}', inv(self, i + 1, envof(s2), B, s2), 'loop invariant preserved by one iteration')
                elif kind == 'break':
                    outs.append(('next', s2.ev('loop_break', name, i), None))
                else: outs.append((kind, s2, v))
            se = havoc(s0, 'exit'); se = se.assume(inv(self, hi, envof(se), B, se))
            for tn in [x.id for x in ast.walk(n.target) if isinstance(x, ast.Name)]: se = se.set(tn, VObj(M.fresh('last_' + tn)))
            outs.append(('next', se.ev('loop_exhausted', name), None))
        return outs
    def s_While(self, n, st):
        """only `while True:` under a one-step contract: the body is executed ONCE from an arbitrary state satisfying the contract's
        invariant (variables listed by the contract are havoc'd through its `enter` hook); reaching the end of the body is the
        completion kind `loop_again` (the induction step of a simulation argument)"""
        lc = self.loop_contracts.get(self.loop_index.get(id(n)))
        if lc is None or not (isinstance(n.test, ast.Constant) and n.test.value is True) or n.orelse: raise Unsupported('while loop without a one-step contract')
        s0 = lc['enter'](self, st)
        outs = []
        for kind, s2, v in self.exec_block(n.body, s0):
            if kind in ('next', 'continue'): outs.append(('loop_again', s2, None))
            elif kind == 'break': outs.append(('next', s2, None))
            else: outs.append((kind, s2, v))
        return outs
    def s_For(self, n, st):
        if n.orelse: raise Unsupported('for/else')
        outs = []
        assigned = {x.id for b in n.body for x in ast.walk(b) if isinstance(x, ast.Name) and isinstance(x.ctx, ast.Store)}
        tnames = {x.id for x in ast.walk(n.target) if isinstance(x, ast.Name)}
        lc = self.loop_contracts.get(self.loop_index.get(id(n)))
        if lc is not None: return self.for_invariant(n, st, lc)
        for s0, itv in self.eval(n.iter, st):
            if (isinstance(itv, VPy) and isinstance(itv.o, (tuple, list, frozenset))) or isinstance(itv, VTup):
                # a loop over a constant of the real module: unrolled from the real constant
                elems = [self.wrap(e) for e in itv.o] if isinstance(itv, VPy) else list(itv.items)
                cur = [s0]
                for e in elems:
                    nxt = []
                    for sc in cur:
                        for kind, s2, v in self.exec_block(n.body, self.assign(sc, n.target, e)):
                            if kind in ('next', 'continue'): nxt.append(s2)
                            elif kind == 'break': outs.append(('next', s2, None))
                            else: outs.append((kind, s2, v))
                    cur = nxt
                outs += [('next', sc, None) for sc in cur]
                continue
            it = self.symiter(s0, itv); s = it.st
            base = len(s.pc)
            sb = s
            for a in assigned - tnames: sb = sb.set(a, POISON)
            sb = self.assign(sb, n.target, it.elem).assume(it.dom)
            body = self.exec_block(n.body, sb)
            normal = [o for o in body if o[0] in ('next', 'continue')]
            def delta(o): return [c for c in o[1].pc[base:] if not c.eq(it.dom)]
            N = z3.Or(*[z3.And(*delta(o)) if delta(o) else z3.BoolVal(True) for o in normal]) if normal else z3.BoolVal(False)
            allok = z3.ForAll([it.var], z3.Implies(it.dom, N))
            ex = s.assume(allok)
            for a in assigned | tnames: ex = ex.set(a, VObj(M.fresh('havoc_' + a)))
            outs.append(('next', ex.eff('loop_done'), None))
            for kind, so, v in body:
                if kind in ('next', 'continue'): continue
                if kind == 'break': raise Unsupported('break in a summarised loop')
                if it.ordered:
                    i = M.fresh('i', z3.IntSort())
                    earlier = z3.ForAll([i], z3.Implies(z3.And(it.lo <= i, i < it.var), z3.substitute(N, (it.var, i))))
                    so = so.assume(earlier)
                outs.append((kind, so, v))
        return outs
