# Finding 2: a correct awaited value is rejected when the "Coroutine[...]"
# return hint reaches the return-hint reducer in any form other than a bare
# Coroutine[...] subscription: (a) PEP 563 + explicitly quoted hint,
# (b) binary dunder coroutine method (hint coerced to Union[..., NotImplementedType]).
from __future__ import annotations
import sys
from typing import Any
from collections.abc import Coroutine
from beartype import beartype

def run(coro):
    try:
        coro.send(None)
    except StopIteration as exc:
        return ('returned', exc.value)
    except BaseException as exc:
        return ('raised', type(exc).__name__, str(exc)[:160])

# (a) quoted hint in a module using "from __future__ import annotations".
async def fetch(x: int) -> "Coroutine[Any, Any, int]":
    return x
bear_fetch = beartype(fetch)

# Sanity: the same double-stringification is fine for non-coroutines.
@beartype
def plain(x: int) -> "int":
    return x
assert plain(1) == 1

# (b) coroutine binary dunder method.
class Pipe:
    async def __or__(self, other: object) -> Coroutine[Any, Any, int]:
        return 1
class BearPipe:
    @beartype
    async def __or__(self, other: object) -> Coroutine[Any, Any, int]:
        return 1

rc = 0
for name, a, b in (
    ('quoted+pep563', run(fetch(1)), run(bear_fetch(1))),
    ('binary dunder', run(Pipe() | 0), run(BearPipe() | 0)),
):
    print(name, 'orig:', a)
    print(name, 'bear:', b)
    rc |= a != b
sys.exit(rc)
