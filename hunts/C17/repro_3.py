# With ${BEARTYPE_IS_COLOR} set, an INVALID "is_color" value is accepted
# (non-bool values equal to the variable's value even silently), whereas the
# same value is rejected with BeartypeConfParamException when the variable is
# unset.
import os, sys, warnings
os.environ['BEARTYPE_IS_COLOR'] = 'True'
from beartype import BeartypeConf
from beartype.roar import BeartypeConfParamException

accepted = []
for bad_value in ('banana', [], 1, 1.0):
    with warnings.catch_warnings(record=True) as w:
        warnings.simplefilter('always')
        try:
            conf = BeartypeConf(is_color=bad_value)
            accepted.append(bad_value)
            print(f'env set  : is_color={bad_value!r} accepted -> {conf!r}; warnings={len(w)}')
        except BeartypeConfParamException as e:
            print(f'env set  : is_color={bad_value!r} rejected')

del os.environ['BEARTYPE_IS_COLOR']
for bad_value in ('banana', [], 1, 1.0):
    try:
        BeartypeConf(is_color=bad_value)
        print(f'env unset: is_color={bad_value!r} accepted')
    except BeartypeConfParamException as e:
        print(f'env unset: is_color={bad_value!r} rejected')
sys.exit(1 if accepted else 0)
