# Re-decorating an already decorated class is NOT a no-op: the "is_beartyped"
# memo is written under one attribute name and read under another.
import sys
from beartype import beartype

class C:
    def m(self, x: int) -> int: return x
    @staticmethod
    def sm(x: int) -> int: return x
    @classmethod
    def cm(cls, x: int) -> int: return x
    @property
    def p(self) -> int: return 1

assert beartype(C) is C
snap1 = dict(C.__dict__)

# A member added after the first decoration (must stay untouched if the second
# decoration "returns the class unchanged").
def late(self, x: int) -> int: return x
C.late = late

assert beartype(C) is C
snap2 = dict(C.__dict__)

changed = sorted(k for k in snap1 if snap1[k] is not snap2[k])
print('members replaced by 2nd decoration:', changed)
print('late member wrapped by 2nd decoration:', C.__dict__['late'] is not late)

from beartype._util.cache.utilcacheobjattr import get_type_attr_cached_or_sentinel
print('memo read back:', get_type_attr_cached_or_sentinel(C, 'is_beartyped'))
print('memo actually stored at:', [k for k in vars(snap1['__sizeof__']) if 'CACHE' in k])

bad = bool(changed) or C.__dict__['late'] is not late
sys.exit(1 if bad else 0)
