import sys, traceback, warnings
import beartype
from beartype.roar import BeartypeException, BeartypeWarning
assert beartype.__file__.startswith('/tmp/wt/hunt_C11'), beartype.__file__
BAD = []
def check(label, fn, user_excs=()):
    """Run fn(); flag anything other than a public beartype.roar exception (or an
    explicitly allowed user exception) and any non-beartype warning."""
    with warnings.catch_warnings(record=True) as w:
        warnings.simplefilter('always')
        try:
            fn(); print(f'[ok: no exception]   {label}')
        except user_excs as e:
            print(f'[ok: user exception] {label}: {type(e).__name__}')
        except BeartypeException as e:
            if type(e).__name__.startswith('_'):
                BAD.append(label)
                print(f'[VIOLATION private]  {label}: {type(e).__name__}: {str(e)[:140]!r}')
            else:
                print(f'[ok: beartype exc]   {label}: {type(e).__name__}')
        except BaseException as e:
            BAD.append(label)
            fr = traceback.extract_tb(e.__traceback__)[-1]
            print(f'[VIOLATION]          {label}: {type(e).__name__}: {str(e)[:140]} (raised at {fr.filename}:{fr.lineno})')
    for x in w:
        if not issubclass(x.category, BeartypeWarning):
            BAD.append(label)
            print(f'[VIOLATION warning]  {label}: {x.category.__name__}: {str(x.message)[:120]}')
def finish():
    print(f'{len(BAD)} violation(s)'); sys.exit(1 if BAD else 0)
# ---------------------------------------------------------------------------
# Finding 7: typing_extensions.TypeAliasType (a distinct class from typing.TypeAliasType under
# Python 3.12 with typing_extensions 4.16) leaks AssertionError, or a private beartype exception when subscripted.
import typing as T, typing_extensions as TE
from beartype import beartype
from beartype.door import is_bearable, die_if_unbearable
assert TE.TypeAliasType is not T.TypeAliasType
TV = T.TypeVar('TV')
Alias = TE.TypeAliasType('Alias', int)
AliasG = TE.TypeAliasType('AliasG', list[TV], type_params=(TV,))
check('is_bearable(1, TE.TypeAliasType("Alias", int))', lambda: is_bearable(1, Alias))
check('is_bearable([1], list[Alias])', lambda: is_bearable([1], list[Alias]))
check('is_bearable([1], AliasG[int])', lambda: is_bearable([1], AliasG[int]))
def decorate():
    @beartype
    def f(x: Alias) -> None: pass
check('@beartype def f(x: Alias)', decorate)
finish()
