"""C02 through the dataclass entry point (is_pep557_fields): the closure beartype installs as __setattr__ of a decorated dataclass decides
with the configuration and the field hint of ITS decorator, and stores the value only if that decision accepts it.
Function mode on the real nested function check_pep557_dataclass_field (extracted from the working tree's AST on every run; its free variables -
conf, the field table, the dataclass's own __setattr__ - are symbolic).  The door functions are callees under the contract proved for them
elsewhere (C01-C03): their verdict is a function ACC(obj, hint, conf); violation_*_type options do not change verdicts (C18)."""
import ast, os, traceback, z3

def add(rep, prefix='C02.dataclass_field'):
    from pyvc import model as M, discharge, symx, REPO
    from pyvc.symx import Exec, St, VObj, VPy, VBool, VExc
    import beartype._decor._type._pep.decortypepep557 as mod
    from beartype import BeartypeConf
    from beartype.roar import BeartypeCallHintViolation
    rel = 'beartype/_decor/_type/_pep/decortypepep557.py'
    tree = ast.parse(open(os.path.join(REPO, rel)).read())
    fns = [n for n in ast.walk(tree) if isinstance(n, ast.FunctionDef) and n.name == 'check_pep557_dataclass_field']
    if len(fns) != 1: rep.error(f'{prefix}: {len(fns)} functions named check_pep557_dataclass_field in {rel} (extraction key no longer resolves)'); return
    node = fns[0]
    uni = M.Universe(); uni.const(BeartypeConf); NONE = uni.const(None)
    SELF, NAME, VALUE, CONF, HINT, CONF_NEW, DEFAULT = (z3.Const(n, M.Obj) for n in ('self', 'attr_name', 'attr_value', 'decorator_conf', 'field_hint', 'conf_with_field_violation', 'default_conf'))
    ACC = z3.Function('door_accepts', M.Obj, M.Obj, M.Obj, z3.BoolSort())
    is_field = z3.Bool('name_is_an_annotated_field'); own_setattr = z3.Bool('dataclass_defines_setattr')
    def kwget(kw, a, i, name, default=None):
        kw = dict(kw) if not isinstance(kw, dict) else kw
        return kw.get(name, a[i] if len(a) > i else default)
    def m_table_get(ex, s, f, a, kw, w): return [(s2, VObj(HINT) if yes else a[1]) for s2, yes in ex.fork(s, is_field)]
    def m_is_bearable(ex, s, f, a, kw, w):
        o, h, c = kwget(kw, a, 0, 'obj'), kwget(kw, a, 1, 'hint'), kwget(kw, a, 2, 'conf', VObj(DEFAULT))
        return [(s.ev('is_bearable', ex.obj(o), ex.obj(h), ex.obj(c)), VBool(ACC(ex.obj(o), ex.obj(h), ex.obj(c))))]
    def m_die(ex, s, f, a, kw, w):
        o, h, c = kwget(kw, a, 0, 'obj'), kwget(kw, a, 1, 'hint'), kwget(kw, a, 2, 'conf', VObj(DEFAULT))
        outs = []
        for s2, ok in ex.fork(s, ACC(ex.obj(o), ex.obj(h), ex.obj(c))):
            if ok: outs.append((s2.ev('die_returned'), VPy(None)))
            else: ex.raised.append((s2.ev('violation'), VExc(BeartypeCallHintViolation, ())))
        return outs
    def m_conf_new(ex, s, f, a, kw, w): return [(s.ev('conf_new', kw), VObj(CONF_NEW))]
    def m_fresh(tag): return lambda ex, s, f, a, kw, w: [(s, VObj(M.fresh(tag)))]
    def m_store(tag): return lambda ex, s, f, a, kw, w: [(s.ev('store', tag, tuple(ex.obj(x) for x in a)), VPy(None))]
    import beartype.door as door
    scope = dict(mod.__dict__); scope.update(is_bearable=door.is_bearable, die_if_unbearable=door.die_if_unbearable)      # closure variables of the enclosing decorator (local imports there)
    scope.update(conf=VObj(CONF), field_name_to_hint_get=VPy(m_table_get), datacls=VObj(z3.Const('datacls', M.Obj)))
    cm = {door.is_bearable: m_is_bearable, door.die_if_unbearable: m_die, mod.BeartypeConf: m_conf_new, repr: m_fresh('repr'), 'super.__setattr__': m_store('super'), m_table_get: m_table_get, '.copy': m_fresh('kwargs_copy')}
    for nm in ('get_object_type_name',):
        if hasattr(mod, nm): cm[getattr(mod, nm)] = m_fresh(nm)
    outs_all = []
    for has_own in (False, True):
        sc = dict(scope)
        if has_own:
            own = lambda *a: None
            sc['datacls_setattr'] = VPy(own); cm2 = dict(cm); cm2[own] = m_store('own')
        else:
            sc['datacls_setattr'] = VPy(None); cm2 = dict(cm)
        ex = Exec(uni, sc, call_model=cm2, name='check_pep557_dataclass_field'); ex.fields_mode = True; ex.method_names = {'copy', '__setattr__'}
        try:
            outs = ex.run_function(node, St((), (HINT != uni.const(mod.SENTINEL),)), (VObj(SELF), VObj(NAME), VObj(VALUE)), {}, None)      # no field hint is beartype's private sentinel (trusted, DESIGN 8)
        except symx.Unsupported as e:
            rep.error(f'{prefix}: unsupported: {e}'); return
        outs_all.append((has_own, ex, outs))
    # the configuration rebuilt for the raiser differs from the decorator's only in violation_door_type: same verdicts (C18)
    ax = [z3.ForAll([z3.Const('o_', M.Obj), z3.Const('h_', M.Obj)], ACC(z3.Const('o_', M.Obj), z3.Const('h_', M.Obj), CONF_NEW) == ACC(z3.Const('o_', M.Obj), z3.Const('h_', M.Obj), CONF))]
    pr = discharge.Prover(uni.axioms() + ax); n = 0
    for has_own, ex, outs in outs_all:
        tag0 = 'own_setattr' if has_own else 'inherited_setattr'
        for ob in ex.obls:
            r = pr.prove(list(ob.pc), ob.goal); rep.add(f'{prefix}.{tag0}.{ob.kind}#{ob.name.rsplit(".", 1)[-1]}', r.status, time=r.time, backend=r.backend, where=ob.where)
        for i, (s_, v) in enumerate(outs):
            n += 1; stores = [e for e in s_.events if e[0] == 'store']
            ok_store = len(stores) == 1 and stores[0][1] == ('own' if has_own else 'super') and len(stores[0][2]) >= 2 and stores[0][2][-2].eq(NAME) and stores[0][2][-1].eq(VALUE)
            rep.add(f'{prefix}.{tag0}.post.stores_exactly_the_value_once.path{i}', 'proved' if ok_store else 'refuted', backend='structural', where=f'on normal return the attribute is set once, to the very value passed, through the dataclass\'s own / inherited __setattr__ ({stores})'[:300])
            r = pr.prove(list(s_.pc) + [is_field], ACC(VALUE, HINT, CONF))
            rep.add(f'{prefix}.{tag0}.post.stored_only_if_accepted_under_the_decorators_conf.path{i}', r.status, time=r.time, backend=r.backend, reason=r.reason,
                    where='a value reaches an annotated field only if the door accepts (value, field hint) under the configuration the dataclass was decorated with - not under some other (e.g. the default) configuration')
        for i, (s_, v) in enumerate(ex.raised):
            n += 1
            r = pr.prove(list(s_.pc), z3.And(is_field, z3.Not(ACC(VALUE, HINT, CONF))))
            rep.add(f'{prefix}.{tag0}.post.raises_only_for_a_rejected_value.path{i}', r.status, time=r.time, backend=r.backend, reason=r.reason, where='a violation is raised only for an annotated field whose new value the door rejects under the decorator\'s configuration')
            rep.add(f'{prefix}.{tag0}.post.nothing_stored_on_violation.path{i}', 'proved' if not [e for e in s_.events if e[0] == 'store'] else 'refuted', backend='structural')
    if not n: rep.error(f'{prefix}: no path')
    rep.functions.append(f'{rel}:beartype_pep557_dataclass.<locals>.check_pep557_dataclass_field (mode F; nested function extracted from the AST; free variables symbolic)')
    rep.assumptions.append('dataclass fields: is_bearable / die_if_unbearable are callees with verdict ACC(obj, hint, conf) (their agreement: C03); a configuration differing only in violation_door_type gives the same verdicts (C18)')

FIELD_SRC = """
import sys
from dataclasses import dataclass
from typing import Annotated, Optional
from beartype import beartype, BeartypeConf, FrozenDict
from beartype.vale import Is
from beartype.roar import BeartypeException
bad = []
NonNeg = Annotated[int, Is[lambda x: x >= 0]]
confs = {'stricter override': BeartypeConf(is_pep557_fields=True, hint_overrides=FrozenDict({int: NonNeg})), 'is_random=False': BeartypeConf(is_pep557_fields=True, is_random=False)}
for label, conf in confs.items():
    @beartype(conf=conf)
    @dataclass
    class Account:
        balance: int = 0
        history: Optional[list[int]] = None
    a = Account()
    for field, value in ((('balance', -5),) if 'override' in label else (('history', ['not an int', 2, 3, 4, 5, 6, 7]),)):
        for attempt in range(12):
            try: setattr(a, field, value); bad.append(f'{label}: assignment {field} = {value!r} accepted (attempt {attempt}) although the configuration of the decorator rejects it'); break
            except BeartypeException: pass
    try: a.balance = 7
    except Exception as e: bad.append(f'{label}: conforming assignment raised {type(e).__name__}')
print(bad[:3]); sys.exit(1 if bad else 0)
"""
def bounded(rep, prefix='C02.dataclass_field'):
    import subprocess, sys
    from pyvc import REPO
    env = dict(os.environ); env['PYTHONPATH'] = REPO
    p = subprocess.run([sys.executable, '-c', FIELD_SRC], capture_output=True, text=True, timeout=120, env=env, cwd='/')
    if p.returncode not in (0, 1) or (p.returncode == 1 and not p.stdout.strip().startswith('[')): rep.error(f'{prefix} harness: ' + (p.stdout + p.stderr)[-600:]); return
    if p.returncode == 1:
        rep.add(f'{prefix}.bounded.assignment_checked_under_the_decorators_conf', 'refuted', backend='runtime-contract', bounded=True, where=p.stdout.strip()[-400:], solver_output='bounded run-time contract in a fresh interpreter (not a proof)',
                replay=dict(kind='C02', reproduced=True, detail=p.stdout.strip()[-300:]), replay_script=f"import subprocess\nenv = dict(os.environ); env['PYTHONPATH'] = os.environ.get('VERIF_REPO', {REPO!r})\np = subprocess.run([sys.executable, '-c', {FIELD_SRC!r}], env=env, cwd='/')\nsys.exit(p.returncode)\n")
    rep.bounded.append(dict(kind='dataclass field assignments under configurations stricter than the default (bounded stand-in, NOT counted as proved)', scenarios=2, failing=int(p.returncode == 1)))

def safe(rep):
    try: add(rep)
    except Exception: rep.error('C02 dataclass_field: ' + traceback.format_exc()[-2500:])
    try: bounded(rep)
    except Exception: rep.error('C02 dataclass_field bounded: ' + traceback.format_exc()[-1500:])
