# Annotated assignments to subscripts are never checked by the hook.
import sys; sys.path.insert(0, '/tmp/wt/hunt_C05_scratch')
from _common import *

SRC = '''
settings = {}
def configure():
    settings["port"]: int = "eighty"      # violates its hint
    return "no violation raised"
try:
    result = configure()
except Exception as e:
    result = "raised " + type(e).__name__
'''
BY_HAND = '''
from beartype.door import die_if_unbearable
settings = {}
def configure():
    settings["port"]: int = "eighty"
    die_if_unbearable(settings["port"], int)
    return "no violation raised"
try:
    result = configure()
except Exception as e:
    result = "raised " + type(e).__name__
'''
a, b = import_plain(BY_HAND).result, import_hooked(SRC).result
print('by hand:', a)
print('hooked :', b)
sys.exit(0 if a == b else 1)
