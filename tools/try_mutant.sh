#!/bin/bash
# usage: try_mutant.sh <name> <file> <python-regex-from> <to> <Cxx>...   (scratch worktree; evidence to scratch dir)
NAME=$1; FILE=$2; FROM=$3; TO=$4; shift 4
WT=/tmp/wt/mut_$NAME; OUT=/tmp/wt/mut_$NAME.out; mkdir -p $OUT
git -C /repo worktree remove --force $WT >/dev/null 2>&1
git -C /repo worktree add --detach $WT HEAD >/dev/null 2>&1 || exit 3
python3 - "$WT/$FILE" "$FROM" "$TO" <<'PY'
import sys, re
p, a, b = sys.argv[1:4]; s = open(p).read(); n = s.count(a)
if n == 0: print('PATTERN NOT FOUND'); sys.exit(1)
open(p, 'w').write(s.replace(a, b, 1))
PY
[ $? -eq 0 ] || { git -C /repo worktree remove --force $WT; exit 3; }
( cd $WT && git diff > $OUT/patch.diff )
for P in "$@"; do
  VERIF_REPO=$WT VERIF_EVIDENCE_DIR=$OUT VERIF_REPLAY_DIR=$OUT/replays /verif/check $P --tier ${TIER:-quick} > $OUT/$P.log 2>&1; RC=$?
  echo "mutant=$NAME check=$P exit=$RC violations=$(grep -c '^VIOLATION' $OUT/$P.log) reproduced=$(grep '^VIOLATION' $OUT/$P.log | grep -vc no-failing-input-found)"
  grep -A1 '^VIOLATION' $OUT/$P.log | grep obligation | head -2 | cut -c1-300
  grep "CHECKER-ERROR" $OUT/$P.log | head -2 | cut -c1-300
done
git -C /repo worktree remove --force $WT >/dev/null 2>&1
