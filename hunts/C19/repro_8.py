# Reflexivity / transitivity broken by exceptions.
import sys
from typing import NewType, Protocol, Sequence, TypedDict, runtime_checkable
from beartype.door import is_bearable, is_subhint
bad = 0
def attempt(label, f):
    global bad
    try:
        print(label, '->', f())
    except Exception as e:
        bad = 1
        print(label, 'RAISED', type(e).__name__ + ':', str(e)[:160])
# (a) NewType over a subscripted generic (checked fine by is_bearable).
NL = NewType('NL', list[int])
print('is_bearable([1], NL), is_bearable(["a"], NL):', is_bearable([1], NL), is_bearable(['a'], NL))
attempt('is_subhint(NL, NL)', lambda: is_subhint(NL, NL))
attempt('is_subhint(list[int], list[NL])', lambda: is_subhint(list[int], list[NL]))
# (b) user-defined subclass of list[int] against an indirect ABC superclass.
class IntList(list[int]): pass
print('IntList <= list[int]:', is_subhint(IntList, list[int]), '; list[int] <= Sequence[int]:', is_subhint(list[int], Sequence[int]))
attempt('is_subhint(IntList, Sequence[int])', lambda: is_subhint(IntList, Sequence[int]))
# (c) runtime-checkable protocol with a data member, and TypedDict.
@runtime_checkable
class HasX(Protocol):
    x: int
class TD(TypedDict):
    a: int
attempt('is_subhint(HasX, HasX)', lambda: is_subhint(HasX, HasX))
attempt('is_subhint(TD, TD)', lambda: is_subhint(TD, TD))
sys.exit(bad)
