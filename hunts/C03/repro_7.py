# Finding 7: with a Warning class configured as the (return) violation type, a callable
# annotated "-> NoReturn" that nonetheless returns has its return value silently replaced by None:
# the warning is emitted, but the call does not "proceed" with its real result (all other
# return hints hand back the real value after warning).
import sys, warnings
from typing import NoReturn
import beartype
assert beartype.__file__.startswith('/tmp/wt/hunt_C03'), beartype.__file__
from beartype import beartype as bt, BeartypeConf

class MyWarning(UserWarning): pass
conf = BeartypeConf(violation_return_type=MyWarning)

@bt(conf=conf)
def as_str() -> str:
    return 42
@bt(conf=conf)
def as_noreturn() -> NoReturn:
    return 42

with warnings.catch_warnings(record=True) as w:
    warnings.simplefilter('always')
    r1 = as_str()
    r2 = as_noreturn()
print('warnings:', [x.category.__name__ for x in w])
print('-> str      returned', repr(r1))
print('-> NoReturn returned', repr(r2))
sys.exit(1 if r2 != 42 else 0)
