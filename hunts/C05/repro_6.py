# Functions defined in class bodies are NOT decorated by the hook (only the class
# is), so the hooked module differs from "@beartype on every annotated function":
# violations while the class body runs are missed, as are functions that do not
# end up as plain attributes of the finished class.
import sys, warnings; sys.path.insert(0, '/tmp/wt/hunt_C05_scratch')
from _common import *

BODY = '''
class Shape:
    def _scale(x: int) -> int:            # helper used while the class body runs
        return x
    DEFAULT = _scale("not an int")        # <-- first offending statement

    handlers = {}
    def on_click(pos: int) -> int:
        return pos
    handlers['click'] = on_click          # kept in a table ...
    del on_click                          # ... and removed from the namespace

def singleton(cls):
    return cls()
@singleton
class config:
    def get(self, key: str) -> str:
        return key
'''
# The reference semantics from the property: @beartype written by hand on every
# annotated function and every class.
BY_HAND = 'from beartype import beartype\n' + BODY.replace(
    '    def ', '    @beartype\n    def ').replace('class Shape', '@beartype\nclass Shape')

def probe(label, importer, src):
    out = []
    with warnings.catch_warnings():
        warnings.simplefilter('ignore')
        try:
            m = importer(src)
        except Exception as e:
            return [f'import raised {type(e).__name__}']
    out.append('import ok (class-body call _scale("not an int") went unchecked)')
    for what, call in (('handlers["click"]("x")', lambda: m.Shape.handlers['click']('x')),
                       ('config.get(5)', lambda: m.config.get(5))):
        try:
            call(); out.append(what + ' unchecked')
        except Exception as e:
            out.append(what + ' raised ' + type(e).__name__)
    return out

by_hand = probe('by hand', import_plain, BY_HAND)
hooked = probe('hooked', import_hooked, BODY)
print('by hand:', by_hand)
print('hooked :', hooked)
# Second reference: by hand with the first offender removed, to compare the rest.
BY_HAND2 = BY_HAND.replace('_scale("not an int")', '_scale(1)')
BODY2 = BODY.replace('_scale("not an int")', '_scale(1)')
by_hand2 = probe('by hand', import_plain, BY_HAND2)
hooked2 = probe('hooked', import_hooked, BODY2)
print('by hand (first offender fixed):', by_hand2[1:])
print('hooked  (first offender fixed):', hooked2[1:])
sys.exit(0 if (by_hand == hooked and by_hand2 == hooked2) else 1)
