import sys, traceback, warnings
import beartype
from beartype.roar import BeartypeException, BeartypeWarning
assert beartype.__file__.startswith('/tmp/wt/hunt_C11'), beartype.__file__
BAD = []
def check(label, fn, user_excs=()):
    """Run fn(); flag anything other than a public beartype.roar exception (or an
    explicitly allowed user exception) and any non-beartype warning."""
    with warnings.catch_warnings(record=True) as w:
        warnings.simplefilter('always')
        try:
            fn(); print(f'[ok: no exception]   {label}')
        except user_excs as e:
            print(f'[ok: user exception] {label}: {type(e).__name__}')
        except BeartypeException as e:
            if type(e).__name__.startswith('_'):
                BAD.append(label)
                print(f'[VIOLATION private]  {label}: {type(e).__name__}: {str(e)[:140]!r}')
            else:
                print(f'[ok: beartype exc]   {label}: {type(e).__name__}')
        except BaseException as e:
            BAD.append(label)
            fr = traceback.extract_tb(e.__traceback__)[-1]
            print(f'[VIOLATION]          {label}: {type(e).__name__}: {str(e)[:140]} (raised at {fr.filename}:{fr.lineno})')
    for x in w:
        if not issubclass(x.category, BeartypeWarning):
            BAD.append(label)
            print(f'[VIOLATION warning]  {label}: {x.category.__name__}: {str(x.message)[:120]}')
def finish():
    print(f'{len(BAD)} violation(s)'); sys.exit(1 if BAD else 0)
# ---------------------------------------------------------------------------
# Finding 12: a warning object carrying zero arguments, emitted by user code that beartype runs
# while sanifying a hint (here: the lazily evaluated value of a PEP 695 alias), makes @beartype
# die with a bare AssertionError from reissue_warnings_placeholder().
import warnings
from beartype import beartype
def legacy_int():
    warnings.warn(DeprecationWarning())      # legal: a Warning instance without a message
    return int
exec('type Old = legacy_int()')
def decorate():
    @beartype
    def f(x: Old) -> None: pass
    f(1)
check('@beartype def f(x: Old)', decorate)
finish()
