# staticmethod(SomeClass) / classmethod(SomeClass) class attributes cause an
# *external*, non-nested class to be decorated (mutated) in place.
import sys
from beartype import beartype

class External:                      # NOT nested in A, never passed to beartype
    def m(self, x: int) -> int: return x

orig = External.__dict__['m']

@beartype
class A:
    factory = staticmethod(External)     # common "do not bind" idiom
    def g(self, y: int) -> int: return y

print('External.m replaced:', External.__dict__['m'] is not orig)
print('External gained:', [k for k in External.__dict__ if k == '__sizeof__'])
try:
    External().m('not an int'); checked = False
except Exception as e:
    checked = True; print('External().m("...") now raises', type(e).__name__)
sys.exit(1 if (checked or External.__dict__['m'] is not orig) else 0)
