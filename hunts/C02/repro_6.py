# PEP 695 type aliases: (a) a NON-recursive parametrised alias nested inside
# itself and (b) a recursive alias beyond its first expansion are not checked
# below the first level, so objects whose every item / fixed-tuple position
# violates are always accepted. (Same TypeVar recursion guard as the already
# known GL[GL[X]] generic case, but reached through PEP 695 aliases.)
from beartype.door import is_bearable
type L[T] = list[T]
type D[T] = dict[str, T]
type Pair[A, B] = tuple[A, B]
type Tree = list[Tree] | int
bad = 0
for label, obj, hint in [
    ("L[L[int]]                <- [['a']]",         [['a']],           L[L[int]]),
    ("D[D[int]]                <- {'a': {'b': 'x'}}", {'a': {'b': 'x'}}, D[D[int]]),
    ("Pair[int, Pair[int,int]] <- (1, (2, 'x'))",   (1, (2, 'x')),     Pair[int, Pair[int, int]]),
    ("Tree                     <- [['a']]",         [['a']],           Tree),
    ("list[list[int]] control  <- [['a']]",         [['a']],           list[list[int]]),
]:
    got = {is_bearable(obj, hint) for _ in range(50)}
    print(f'{label:50} accepted: {sorted(got)}')
    bad += (got != {False})
raise SystemExit(1 if bad else 0)
