# hint_overrides={None: int}: "None" written at the root or as a plain child is
# replaced, "None" written inside a union / Optional is not (typing has already
# turned it into NoneType there); conversely {NoneType: int} also rewrites a
# literal "None" the user never spelled as NoneType.
import sys
from typing import Optional
from beartype import BeartypeConf, FrozenDict
from beartype.door import is_bearable
c_none = BeartypeConf(hint_overrides=FrozenDict({None: int}))
bad = 0
def row(label, got, hand):
    global bad
    bad += got != hand
    print(f'{label:52} conf={got!s:6} hand-rewritten={hand!s:6}' + ('' if got == hand else '  <-- differs'))
row('{None: int}  1    vs None',             is_bearable(1, None, conf=c_none),             is_bearable(1, int))
row('{None: int}  [1]  vs list[None]',       is_bearable([1], list[None], conf=c_none),     is_bearable([1], list[int]))
row('{None: int}  1    vs str | None',       is_bearable(1, str | None, conf=c_none),       is_bearable(1, str | int))
row('{None: int}  None vs str | None',       is_bearable(None, str | None, conf=c_none),    is_bearable(None, str | int))
row('{None: int}  1    vs Optional[str]',    is_bearable(1, Optional[str], conf=c_none),    is_bearable(1, str | int))
row('{None: int}  {"a": 1} vs dict[str, bytes | None]', is_bearable({'a': 1}, dict[str, bytes | None], conf=c_none), is_bearable({'a': 1}, dict[str, bytes | int]))
sys.exit(1 if bad else 0)
