#!/bin/bash
# usage: try_seed.sh <seed name under /verif/seeded> <Cxx> [<Cxx>...]   - run checks against a scratch copy of /repo HEAD + the seeded patch
# (scratch worktree outside /repo and /verif; evidence and replays of these runs go to a scratch dir, never to /verif/evidence)
NAME=$1; shift
PATCH=/verif/seeded/$NAME/patch.diff
if [ -f "$NAME" ]; then PATCH=$NAME; NAME=$(basename $(dirname $(dirname $PATCH)))_cand; fi   # also accepts a path <dir>/SEED/patch.diff
WT=/tmp/wt/try_$NAME; OUT=/tmp/wt/try_$NAME.out; mkdir -p $OUT
git -C /repo worktree remove --force $WT >/dev/null 2>&1
git -C /repo worktree add --detach $WT HEAD >/dev/null 2>&1 || exit 3
( cd $WT && git apply $PATCH ) || { echo "patch does not apply"; git -C /repo worktree remove --force $WT; exit 3; }
for P in "$@"; do
  VERIF_REPO=$WT VERIF_EVIDENCE_DIR=$OUT VERIF_REPLAY_DIR=$OUT/replays /verif/check $P --tier ${TIER:-quick} > $OUT/$P.log 2>&1; RC=$?
  echo "seed=$NAME check=$P exit=$RC violations=$(grep -c '^VIOLATION' $OUT/$P.log) reproduced=$(grep '^VIOLATION' $OUT/$P.log | grep -vc no-failing-input-found)"
  grep -A1 '^VIOLATION' $OUT/$P.log | grep obligation | head -3 | cut -c1-260
  tail -1 $OUT/$P.log | cut -c1-200
done
git -C /repo worktree remove --force $WT >/dev/null 2>&1
