# Finding 6: tuple[()] (and Tuple[()]) checks emptiness with truthiness ("not pith") in the
# generated code but with len() in the violation explainer => desynchronisation error for an
# empty tuple subclass that is truthy (e.g. a field-less namedtuple defining __bool__).
import sys
from collections import namedtuple
import beartype
assert beartype.__file__.startswith('/tmp/wt/hunt_C03'), beartype.__file__
from beartype import beartype as bt
from beartype.door import is_bearable, die_if_unbearable
from beartype.roar import BeartypeDoorHintViolation, BeartypeCallHintParamViolation

class Unit(namedtuple('Unit', [])):
    '''Empty record type that is nonetheless "truthy".'''
    def __bool__(self): return True

unit = Unit()
assert len(unit) == 0 and isinstance(unit, tuple)

@bt
def f(x: tuple[()]): pass

print('is_bearable ->', is_bearable(unit, tuple[()]))   # False, i.e. rejected
bad = 0
for label, call, exp in (
    ('die_if_unbearable', lambda: die_if_unbearable(unit, tuple[()]), BeartypeDoorHintViolation),
    ('@beartype param  ', lambda: f(unit), BeartypeCallHintParamViolation),
):
    try:
        call()
        print(label, 'accepted')
    except exp:
        print(label, 'OK violation')
    except Exception as e:
        bad += 1
        print(label, 'BUG:', type(e).__name__, str(e)[:160])
sys.exit(1 if bad else 0)
