# Callables whose __name__ is not a valid identifier cannot be decorated:
# @beartype interpolates func.__name__ verbatim into generated source.
import sys
from beartype import beartype
bad = False
f = lambda x: x
f.__annotations__ = {'x': int, 'return': int}
def g(x: int) -> int: return x
g.__name__ = 'get-item'          # e.g. renamed by a registry/CLI decorator
def h(x: int) -> int: return x
h.__name__ = 'class'
def i(x: int) -> int: return x
i.__name__ = '__beartype_func'
for fn in (f, g, h, i):
    try:
        w = beartype(fn); assert w(1) == 1 and w.__name__ == fn.__name__
        print(repr(fn.__name__), 'ok')
    except Exception as e:
        print(repr(fn.__name__), '->', type(e).__name__, str(e).splitlines()[0][:110]); bad = True
sys.exit(1 if bad else 0)
