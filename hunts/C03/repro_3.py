# Finding 3: a configured Warning class whose constructor follows beartype's own violation signature
# "(message, culprits)" -- the signature beartype tries *first* when building the violation -- is not
# emitted as a warning: the generated code re-instantiates it via warn(str(violation), type(violation)),
# i.e. with a message only, so every rejection raises TypeError instead of warning and proceeding.
import sys, warnings
import beartype
assert beartype.__file__.startswith('/tmp/wt/hunt_C03'), beartype.__file__
from beartype import beartype as bt, BeartypeConf
from beartype.door import die_if_unbearable
from beartype.roar import BeartypeDoorHintViolation

class CulpritWarning(UserWarning):
    def __init__(self, message, culprits):
        super().__init__(message)
        self.culprits = culprits

class ViolationWarning(BeartypeDoorHintViolation, UserWarning):
    '''A beartype violation that is merely warned about.'''

bad = 0
for cls in (CulpritWarning, ViolationWarning):
    conf = BeartypeConf(violation_type=cls)
    @bt(conf=conf)
    def f(x: int) -> str:
        return x
    for label, call in (
        ('@beartype param  ', lambda: f('a')),
        ('@beartype return ', lambda: f(1)),
        ('die_if_unbearable', lambda: die_if_unbearable('a', int, conf=conf)),
    ):
        with warnings.catch_warnings(record=True) as caught:
            warnings.simplefilter('always')
            try:
                result = call()
                print(cls.__name__, label, 'proceeded ->', repr(result), [w.category.__name__ for w in caught])
            except Exception as e:
                bad += 1
                print(cls.__name__, label, 'BUG:', type(e).__name__, e)
sys.exit(1 if bad else 0)
