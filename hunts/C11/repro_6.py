import sys, traceback, warnings
import beartype
from beartype.roar import BeartypeException, BeartypeWarning
assert beartype.__file__.startswith('/tmp/wt/hunt_C11'), beartype.__file__
BAD = []
def check(label, fn, user_excs=()):
    """Run fn(); flag anything other than a public beartype.roar exception (or an
    explicitly allowed user exception) and any non-beartype warning."""
    with warnings.catch_warnings(record=True) as w:
        warnings.simplefilter('always')
        try:
            fn(); print(f'[ok: no exception]   {label}')
        except user_excs as e:
            print(f'[ok: user exception] {label}: {type(e).__name__}')
        except BeartypeException as e:
            if type(e).__name__.startswith('_'):
                BAD.append(label)
                print(f'[VIOLATION private]  {label}: {type(e).__name__}: {str(e)[:140]!r}')
            else:
                print(f'[ok: beartype exc]   {label}: {type(e).__name__}')
        except BaseException as e:
            BAD.append(label)
            fr = traceback.extract_tb(e.__traceback__)[-1]
            print(f'[VIOLATION]          {label}: {type(e).__name__}: {str(e)[:140]} (raised at {fr.filename}:{fr.lineno})')
    for x in w:
        if not issubclass(x.category, BeartypeWarning):
            BAD.append(label)
            print(f'[VIOLATION warning]  {label}: {x.category.__name__}: {str(x.message)[:120]}')
def finish():
    print(f'{len(BAD)} violation(s)'); sys.exit(1 if BAD else 0)
# ---------------------------------------------------------------------------
# Finding 6: beartype.door.is_subhint() / TypeHint comparisons leak the TypeError raised by
# issubclass() for perfectly valid hints whose origin is not issubclass()-able.
import typing as T
from beartype.door import is_subhint, TypeHint
class TD(T.TypedDict):
    a: int
class Proto(T.Protocol):                      # deliberately not @runtime_checkable
    def f(self) -> int: ...
UserIds = T.NewType('UserIds', list[int])
check('is_subhint(int, TD)', lambda: is_subhint(int, TD))
check('is_subhint(TD, TD)', lambda: is_subhint(TD, TD))
check('is_subhint(list[int], TD)', lambda: is_subhint(list[int], TD))
check('is_subhint(int, Proto)', lambda: is_subhint(int, Proto))
check('is_subhint(Proto, Proto)', lambda: is_subhint(Proto, Proto))
check('TypeHint(list[TD]) <= TypeHint(list[TD])', lambda: TypeHint(list[TD]) <= TypeHint(list[TD]))
check('is_subhint(int, NewType("UserIds", list[int]))', lambda: is_subhint(int, UserIds))
check('is_subhint(UserIds, typing.Sized)', lambda: is_subhint(UserIds, T.Sized))
finish()
