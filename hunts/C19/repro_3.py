# A class that is falsy (metaclass defines __len__ or __bool__) gets `_origin = object`,
# so every class is a subhint of it.
import sys
from beartype.door import is_bearable, is_subhint, TypeHint
class RegistryMeta(type):
    def __len__(cls): return len(cls.registry)
class Registry(metaclass=RegistryMeta):
    registry = []
print('bool(Registry) =', bool(Registry), '; TypeHint(Registry)._origin =', TypeHint(Registry)._origin)
bad = 0
for A, B, obj in ((int, Registry, 1), (list[int], list[Registry], [1])):
    sub, a, b = is_subhint(A, B), is_bearable(obj, A), is_bearable(obj, B)
    print(f'is_subhint({A}, {B}) = {sub}; {obj!r} satisfies sub: {a}; satisfies super: {b}')
    bad |= (sub and a and not b)
sys.exit(1 if bad else 0)
