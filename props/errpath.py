"""Function-mode obligations on the error (explanation) path helpers shared by C03 and C09: the finder inspects the SAME
item as the fast path and, under the default constant-time strategy, reads exactly one item whatever the container's size."""
import z3, traceback

def add_enumerators(rep, prefix):
    from pyvc import funcmode, model as M, symx, discharge
    from pyvc.symx import Exec, St, VObj, VPy, VTup, VIter, VInt
    import collections.abc as cabc
    import beartype._check.cls.logic.logcls as mod
    from beartype import BeartypeStrategy
    uni = M.Universe()
    for c in (cabc.Sized, cabc.Collection, cabc.Sequence, cabc.Iterable, cabc.Mapping): uni.const(c)
    CAUSE = z3.Const('cause', M.Obj); SELF = z3.Const('self', M.Obj)
    def F(name): return z3.Const(f'H_{name}', z3.ArraySort(M.Obj, M.Obj))
    PITH = z3.Select(F('pith'), CAUSE); CONF = z3.Select(F('conf'), CAUSE); RINT = z3.Select(F('random_int'), CAUSE)
    ISRANDOM = z3.Select(F('is_random'), CONF); STRAT = z3.Select(F('strategy'), CONF)
    axioms = uni.axioms()
    def run(name, qual, extra_cm=None, args=None, pre=()):
        fobj, node, _ = funcmode.load('beartype/_check/cls/logic/logcls.py', qual)
        ex = Exec(uni, dict(mod.__dict__), call_model=extra_cm or {}, name=name); ex.fields_mode = True; ex.method_names = set()
        outs = ex.run_function(node, St((), tuple(pre)), args or (VObj(CAUSE),), {}, fobj)
        pr = discharge.Prover(axioms)
        for ob in ex.obls:
            r = pr.prove(list(ob.pc), ob.goal); rep.add(f'{prefix}.{name}.{ob.kind}#{ob.name.rsplit(".", 1)[-1]}', r.status, time=r.time, backend=r.backend, where=ob.where)
        return ex, outs, pr
    # ---- _get_cause_enumerator_item_sequence: (sigma, pith[sigma]) with sigma = random_int mod len if is_random else 0; ONE item read
    pre = [M.inst(PITH, uni.const(cabc.Sequence)), M.len_(PITH) > 0, z3.Implies(M.truthy(ISRANDOM), z3.And(RINT != uni.const(None), M.unbox_int(RINT) >= 0))]
    ex, outs, pr = run('get_cause_enumerator_item_sequence', '_get_cause_enumerator_item_sequence', pre=pre)
    sigma = z3.If(M.truthy(ISRANDOM), M.unbox_int(RINT) % M.len_(PITH), 0)
    for i, (s, v) in enumerate(outs):
        ok = isinstance(v, VTup) and len(v.items) == 2
        if not ok: rep.add(f'{prefix}.get_cause_enumerator_item_sequence.post.shape.path{i}', 'refuted', backend='structural', where=f'returns {v}'); continue
        r = pr.prove(list(s.pc), z3.And(ex.as_int(v.items[0]) == sigma, ex.obj(v.items[1]) == M.item(PITH, sigma)))
        rep.add(f'{prefix}.get_cause_enumerator_item_sequence.post.same_item.path{i}', r.status, time=r.time, backend=r.backend, where='index = random_int mod len under is_random, 0 otherwise: the item the fast path samples')
        r = pr.prove(list(s.pc), (s.cost if not isinstance(s.cost, int) else z3.IntVal(s.cost)) <= 1)
        rep.add(f'{prefix}.get_cause_enumerator_item_sequence.cost.path{i}', r.status, time=r.time, backend=r.backend, where='one item read, any length')
    # ---- _get_cause_enumerator_item_reiterable: (0, first(pith)); ONE item read
    pre = [M.inst(PITH, uni.const(cabc.Collection)), M.len_(PITH) > 0]
    ex, outs, pr = run('get_cause_enumerator_item_reiterable', '_get_cause_enumerator_item_reiterable', pre=pre)
    for i, (s, v) in enumerate(outs):
        ok = isinstance(v, VTup) and len(v.items) == 2
        if not ok: rep.add(f'{prefix}.get_cause_enumerator_item_reiterable.post.shape.path{i}', 'refuted', backend='structural', where=f'returns {v}'); continue
        r = pr.prove(list(s.pc), z3.And(ex.as_int(v.items[0]) == 0, ex.obj(v.items[1]) == M.first(PITH)))
        rep.add(f'{prefix}.get_cause_enumerator_item_reiterable.post.first_item.path{i}', r.status, time=r.time, backend=r.backend, where='the first yielded item: the item the fast path inspects')
        r = pr.prove(list(s.pc), (s.cost if not isinstance(s.cost, int) else z3.IntVal(s.cost)) <= 1)
        rep.add(f'{prefix}.get_cause_enumerator_item_reiterable.cost.path{i}', r.status, time=r.time, backend=r.backend, where='one item read, any size')
    # ---- whichever getter each registered logic object was CONSTRUCTED with selects the item its generated fast path inspects
    #      (anchored on the registry, not on helper names: a sequence hint samples index sigma, a reiterable hint the first item, a
    #      quasi-iterable hint index sigma of a Sequence pith and the first item of any other Collection)
    import beartype._check.cls.logic.logmap as lmap
    from beartype._data.hint.sign.datahintsigns import HintSignList, HintSignSet, HintSignIterable
    sigma_all = z3.If(M.truthy(ISRANDOM), M.unbox_int(RINT) % M.len_(PITH), 0)
    basepre = [M.len_(PITH) > 0, z3.Implies(M.truthy(ISRANDOM), z3.And(RINT != uni.const(None), M.unbox_int(RINT) >= 0))]
    for kindname, sign, pre_k, spec_k in (
            ('sequence', HintSignList, [M.inst(PITH, uni.const(cabc.Sequence))], lambda: (sigma_all, M.item(PITH, sigma_all))),
            ('reiterable', HintSignSet, [M.inst(PITH, uni.const(cabc.Collection))], lambda: (z3.IntVal(0), M.first(PITH))),
            ('quasiiterable', HintSignIterable, [M.inst(PITH, uni.const(cabc.Collection))],
             lambda: (z3.If(M.inst(PITH, uni.const(cabc.Sequence)), sigma_all, 0), z3.If(M.inst(PITH, uni.const(cabc.Sequence)), M.item(PITH, sigma_all), M.first(PITH))))):
        logic = lmap.HINT_SIGN_PEP484585_CONTAINER_TO_LOGIC.get(sign)
        getter = getattr(logic, '_get_cause_enumerator_item', None)
        if getter is None: rep.error(f'{prefix}.registry.{kindname}: no logic object / getter registered for {sign}'); continue
        exg = Exec(uni, dict(mod.__dict__), call_model={}, name='registry_' + kindname); exg.fields_mode = True; exg.method_names = set()
        gnode = exg.func_ast(getter)
        outs_g = exg.run_function(gnode, St((), tuple(basepre + pre_k)), (VObj(CAUSE),), {}, getter)
        prg = discharge.Prover(axioms)
        for ob in exg.obls:
            if ob.kind == 'assert': continue       # internal asserts of the helpers are covered by the helper-level obligations below
            r = prg.prove(list(ob.pc), ob.goal); rep.add(f'{prefix}.registry.{kindname}.{ob.kind}#{ob.name.rsplit(".", 1)[-1]}', r.status, time=r.time, backend=r.backend, where=ob.where)
        widx, witem = spec_k()
        if not outs_g: rep.error(f'{prefix}.registry.{kindname}: no returning path')
        for i, (s_, v_) in enumerate(outs_g):
            ok = isinstance(v_, VTup) and len(v_.items) == 2
            r = prg.prove(list(s_.pc), z3.And(exg.as_int(v_.items[0]) == widx, exg.obj(v_.items[1]) == witem)) if ok else None
            rep.add(f'{prefix}.registry.{kindname}.post.same_item_as_fast_path.path{i}', r.status if r else 'refuted', time=r.time if r else 0, backend=r.backend if r else 'structural',
                    where=f'the error-path item getter registered for {kindname} hints ({getattr(getter, "__name__", getter)}) returns the item the generated check inspects: otherwise no cause is found and an internal desynchronisation error escapes')
    # ---- _get_cause_enumerator_item_collection: dispatch on Sequence (callee contracts)
    if not hasattr(mod, '_get_cause_enumerator_item_collection'):
        rep.extra['errpath_note'] = 'helper _get_cause_enumerator_item_collection no longer exists: covered by the registry-anchored obligations only'
        return _enumerate_cause_items(rep, prefix, uni, axioms, mod, SELF, CAUSE, STRAT)
    SEQRES = VTup((VInt(z3.Int('seq_idx')), VObj(z3.Const('seq_item', M.Obj)))); REIRES = VTup((VInt(z3.Int('rei_idx')), VObj(z3.Const('rei_item', M.Obj))))
    def m_seq(ex_, s, f, a, kw, where): return [(s.ev('callee', 'sequence'), SEQRES)]
    def m_rei(ex_, s, f, a, kw, where): return [(s.ev('callee', 'reiterable'), REIRES)]
    pre = [M.inst(PITH, uni.const(cabc.Collection))]
    ex, outs, pr = run('get_cause_enumerator_item_collection', '_get_cause_enumerator_item_collection', extra_cm={mod._get_cause_enumerator_item_sequence: m_seq, mod._get_cause_enumerator_item_reiterable: m_rei}, pre=pre)
    for i, (s, v) in enumerate(outs):
        which = [e[1] for e in s.events if e[0] == 'callee']
        r = pr.prove(list(s.pc), M.inst(PITH, uni.const(cabc.Sequence)) == z3.BoolVal(which == ['sequence']))
        rep.add(f'{prefix}.get_cause_enumerator_item_collection.post.dispatch.path{i}', r.status, time=r.time, backend=r.backend, where='a Sequence pith by index, any other Collection by its first item - the same split as the quasi-iterable template')
        rep.add(f'{prefix}.get_cause_enumerator_item_collection.post.returns_callee_result.path{i}', 'proved' if (len(which) == 1 and v is (SEQRES if which[0] == 'sequence' else REIRES)) else 'refuted', backend='structural')
    return _enumerate_cause_items(rep, prefix, uni, axioms, mod, SELF, CAUSE, STRAT)

def _enumerate_cause_items(rep, prefix, uni, axioms, mod, SELF, CAUSE, STRAT):
    from pyvc import funcmode, model as M, symx, discharge
    from pyvc.symx import Exec, St, VObj, VPy, VTup, VIter, VInt
    from beartype import BeartypeStrategy
    # ---- HintLogicABC.enumerate_cause_items: under O1 exactly ONE pair (the callee's), never enumerate(pith)
    ITEM = VObj(z3.Const('enumerator_item', M.Obj))
    def m_item(ex_, s, f, a, kw, where): return [(s.ev('callee', 'item'), ITEM)]
    fobj, node, _ = funcmode.load('beartype/_check/cls/logic/logcls.py', 'HintLogicABC.enumerate_cause_items')
    ex = Exec(uni, dict(mod.__dict__), call_model={'._get_cause_enumerator_item': m_item}, name='enumerate_cause_items'); ex.fields_mode = True; ex.method_names = {'_get_cause_enumerator_item'}
    outs = ex.run_function(node, St(), (VObj(SELF), VObj(CAUSE)), {}, fobj)
    pr = discharge.Prover(axioms)
    O1 = uni.const(BeartypeStrategy.O1)
    for i, (s, v) in enumerate(outs):
        enum = [e for e in s.events if e[0] == 'enumerate']; items = [e for e in s.events if e[0] == 'callee']
        # what the enumerator produces, whichever way it is written: a returned iterator over a tuple display, or yields of a generator
        produced = list(v.src.items) if (isinstance(v, VIter) and isinstance(v.src, VTup)) else [e[1] for e in s.events if e[0] == 'yield']
        delegated = [e for e in s.events if e[0] == 'yield_from'] + ([v] if isinstance(v, VObj) and not isinstance(v, VIter) and enum else [])
        one = len(produced) == 1 and produced[0] is ITEM and not delegated
        r = pr.prove(list(s.pc) + [STRAT == O1], z3.BoolVal(one and not enum and len(items) == 1))
        extra = replay_errpath_cost() if r.status == 'refuted' else {}
        rep.add(f'{prefix}.enumerate_cause_items.post.O1_one_pair.path{i}', r.status, time=r.time, backend=r.backend, **extra, where=f'under the constant-time strategy the enumerator yields exactly the one sampled pair and the pith is not enumerated (produced {len(produced)}, enumerate() calls {len(enum)}, delegations {len(delegated)})')
        r = pr.prove(list(s.pc) + [STRAT != O1], z3.BoolVal(bool(enum) and not items))
        rep.add(f'{prefix}.enumerate_cause_items.post.nonO1_enumerates.path{i}', r.status, time=r.time, backend=r.backend, where='other strategies enumerate the whole pith (linear by design)')
    rep.functions += ['beartype/_check/cls/logic/logcls.py:HintLogicABC.enumerate_cause_items', 'logcls._get_cause_enumerator_item_sequence', 'logcls._get_cause_enumerator_item_reiterable', 'logcls._get_cause_enumerator_item_collection']

def add_finders(rep, prefix, o1_cost=False):
    """C10 on the explanation path: the cause finders touch a pith's contents only where the checker did - `len()` only on an established
    Sized pith, iteration (the enumerator / items()) only on an established Collection / Mapping - so one-shot iterables next to the
    culprit are neither sized nor consumed while a rejection is described.  Function mode on the real finders; the leading `assert`
    statements (internal input validation; their message f-strings call repr()) and the assignment only they use are DROPPED."""
    import ast
    from pyvc import funcmode, model as M, symx, discharge
    from pyvc.symx import Exec, St, VObj, VPy, VTup, VInt
    import collections.abc as cabc
    from beartype import BeartypeStrategy
    uni = M.Universe()
    for c in (cabc.Sized, cabc.Collection, cabc.Sequence, cabc.Iterable, cabc.Mapping, cabc.Iterator, tuple): uni.const(c)
    CAUSE = z3.Const('cause', M.Obj)
    def F(name): return z3.Const(f'H_{name}', z3.ArraySort(M.Obj, M.Obj))
    PITH = z3.Select(F('pith'), CAUSE); CHILDS = z3.Select(F('hint_childs_sane'), CAUSE)
    SHALLOW = z3.Const('cause_shallow', M.Obj); LOGIC = z3.Const('hint_logic', M.Obj); NONE = uni.const(None)
    def run(path, qual, origin_cls, n_childs):
        import importlib
        mod = importlib.import_module(path[:-3].replace('/', '.'))
        fobj, node, _ = funcmode.load(path, qual)
        body = [st for st in node.body if not isinstance(st, ast.Assert) and not (isinstance(st, ast.Expr) and isinstance(st.value, ast.Constant))
                and not (isinstance(st, ast.Assign) and isinstance(st.targets[0], ast.Name) and st.targets[0].id == 'hints_child_len_expected')]
        name = qual
        iterated = []
        def need(ex_, s, what, cls):
            ex_.obl(s, f'pre.{what}', M.inst(PITH, uni.const(cls)), f'{what}: the pith is iterated here; it must be an established {cls.__name__} (a one-shot iterable is never consumed)')
        def m_shallow(ex_, s, f, a, kw, where): return [(s, VObj(SHALLOW))]
        def m_logic_get(ex_, s, f, a, kw, where): return [(s, VObj(LOGIC))]
        def m_enum(ex_, s, f, a, kw, where):
            need(ex_, s, 'enumerate_cause_items', cabc.Collection)
            return [(s.ev('iterates_pith'), VTup((VTup((VInt(z3.Int('enum_idx')), VObj(z3.Const('enum_item', M.Obj)))),)))]
        def m_permute(ex_, s, f, a, kw, where): return [(s, VObj(M.fresh('cause_child')))]
        def m_find(ex_, s, f, a, kw, where): return [(s, VObj(M.fresh('cause_deep')))]
        def m_sanify(ex_, s, f, a, kw, where): return [(s, VObj(M.fresh('hint_sane')))]
        cm = {mod.find_cause_type_instance_origin: m_shallow, '.enumerate_cause_items': m_enum, '.permute_cause': m_permute, '.find_cause': m_find, '.sanify_hint_child': m_sanify}
        if hasattr(mod, 'HINT_SIGN_PEP484585_CONTAINER_TO_LOGIC_get'): cm[mod.HINT_SIGN_PEP484585_CONTAINER_TO_LOGIC_get] = m_logic_get
        for nm in ('is_hint_pep484585646_tuple_empty',):
            if hasattr(mod, nm): cm[getattr(mod, nm)] = (lambda ex_, s, f, a, kw, where: [(s, VObj(M.fresh('is_empty_tuple_hint')))])
        ex = Exec(uni, dict(mod.__dict__), call_model=cm, name=name); ex.fields_mode = True
        ex.method_names = {'enumerate_cause_items', 'permute_cause', 'find_cause', 'sanify_hint_child', 'items', 'values', 'keys'}
        # callee contract of find_cause_type_instance_origin (ASSUMED): no shallow cause <=> the pith is an instance of the hint's origin class
        STRAT_ = z3.Select(F('strategy'), z3.Select(F('conf'), CAUSE))
        pre = ([STRAT_ == uni.const(BeartypeStrategy.O1)] if o1_cost else []) + [z3.Implies(z3.Select(F('cause_str_or_none'), SHALLOW) == NONE, M.inst(PITH, uni.const(origin_cls))) if origin_cls is not None else z3.BoolVal(True),
               M.inst(CHILDS, uni.const(tuple)), M.len_(CHILDS) >= n_childs, M.inst(z3.Select(F('conf'), CAUSE), uni.const(object))]
        outs = ex.exec_block(body, St((('cause', VObj(CAUSE)),), tuple(pre)))
        pr = discharge.Prover(uni.axioms())
        n = 0
        for ob in ([] if o1_cost else ex.obls):
            r = pr.prove(list(ob.pc), ob.goal); n += 1
            rep.add(f'{prefix}.{name}.{ob.kind}#{ob.name.rsplit(".", 1)[-1]}', r.status, time=r.time, backend=r.backend, where=ob.where, reason=r.reason)
        # frame: effects on the pith itself are len / isinstance / the guarded iteration only
        allowed = {'len', 'isinstance', 'view_items', 'iter', 'next', 'iterate_items', 'usercall', 'eq'}
        paths = 0
        for kind, s_, v_ in outs:
            paths += 1
            for op, tgt, det in s_.effects:
                if tgt is not None and isinstance(tgt, z3.ExprRef) and tgt.eq(PITH) and op in ('iter', 'next', 'view_items', 'iterate_items', 'iterate_all', 'enumerate'):
                    need_cls = cabc.Mapping if op in ('view_items', 'iterate_items') else cabc.Collection
                    r = pr.prove(list(s_.pc), M.inst(PITH, uni.const(need_cls)))
                    rep.add(f'{prefix}.{name}.effect.{op}.path{paths}', r.status, time=r.time, backend=r.backend, where=f'{op} on the pith only under an established {need_cls.__name__}')
        if o1_cost:
            # constant cost of the explanation path: under the O1 strategy the finder takes ONE item (pair) from the pith - by next(iter(...)) - and never loops over it
            k_ = 0
            for kind, s_, v_ in outs:
                k_ += 1
                loops = [e for e in s_.effects if e[0] in ('iterate_items', 'iterate_all', 'enumerate') and e[1] is not None]
                nexts = [e for e in s_.effects if e[0] == 'next']
                rep.add(f'{prefix}.{name}.cost.o1_takes_one_item.path{k_}', 'proved' if (not loops and len(nexts) <= 1) else 'refuted', backend='structural',
                        where=f'under the constant-time strategy: {len(nexts)} next() calls, {len(loops)} whole-container loops ({[e[0] for e in loops][:3]}) while describing a rejection: at most one item / pair is read whatever the size')
            return
        rep.add(f'{prefix}.{name}.paths', 'proved' if paths and n else 'refuted', backend='structural', where=f'{paths} paths, {n} definedness / precondition obligations (zero would be vacuous)')
        rep.functions.append(f'{path}:{qual} (leading asserts dropped)')
    if o1_cost:
        run('beartype/_check/error/_pep/pep484585/errpep484585mapping.py', 'find_cause_pep484585_mapping', cabc.Mapping, 2)
        return
    run('beartype/_check/error/_pep/pep484585/errpep484585container.py', 'find_cause_pep484585_container_args_1', None, 1)
    run('beartype/_check/error/_pep/pep484585/errpep484585container.py', 'find_cause_pep484585_tuple_fixed', tuple, 0)
    run('beartype/_check/error/_pep/pep484585/errpep484585mapping.py', 'find_cause_pep484585_mapping', cabc.Mapping, 2)
    rep.assumptions += ['explanation path: callee contract of find_cause_type_instance_origin (no shallow cause => the pith is an instance of the hint\'s origin class) is established by add_shallow()',
                        'explanation path: the leading assert statements of the finders are dropped (internal invariants: cause type, sign, number of child hints >= 1 / 2)',
                        'explanation path: permute_cause / find_cause (the recursive descent into the item) are callee contracts: the item is described by the same finders']

def add_shallow(rep, prefix):
    """the callee contract the container finders use (so far ASSUMED): find_cause_type_instance_origin() reports no shallow cause only if the
    pith is an instance of the origin class.  Function mode on find_cause_instance_type (the cause it returns carries no message iff
    isinstance(pith, hint)) and on find_cause_type_instance_origin (it is find_cause_instance_type on a copy of the cause whose hint is the
    origin class).  permute_cause* are callee contracts: a shallow copy with exactly the named fields replaced."""
    import ast
    from pyvc import funcmode, model as M, symx, discharge
    from pyvc.symx import Exec, St, VObj, VPy, VBool
    import beartype._check.error._nonpep.errnonpeptype as mod
    uni = M.Universe(); uni.const(str); NONE = uni.const(None)
    CAUSE = z3.Const('cause', M.Obj)
    def F(name): return z3.Const(f'H_{name}', z3.ArraySort(M.Obj, M.Obj))
    PITH = z3.Select(F('pith'), CAUSE); HINT = z3.Select(F('hint_curr_sanified'), CAUSE)
    def m_noop(ex_, s, f, a, kw, w): return [(s, VPy(None))]
    def m_fresh(tag): return lambda ex_, s, f, a, kw, w: [(s, VObj(M.fresh(tag)))]
    def m_permute(ex_, s, f, a, kw, w):
        kw = dict(kw) if not isinstance(kw, dict) else kw
        return [(s.ev('permute', {k: v for k, v in kw.items()}), VObj(M.fresh('cause_copy')))]
    def m_user_str(ex_, s, f, a, kw, w): return [(s.ev('usercall'), VObj(M.fresh('instancecheck_str')))]
    drop = lambda node: [st for st in node.body if not isinstance(st, ast.Assert) and not (isinstance(st, ast.Expr) and isinstance(st.value, ast.Constant))]
    # ---- find_cause_instance_type
    fobj, node, _ = funcmode.load('beartype/_check/error/_nonpep/errnonpeptype.py', 'find_cause_instance_type')
    cm = {'.permute_cause': m_permute}
    for nm in ('die_unless_type_isinstanceable', 'die_unless_func_args_len_flexible_equal'):
        if hasattr(mod, nm): cm[getattr(mod, nm)] = m_noop
    for nm in ('represent_pith', 'label_type'):
        if hasattr(mod, nm): cm[getattr(mod, nm)] = m_fresh(nm)
    ex = Exec(uni, dict(mod.__dict__), call_model=cm, name='find_cause_instance_type'); ex.fields_mode = True; ex.method_names = {'permute_cause'}; ex.fstr_eval_calls = False
    orig_call = ex.call
    def call(s, fv, args, kw, where, _o=orig_call):
        # the user-defined __instancecheck_str__ hook fetched by getattr(): an abstract user callable returning some object
        if isinstance(fv, VObj): return [(s.ev('usercall'), VObj(M.fresh('instancecheck_str')))]
        return _o(s, fv, args, kw, where)
    ex.call = call
    try: outs = ex.exec_block(drop(node), St((('cause', VObj(CAUSE)),), ()))
    except symx.Unsupported as e: rep.error(f'{prefix}.find_cause_instance_type: unsupported: {e}'); outs = []
    pr = discharge.Prover(uni.axioms()); n = 0
    for i, (kind, s_, v) in enumerate(outs):
        if kind != 'return': continue
        per = [e for e in s_.events if e[0] == 'permute']
        if len(per) != 1: rep.add(f'{prefix}.find_cause_instance_type.post.one_copy.path{i}', 'refuted', backend='structural', where=f'{len(per)} permute_cause calls'); continue
        n += 1; msg = per[0][1].get('cause_str_or_none')
        none_msg = isinstance(msg, VPy) and msg.o is None
        if not none_msg and isinstance(msg, VObj):
            r0 = pr.prove(list(s_.pc), msg.t != NONE); none_msg = False
        goal = M.inst(PITH, HINT) if none_msg else z3.Not(M.inst(PITH, HINT))
        r = pr.prove(list(s_.pc), goal)
        rep.add(f'{prefix}.find_cause_instance_type.post.no_message_iff_instance.path{i}', r.status, time=r.time, backend=r.backend, reason=r.reason,
                where='the returned cause carries no message exactly when isinstance(pith, hint) holds (and only the message field is replaced)')
        rep.add(f'{prefix}.find_cause_instance_type.post.only_message_replaced.path{i}', 'proved' if set(per[0][1]) == {'cause_str_or_none'} else 'refuted', backend='structural', where=f'permute_cause({sorted(per[0][1])})')
    if not n: rep.error(f'{prefix}.find_cause_instance_type: no returning path')
    # ---- find_cause_type_instance_origin
    fobj, node, _ = funcmode.load('beartype/_check/error/_nonpep/errnonpeptype.py', 'find_cause_type_instance_origin')
    ORIGIN = z3.Const('origin_type', M.Obj)
    def m_origin(ex_, s, f, a, kw, w):
        return [(s2, VPy(None) if none else VObj(ORIGIN)) for s2, none in ex_.fork(s, z3.Bool('origin_is_none'))]
    def m_permute_child(ex_, s, f, a, kw, w): return [(s.ev('permute_child', ex_.obj(a[0]) if a else None, dict(kw) if not isinstance(kw, dict) else kw), VObj(z3.Const('cause_for_origin', M.Obj)))]
    def m_find_inst(ex_, s, f, a, kw, w): return [(s.ev('find_instance', ex_.obj(a[0])), VObj(z3.Const('shallow_result', M.Obj)))]
    cm = {'.permute_cause_hint_child_insane': m_permute_child, mod.find_cause_instance_type: m_find_inst}
    for nm in ('get_hint_pep_origin_type_isinstanceable_or_none',):
        if hasattr(mod, nm): cm[getattr(mod, nm)] = m_origin
    ex = Exec(uni, dict(mod.__dict__), call_model=cm, name='find_cause_type_instance_origin'); ex.fields_mode = True; ex.method_names = {'permute_cause_hint_child_insane'}
    try: outs = ex.exec_block(drop(node), St((('cause', VObj(CAUSE)),), (ORIGIN != NONE,)))
    except symx.Unsupported as e: rep.error(f'{prefix}.find_cause_type_instance_origin: unsupported: {e}'); outs = []
    n = 0
    for i, (kind, s_, v) in enumerate(outs):
        if kind != 'return': continue
        n += 1
        pc_ = [e for e in s_.events if e[0] == 'permute_child']; fi = [e for e in s_.events if e[0] == 'find_instance']
        ok = (len(pc_) == 1 and pc_[0][1] is not None and pc_[0][1].eq(ORIGIN) and not pc_[0][2] and len(fi) == 1 and fi[0][1].eq(z3.Const('cause_for_origin', M.Obj))
              and isinstance(v, VObj) and v.t.eq(z3.Const('shallow_result', M.Obj)))
        rep.add(f'{prefix}.find_cause_type_instance_origin.post.is_instance_test_against_the_origin.path{i}', 'proved' if ok else 'refuted', backend='structural',
                where='returns find_cause_instance_type(<copy of the cause whose hint is the origin class, every other field - the pith - kept>)')
    if not n: rep.error(f'{prefix}.find_cause_type_instance_origin: no returning path')
    rep.functions += ['beartype/_check/error/_nonpep/errnonpeptype.py:find_cause_instance_type (mode F)', 'beartype/_check/error/_nonpep/errnonpeptype.py:find_cause_type_instance_origin (mode F)']
    rep.assumptions += ['explanation path: HintTreeError.permute_cause* return a shallow copy with exactly the named fields replaced, and sanifying the origin class of a hint yields that class (false under an override keyed by the origin class: KF-C03-origin-override-desync)']

EXPLAIN_SCENARIOS = [
    # (hint source, object source): a conforming-or-uninspectable sibling that must be left alone + a culprit that makes the check fail
    ('tuple[Iterable[int], int]', "(SizedStream([1, 2, 3]), 'bad')"), ('tuple[Container[int], int]', "(SizedStream([1, 2, 3]), 'bad')"),
    ('tuple[Reversible[int], int]', "(SizedStream([1, 2, 3]), 'bad')"), ('tuple[Iterable[int], int]', "(Stream([1, 2, 3]), 'bad')"),
    ('tuple[Iterable[int], int]', "(OneShot([1, 2, 3]), 'bad')"), ('tuple[Iterable[int], int]', "(SizedOneShot([1, 2, 3]), 'bad')"),
    ('tuple[Iterable[int], int]', "((i for i in [1, 2, 3]), 'bad')"), ('tuple[Iterator[int], int]', "(OneShot([1, 2, 3]), 'bad')"),
    ('tuple[dict[str, list[int]], int]', "(defaultdict(list, {'a': [1]}), 'bad')"), ('tuple[Mapping[str, int], int]', "(defaultdict(int, {'a': 1}), 'bad')"),
    ('dict[str, Iterable[int]]', "{'a': SizedStream([1, 'x'])}"), ('list[Iterable[int]]', "[SizedStream(['x'])] * 3"),
    ('tuple[Collection[int], int]', "(SizedStream([1, 2, 3]), 'bad')"), ('Union[Iterable[int], str]', "5"),
    ('tuple[Union[Iterable[int], str], int]', "(SizedStream([1, 2]), 'bad')"),
    # accepting path too: a ChainMap over an auto-vivifying first map (ChainMap.__getitem__ probes every map with map[key])
    ('ChainMap[str, int]', "ChainMap(defaultdict(int), {'a': 1})"), ('Mapping[str, int]', "ChainMap(defaultdict(int), {'a': 1})"), ('MutableMapping[str, int]', "ChainMap(defaultdict(int), {'a': 1})"),
    ('tuple[Mapping[str, int], int]', "(ChainMap(defaultdict(int), {'a': 1}), 'bad')"), ('dict[str, int]', "defaultdict(int, {'a': 1})"), ('Mapping[str, list[int]]', "defaultdict(list, {'a': [1]})"),
    # auto-vivifying mappings against the quasi-iterable hints (their KEYS are the items): as the culprit and as a conforming sibling
    ('Iterable[str]', "defaultdict(int, {b'a': 1, b'b': 2, b'c': 3})"), ('Container[str]', "defaultdict(list, {b'a': [1], b'b': []})"), ('Reversible[str]', "defaultdict(int, {b'a': 1, b'b': 2})"),
    # Iterator / Generator hints are shallow: an iterator is never advanced by a check against them, whatever else it is (accepting path)
    ('Iterator[int]', 'CollOneShot([10, 20, 30])'), ('tuple[Iterator[int], int]', "(CollOneShot([10, 20, 30]), 5)"), ('list[Iterator[int]]', '[CollOneShot([10, 20, 30])]'), ('Iterator[int]', 'OneShot([10, 20, 30])'),
    ('Collection[str]', "defaultdict(int, {b'a': 1, b'b': 2})"), ('tuple[Iterable[str], int]', "(defaultdict(int, {'a': 1, 'b': 2}), 'bad')"), ('list[Iterable[str]]', "[defaultdict(int, {b'a': 1, b'b': 2})]"),
]
EXPLAIN_SRC = """
from pyvc import replaylib, shapes
from pyvc.replaylib import NS, snapshot
import collections, sys
NS.setdefault('defaultdict', collections.defaultdict); NS.setdefault('ChainMap', collections.ChainMap)
def one(hint_src, obj_src, entry, strategy):
    from beartype import beartype, BeartypeConf, BeartypeStrategy
    from beartype.door import die_if_unbearable
    from beartype.roar import BeartypeDoorHintViolation, BeartypeCallHintViolation
    hint = shapes.ev(hint_src); obj = eval(obj_src, NS); conf = BeartypeConf(strategy=getattr(BeartypeStrategy, strategy))
    def snap(o):
        parts = [snapshot(o)]
        for it in (o if isinstance(o, (tuple, list)) else list(dict.values(o)) if isinstance(o, dict) else ()): parts.append(snapshot(it))
        return parts
    before = snap(obj); replaylib.force_draw(1)
    try:
        if entry == 'door': die_if_unbearable(obj, hint, conf=conf)
        else:
            @beartype(conf=conf)
            def f(a: hint): return None
            f(obj)
        out = 'accepted'
    except (BeartypeDoorHintViolation, BeartypeCallHintViolation): out = 'violation'
    except Exception as e: out = f'{type(e).__name__}: {e}'[:160]
    after = snap(obj)
    return out, before, after
"""
def add_explain_bounded(rep, prefix):
    """bounded run-time contract (NOT counted as proved): describing a rejection leaves one-shot / auto-vivifying siblings of the culprit
    exactly as they were, under the constant-time strategy, through the door API and a decorated parameter"""
    import subprocess, sys, json
    from pyvc import VERIF, REPO
    head = f"import sys, os\nos.environ['VERIF_REPO'] = {REPO!r}\nsys.path.insert(0, {VERIF!r})\nimport pyvc; pyvc.use_repo()\n"
    drv = head + EXPLAIN_SRC + f"\nimport json\nres = []\nfor h, o in {EXPLAIN_SCENARIOS!r}:\n    for entry in ('door', 'param'):\n        out, b, a = one(h, o, entry, 'O1')\n        res.append((h, o, entry, out, repr(b), repr(a)))\nprint('RESULT' + json.dumps(res))\n"
    p = subprocess.run([sys.executable, '-c', drv], capture_output=True, text=True, timeout=300)
    line = next((l for l in p.stdout.splitlines() if l.startswith('RESULT')), None)
    if line is None: rep.error(f'{prefix}.explain_bounded: harness failed: ' + (p.stdout + p.stderr)[-600:]); return
    res = json.loads(line[6:]); bad = 0
    for h, o, entry, out, b, a in res:
        ok = (b == a) and (out in ('violation', 'accepted'))
        if ok: continue
        bad += 1
        script = ("os.environ['VERIF_REPO'] = %r\n" % REPO) + EXPLAIN_SRC + f"\nout, b, a = one({h!r}, {o!r}, {entry!r}, 'O1')\nprint(out); print('before', b); print('after ', a)\nsys.exit(1 if (b != a or out not in ('violation', 'accepted')) else 0)\n"
        rep.add(f'{prefix}.explain_bounded[{h}|{o}|{entry}]', 'refuted', backend='runtime-contract', where=f'{out}; subject before {b} after {a}',
                solver_output='bounded run-time contract on the real API (not a proof)', replay=dict(reproduced=True, detail=f'{entry} check of {o} against {h}: {out}; before {b} after {a}'[:400]), replay_script=script)
    rep.bounded.append(dict(kind='explanation path leaves one-shot / auto-vivifying siblings untouched (bounded stand-in, NOT counted as proved)', scenarios=len(res), failing=bad,
                            bound=f'{len(EXPLAIN_SCENARIOS)} hint/object scenarios x 2 entry points, constant-time strategy, forced draw 1'))

MAPCOST_SRC = """
import sys, collections
from typing import Any, Mapping
from beartype.door import die_if_unbearable
from beartype import beartype
from beartype.roar import BeartypeException
READS = [0]
class CountingDict(dict):
    def _count(self, it):
        for x in it:
            READS[0] += 1; yield x
    def items(self): return self._count(dict.items(self))
    def keys(self): return self._count(dict.keys(self))
    def values(self): return self._count(dict.values(self))
    def __iter__(self): return self._count(dict.__iter__(self))
bad = []
for hint in (tuple[dict[str, Any], int], tuple[dict[str, int], int], tuple[Mapping[str, object], int], tuple[dict[Any, int], int], list[dict[str, Any]]):
    counts = []
    for n in (10, 4000):
        d = CountingDict((str(i), i) for i in range(n)); READS[0] = 0
        obj = (d, 'the culprit') if 'tuple' in repr(hint) else [d, 'the culprit']
        try: die_if_unbearable(obj, hint)
        except BeartypeException: pass
        counts.append(READS[0])
    if counts[1] > counts[0] + 2: bad.append(f'{hint}: describing a rejection next to a conforming mapping read {counts[0]} items of a 10-item mapping and {counts[1]} of a 4000-item one')
print(bad[:3]); sys.exit(1 if bad else 0)
"""
def add_mapping_cost_bounded(rep, prefix):
    """bounded (NOT counted as proved): item reads of a conforming mapping visited while a rejection elsewhere is described do not grow with its size (constant-time strategy)"""
    import subprocess, sys, os
    from pyvc import REPO
    env = dict(os.environ); env['PYTHONPATH'] = REPO
    p = subprocess.run([sys.executable, '-c', MAPCOST_SRC], capture_output=True, text=True, timeout=180, env=env, cwd='/')
    if p.returncode not in (0, 1) or (p.returncode == 1 and not p.stdout.strip().startswith('[')): rep.error(f'{prefix} mapping cost harness: ' + (p.stdout + p.stderr)[-600:]); return
    if p.returncode == 1:
        rep.add(f'{prefix}.bounded.mapping_reads_do_not_grow', 'refuted', backend='runtime-contract', bounded=True, where=p.stdout.strip()[-400:], solver_output='bounded run-time contract in a fresh interpreter (not a proof)',
                replay=dict(kind='C09', reproduced=True, detail=p.stdout.strip()[-300:]), replay_script=f"import subprocess\nenv = dict(os.environ); env['PYTHONPATH'] = os.environ.get('VERIF_REPO', {REPO!r})\np = subprocess.run([sys.executable, '-c', {MAPCOST_SRC!r}], env=env, cwd='/')\nsys.exit(p.returncode)\n")
    rep.bounded.append(dict(kind='explanation path: reads of a conforming mapping next to the culprit at sizes 10 and 4000 (bounded stand-in, NOT counted as proved)', scenarios=5, failing=int(p.returncode == 1)))

def add_finders_o1(rep, prefix):
    try: add_finders(rep, prefix, True)
    except Exception as e:
        rep.extra['errpath_mapping_o1_note'] = f'function-mode cost obligation on the mapping finder not applicable to the current text ({type(e).__name__}: {str(e)[:120]}); the bounded read count stands in'
    add_mapping_cost_bounded(rep, prefix)

def safe(fn, rep, *a):
    try: fn(rep, *a)
    except Exception: rep.error(f'{fn.__name__}: ' + traceback.format_exc()[-1800:])


REPLAY_SRC = """
from pyvc import replaylib, shapes
from beartype.door import die_if_unbearable
from beartype.roar import BeartypeDoorHintViolation
def reads(n):
    obj = (replaylib.CList([1] * n), 5)          # the list conforms at every index; the sibling is the culprit
    replaylib.force_draw(3); replaylib.Reads.n = 0
    try: die_if_unbearable(obj, tuple[list[int], str])
    except BeartypeDoorHintViolation: pass
    return replaylib.Reads.n
a, b = reads(10), reads(5000)
print("item reads while describing the rejection: n=10 ->", a, " n=5000 ->", b)
sys.exit(1 if b > a + 2 else 0)
"""
def replay_errpath_cost():
    import subprocess, sys, os
    from pyvc import VERIF, REPO
    src = f"import sys, os\nos.environ['VERIF_REPO'] = {REPO!r}\nsys.path.insert(0, {VERIF!r})\n" + REPLAY_SRC
    p = subprocess.run([sys.executable, '-c', src], capture_output=True, text=True, timeout=120)
    rp = dict(kind='C09', reproduced=p.returncode == 1, tried=[dict(out=(p.stdout + p.stderr)[-300:])], detail=p.stdout.strip()[-200:])
    return dict(replay=rp, replay_script=("os.environ['VERIF_REPO'] = %r\n" % REPO) + REPLAY_SRC if p.returncode == 1 else None)
