# is_pep484_tower=True is ignored when a TypeVar bound is validated at
# subscription time.
import sys
from typing import TypeVar, Generic
from beartype import beartype, BeartypeConf
from beartype.door import is_bearable
tower = BeartypeConf(is_pep484_tower=True)
F = TypeVar('F', bound=float)
class Vec(list[F]): pass
class Box(Generic[F]): pass
print('float hint accepts int under the tower:', is_bearable(1, float, conf=tower))
print('list[F] accepts ints under the tower  :', is_bearable([1], list[F], conf=tower))
bad = 0
for obj, hint in ((Vec([1, 2]), Vec[int]), (Box(), Box[int])):
    try:
        print(hint, '->', is_bearable(obj, hint, conf=tower))
    except Exception as e:
        bad += 1
        print(hint, '->', type(e).__name__, str(e)[:170])
sys.exit(1 if bad else 0)
