# issubclass()-based class comparison is unsound (and non-transitive) for collections.abc.Hashable.
import sys
from collections.abc import Hashable, Sequence
from beartype.door import is_bearable, is_subhint
bad = 0
for A, B, obj in ((object, Hashable, [1]), (Sequence, Hashable, [1]), (Sequence[int], Hashable, [1]),
                  (list[Sequence[int]], list[Hashable], [[1]])):
    sub, a, b = is_subhint(A, B), is_bearable(obj, A), is_bearable(obj, B)
    print(f'is_subhint({A}, {B}) = {sub}; {obj!r} satisfies sub: {a}; satisfies super: {b}')
    bad |= (sub and a and not b)
t = (is_subhint(list, Sequence), is_subhint(Sequence, Hashable), is_subhint(list, Hashable))
print('list <= Sequence, Sequence <= Hashable, list <= Hashable:', t)
bad |= (t[0] and t[1] and not t[2])
sys.exit(1 if bad else 0)
