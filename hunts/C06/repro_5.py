# BeartypeSourceFileLoader.get_code() never resets the per-loader "_module_conf" on its
# "module is not hooked" path, so a loader that was used once while the module was hooked
# keeps type-checking that module after every hook has been removed.
import hashlib
import importlib.util, os, sys, tempfile
import beartype
assert beartype.__file__.startswith('/tmp/wt/hunt_C06'), beartype.__file__
from beartype.claw import beartyping
from beartype.claw._clawstate import claw_state

root = tempfile.mkdtemp()
open(os.path.join(root, 'c06plugin.py'), 'w').write('def f(x: int) -> int:\n    return x\n')
sys.path.insert(0, root)

def load(spec):
    mod = importlib.util.module_from_spec(spec)
    spec.loader.exec_module(mod)
    return mod
def is_checked(mod):
    try: mod.f('not an int')
    except Exception: return True
    return False

with beartyping():
    spec = importlib.util.find_spec('c06plugin')
    print('inside  block: type-checked =', is_checked(load(spec)))
# Block left: nothing registered, path hook removed.
print('registered:', bool(claw_state.packages_trie_whitelist),
      claw_state.packages_trie_whitelist.conf_if_hooked, '| path hook:', claw_state.beartype_path_hook)
after = is_checked(load(spec))          # e.g. a plugin system re-executing a kept spec
print('outside block: type-checked =', after, '(expected False)')
sys.exit(1 if after else 0)
