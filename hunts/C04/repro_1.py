# Bound methods / callable objects whose underlying function has positional-only
# parameters (hence a positional-only "self") are checked at the wrong indices.
from beartype import beartype
from beartype.roar import BeartypeCallHintParamViolation

bugs = []

class K:
    def m(self, x: int, y: str, /):          # all positional-only
        return ('ran', x, y)
    def n(self, /, x: int):                  # only self positional-only
        return ('ran', x)

k = K()

# (a) false positive: a perfectly valid call is rejected, original never runs
bm = beartype(k.m)
try:
    assert bm(1, 's') == ('ran', 1, 's')
except BeartypeCallHintParamViolation as e:
    bugs.append(f'(a) valid call bm(1, "s") rejected: {e}')

# (b) false negative: x='bad' is bound to "x: int" but is never checked
bn = beartype(k.n)
try:
    r = bn('bad')
    bugs.append(f'(b) bn("bad") returned {r!r}; "x: int" unchecked')
except BeartypeCallHintParamViolation:
    pass

# (c) same for a callable object decorated directly
class Call:
    def __call__(self, x: int, /, y: str = 'y'):
        return ('ran', x, y)
c = beartype(Call())
try:
    r = c('bad')
    bugs.append(f'(c) Call()("bad") returned {r!r}; "x: int" unchecked')
except BeartypeCallHintParamViolation:
    pass
try:
    c(1, 's')
except BeartypeCallHintParamViolation as e:
    bugs.append(f'(c2) valid call Call()(1, "s") rejected: {str(e)[:120]}')

for b in bugs: print('BUG', b)
raise SystemExit(1 if bugs else 0)
