"""C15, BOUNDED stand-in (never counted as proved): a controlled two-thread scheduler at line granularity inside beartype.

Per-function contracts do not range over interleavings (DESIGN 4 / C15); what can be done on the real code is to ENUMERATE a stated
family of schedules and compare every observation with the sequential ones:

  schedule(k)   thread A runs its operation until the k-th `line` event executed in a frame whose code lives under <repo>/beartype
                (generated wrapper code is not a preemption point), is suspended there; thread B then runs its whole operation - or
                runs until it blocks on a lock A holds, in which case A is resumed (a legal schedule) - then A is resumed to completion.
  oracle        the triple (observation of A, observation of B, joint observation) must be one the two sequential orders A;B / B;A
                produce FROM THE SAME COLD STATE.  Cold state per trial is obtained by os.fork() from a parent that has built the
                scenario but run none of its operations (so every trial starts with the same empty memo tables / pools).
  bound         one preemption of A per schedule, B atomic; k ranges over all line events of A (sampled evenly + seeded random when A
                executes more than the tier's budget of lines); both role assignments of each scenario.
A hang (neither thread finishing after the other was resumed) is reported as a deadlock."""
import os, sys, re, json, threading, traceback, random, time

T_BLOCK = 0.25      # seconds B may run before it is considered blocked on a lock held by the suspended A
T_HANG = 60.0

def _norm(x):
    return re.sub(r'0x[0-9a-fA-F]+', '0x?', x if isinstance(x, str) else repr(x))[:600]

def _obs(fn):
    try: return _norm(fn())
    except BaseException as e: return f'EXC {type(e).__name__}: {_norm(str(e))[:300]}'

# ---------------------------------------------------------------- scenarios: build() -> (opA, opB, joint)
# every build() runs in the PARENT before the fork and must not execute the operations themselves

def sc_conf_repr():
    from beartype import BeartypeConf
    conf = BeartypeConf(is_color=False, is_debug=True, claw_is_pep526=False)
    out = {}
    def a(): out['a'] = repr(conf); return out['a']
    def b(): out['b'] = repr(conf); return out['b']
    return a, b, lambda: repr(conf)

def sc_conf_new():
    from beartype import BeartypeConf, BeartypeStrategy
    out = {}
    def mk(k):
        def op(): out[k] = BeartypeConf(is_pep484_tower=True, violation_door_type=ValueError, strategy=BeartypeStrategy.On); return repr(out[k])
        return op
    return mk('a'), mk('b'), lambda: f"same object: {out.get('a') is out.get('b')}; equal: {out.get('a') == out.get('b')}"

def sc_conf_violation_message():
    from beartype import BeartypeConf
    from beartype.door import die_if_unbearable
    from beartype.roar import BeartypeDoorHintViolation
    from beartype import BeartypeViolationVerbosity
    conf = BeartypeConf(violation_verbosity=BeartypeViolationVerbosity.MAXIMAL, is_debug=False, claw_is_pep526=False)
    def op():
        try: die_if_unbearable(0xBEEF, str, conf=conf); return 'accepted'
        except BeartypeDoorHintViolation as e: return 'violation: ' + str(e)
    return op, op, lambda: ''

def sc_typehint_same():
    from beartype.door import TypeHint
    import typing
    hint = typing.Dict[typing.Tuple[int, str], typing.List[typing.Optional[bytes]]]
    out = {}
    def mk(k):
        def op(): out[k] = TypeHint(hint); return repr(out[k]) + f' len={len(out[k])} args={out[k].args!r}'
        return op
    return mk('a'), mk('b'), lambda: f"same object: {out.get('a') is out.get('b')}; equal: {out.get('a') == out.get('b')}"

def sc_is_bearable_same_hint():
    from beartype.door import is_bearable
    import typing
    hint = typing.Union[typing.List[typing.Tuple[int, ...]], typing.Dict[str, typing.Set[bytes]], None]
    return (lambda: is_bearable([(1, 2), (3,)], hint)), (lambda: is_bearable({'k': {'not bytes'}}, hint)), lambda: ''

def sc_is_bearable_two_hints():
    from beartype.door import is_bearable
    import typing
    h1 = typing.List[typing.Dict[str, typing.Tuple[int, bytes]]]; h2 = typing.Tuple[typing.Union[int, typing.List[str]], ...]
    return (lambda: is_bearable([{'a': (1, b'x')}], h1)), (lambda: is_bearable(([2],), h2)), lambda: ''      # one item per container: the verdict does not depend on the sampler's draw

def sc_decorate_two():
    from beartype import beartype
    from beartype.roar import BeartypeCallHintViolation
    import typing
    def f(x: typing.List[int], *a: str, k: typing.Optional[bytes] = None) -> typing.Tuple[int, ...]: return tuple(x)
    def g(m: typing.Dict[str, typing.List[float]], flag: bool = False) -> typing.Union[int, str]: return len(m) if flag else 'n'
    def probe(w, good, bad):
        res = []
        for args, kw in (good, bad):
            try: w(*args, **kw); res.append('ok')
            except BeartypeCallHintViolation: res.append('violation')
            except Exception as e: res.append(type(e).__name__)
        return ' '.join(res)
    def a(): return probe(beartype(f), (([1, 2], 's'), {'k': b'x'}), (([1], 2), {}))
    def b(): return probe(beartype(g), (({'a': [1.0]},), {'flag': True}), (({'a': [1]},), {}))
    return a, b, lambda: ''

def sc_decorate_class_and_check():
    from beartype import beartype
    from beartype.door import is_bearable
    from beartype.roar import BeartypeCallHintViolation
    import typing
    class K:
        def m(self, x: typing.List['K']) -> 'K': return self
        @staticmethod
        def s(x: typing.Optional[int]) -> int: return x or 0
    def a():
        beartype(K); k = K(); res = []
        for call in (lambda: k.m([k]), lambda: k.m([1]), lambda: K.s(None), lambda: K.s('x')):
            try: call(); res.append('ok')
            except BeartypeCallHintViolation: res.append('violation')
            except Exception as e: res.append(type(e).__name__)
        return ' '.join(res)
    def b(): return is_bearable([K()], typing.List[K]), is_bearable([1], typing.List[K])
    return a, b, lambda: ''

def sc_is_subhint():
    from beartype.door import is_subhint, TypeHint
    import typing, collections.abc as cabc
    h1 = typing.List[typing.Union[int, bool]]; h2 = cabc.Sequence[typing.Union[int, str]]
    return (lambda: (is_subhint(h1, h2), is_subhint(h2, h1))), (lambda: (TypeHint(h1) <= TypeHint(h2), TypeHint(h1) == TypeHint(h2))), lambda: ''

def sc_hook_registrations():
    from beartype.claw import beartype_package, beartype_packages
    from beartype import BeartypeConf
    def a(): beartype_package('c15_pkg_alpha.sub', conf=BeartypeConf(is_debug=False, claw_is_pep526=False)); return 'registered'
    def b(): beartype_packages(('c15_pkg_beta', 'c15_pkg_alpha.other')); return 'registered'
    def joint():
        from beartype.claw._package.clawpkgtrie import get_package_conf_or_none      # observation only
        return ' '.join(f'{n}:{"hooked" if get_package_conf_or_none(n) is not None else "LOST"}' for n in ('c15_pkg_alpha.sub.mod', 'c15_pkg_beta.mod', 'c15_pkg_alpha.other.mod', 'c15_pkg_alpha.unrelated'))
    return a, b, joint

def sc_pool_after_warmup():
    """both threads generate a checker when the object pools hold exactly ONE idle scratch object (left by a warm-up in the parent, before the fork)"""
    from beartype.door import is_bearable
    from beartype import beartype
    import typing
    class Fresh0: pass
    is_bearable([Fresh0()], typing.List[Fresh0])          # warm-up: acquires and releases the pooled scratch objects once
    class FreshA: pass
    class FreshB: pass
    return (lambda: is_bearable([FreshA()], typing.List[FreshA])), (lambda: is_bearable([1], typing.Dict[str, typing.List[FreshB]])), lambda: ''

def sc_import_hooked_and_unhooked(files_only=False):
    """one thread imports a module of a HOOKED package, the other a module of an unhooked one (both for the first time, bytecode caching on):
    the joint observation is which cache files the unhooked module got"""
    import tempfile
    root = tempfile.mkdtemp(prefix='c15imp_'); lock = threading.Lock()
    def ensure():
        with lock:
            d = os.path.join(root, str(os.getpid()))
            if not os.path.isdir(d):
                for pkg in ('c15imp_h', 'c15imp_u'):
                    os.makedirs(os.path.join(d, pkg))
                    open(os.path.join(d, pkg, '__init__.py'), 'w').close()
                    open(os.path.join(d, pkg, 'mod.py'), 'w').write('def f(x: int) -> int:\n    return x\n')
                sys.path.insert(0, d); sys.dont_write_bytecode = False
            return d
    def probe(m):
        try: m.f('not an int'); return 'unchecked'
        except Exception as e: return 'checked (' + type(e).__name__ + ')'
    def a():
        ensure()
        from beartype.claw import beartype_package
        beartype_package('c15imp_h')
        import c15imp_h.mod as m
        return probe(m)
    def b():
        ensure()
        import c15imp_u.mod as m
        return probe(m)
    def joint():
        d = ensure(); out = []
        for pkg in ('c15imp_h', 'c15imp_u'):
            pc = os.path.join(d, pkg, '__pycache__')
            names = sorted(os.listdir(pc)) if os.path.isdir(pc) else []
            out.append(pkg + ': ' + ', '.join(('MARKED ' if 'beartype' in n else 'plain ') + n.split('.')[0] for n in names if n.startswith('mod')))
        return '; '.join(out)
    if files_only: return (lambda: (a(), 'done')[1]), (lambda: (b(), 'done')[1]), joint      # only WHICH cache files exist is observed (known finding)
    return a, b, lambda: ''                                                                    # only the verdicts (checked / unchecked) are observed

def sc_import_cache_files(): return sc_import_hooked_and_unhooked(True)

SCENARIOS = {f.__name__[3:]: f for f in (sc_conf_repr, sc_conf_new, sc_conf_violation_message, sc_typehint_same, sc_is_bearable_same_hint, sc_is_bearable_two_hints,
                                         sc_decorate_two, sc_decorate_class_and_check, sc_is_subhint, sc_hook_registrations, sc_pool_after_warmup, sc_import_hooked_and_unhooked, sc_import_cache_files)}

# ---------------------------------------------------------------- the scheduler (runs in a forked child)

def _run_schedule(opA, opB, joint, k, pkgdir):
    """k: 1-based index of the line event of A at which A is suspended; 0 = sequential A;B ; -1 = sequential B;A ; None = count lines only"""
    res = {}
    if k in (0, -1):
        order = (('a', opA), ('b', opB)) if k == 0 else (('b', opB), ('a', opA))
        for nm, op in order: res[nm] = _obs(op)
        res['joint'] = _obs(joint); return res
    paused, resume = threading.Event(), threading.Event()
    state = {'n': 0}
    def local(frame, event, arg):
        if event == 'line':
            state['n'] += 1
            if k is None:
                key = f'{frame.f_code.co_filename}:{frame.f_lineno}'
                ent = state.setdefault('first', {}).setdefault(key, [state['n'], 0]); ent[1] += 1
            if state['n'] == k:
                paused.set(); resume.wait(T_HANG * 2)
        return local
    def tracer(frame, event, arg):
        return local if frame.f_code.co_filename.startswith(pkgdir) else None
    def runA():
        sys.settrace(tracer)
        try: res['a'] = _obs(opA)
        finally:
            sys.settrace(None); paused.set()
    def runB(): res['b'] = _obs(opB)
    ta = threading.Thread(target=runA, daemon=True); tb = threading.Thread(target=runB, daemon=True)
    ta.start(); paused.wait(T_HANG)
    if k is None:
        ta.join(T_HANG); return {'lines': state['n'], 'first_of_line': state.get('first', {})}
    tb.start(); tb.join(T_BLOCK)
    res['b_blocked_until_a_resumed'] = tb.is_alive()
    resume.set(); ta.join(T_HANG); tb.join(T_HANG)
    if ta.is_alive() or tb.is_alive():
        res['deadlock'] = f'after resuming A: A alive={ta.is_alive()} B alive={tb.is_alive()}'
        res.setdefault('a', 'HUNG'); res.setdefault('b', 'HUNG'); res['joint'] = 'HUNG'; return res
    res['joint'] = _obs(joint); res['reached'] = state['n'] >= k
    return res

def _child(scn, swap, k, repo):
    """fork, run one schedule from the cold state, return its observation"""
    r, w = os.pipe()
    pid = os.fork()
    if pid == 0:
        code = 0
        try:
            os.close(r)
            a, b, joint = BUILT[scn]
            if swap: a, b = b, a
            out = _run_schedule(a, b, joint, k, os.path.join(repo, 'beartype') + os.sep)
            if swap and 'a' in out: out['a'], out['b'] = out['b'], out['a']
            os.write(w, json.dumps(out).encode())
        except BaseException:
            os.write(w, json.dumps({'harness_error': traceback.format_exc()[-800:]}).encode()); code = 3
        finally:
            os._exit(code)
    os.close(w)
    buf = b''
    while True:
        c = os.read(r, 65536)
        if not c: break
        buf += c
    os.close(r); os.waitpid(pid, 0)
    try: return json.loads(buf.decode() or '{}')
    except Exception: return {'harness_error': 'unparsable child output ' + buf[:200].decode(errors='replace')}

BUILT = {}

def _prepare(repo):
    if repo not in sys.path: sys.path.insert(0, repo)
    import beartype, beartype.door, beartype.claw, beartype.vale   # noqa: warm imports, cold caches
    for n, f in SCENARIOS.items():
        if n not in BUILT: BUILT[n] = f()

def _key(o): return (o.get('a'), o.get('b'), o.get('joint'))

def explore(scn, repo, budget, seed):
    """returns (n_lines, allowed, trials, failures) for one scenario, both role assignments"""
    _prepare(repo)
    allowed = {}
    for rep_i in range(2):
        for k in (0, -1):
            o = _child(scn, False, k, repo)
            if 'harness_error' in o: return dict(error=o['harness_error'])
            allowed.setdefault(k, set()).add(_key(o))
    # a scenario whose SEQUENTIAL observation is not reproducible (e.g. depends on the sampler's draw) is a harness defect, not a finding
    if any(len(v) != 1 for v in allowed.values()): return dict(error=f'scenario {scn} is not deterministic when run sequentially: {sorted(map(str, allowed.values()))[:2]}')
    allowed = {next(iter(v)): ('A;B' if k == 0 else 'B;A') for k, v in allowed.items()}
    fails, trials, lines = [], 0, {}
    rnd = random.Random(f'{seed}:{scn}')
    for swap in (False, True):
        cnt = _child(scn, swap, None, repo); n = cnt.get('lines', 0); lines[swap] = n
        if n <= budget: ks = list(range(1, n + 1))
        else:
            # one preemption point per DISTINCT source line (its first execution), rarest lines first (set-up code that runs once - the narrow windows -
            # before loop bodies); the rest of the budget evenly spread + seeded random over all line events
            firsts = sorted(cnt.get('first_of_line', {}).values(), key=lambda e: (e[1], e[0]))
            ks = [e[0] for e in firsts[:int(budget * 0.7)]]
            rest = budget - len(ks); step = n / max(1, rest // 2)
            ks = sorted(set(ks + [1 + int(i * step) for i in range(rest // 2)] + [rnd.randint(1, n) for _ in range(rest - rest // 2)]))
        for k in ks:
            o = _child(scn, swap, k, repo); trials += 1
            if 'harness_error' in o: return dict(error=o['harness_error'])
            if 'deadlock' in o or _key(o) not in allowed:
                fails.append(dict(k=k, swap=swap, obs=o))
    return dict(lines=lines, allowed=[dict(order=v, a=k[0], b=k[1], joint=k[2]) for k, v in allowed.items()], trials=trials, fails=fails)

def _explore_star(args):
    try: return args[0], explore(*args)
    except BaseException: return args[0], dict(error=traceback.format_exc()[-1500:])

def add(rep, tier, seed, repo):
    import multiprocessing as mp
    budget = 40 if tier == 'quick' else 400
    ctx = mp.get_context('fork')
    with ctx.Pool(min(len(SCENARIOS), os.cpu_count() or 4)) as pool:
        results = pool.map(_explore_star, [(n, repo, budget, seed) for n in SCENARIOS], chunksize=1)
    tot = 0
    for scn, r in results:
        if 'error' in r: rep.error(f'C15 scheduler [{scn}]: {r["error"]}'); continue
        tot += r['trials']
        if not r['trials'] or not any(r['lines'].values()): rep.error(f'C15 scheduler [{scn}]: no preemption point inside beartype was reached (vacuous)'); continue
        groups = {}
        for f in r['fails']: groups.setdefault(json.dumps([f['obs'].get('a'), f['obs'].get('b'), f['obs'].get('joint'), f['obs'].get('deadlock')]), []).append(f)
        for gi, (g, fs) in enumerate(sorted(groups.items())[:4]):
            f = fs[0]
            rep.add(f'C15.schedule[{scn}].observation_is_sequential.{gi}', 'refuted', backend='bounded-runtime', bounded=True,
                    where=f'{len(fs)} schedule(s), e.g. A suspended at its line event {f["k"]}' + (' (roles swapped)' if f['swap'] else '') + f': observed {json.dumps(f["obs"])[:500]}; sequential orders give {json.dumps(r["allowed"])[:500]}',
                    solver_output='bounded controlled-scheduler exploration (not a proof)',
                    replay=dict(kind='C15S', reproduced=True, detail=f'scenario {scn}, preemption of A at line event {f["k"]}, swap={f["swap"]}: {json.dumps(f["obs"])[:300]}', tried=[f['obs']]),
                    replay_script=f"sys.path.insert(0, os.environ.get('VERIF_REPO', {repo!r}))\nfrom props import c15_sched\nsys.exit(c15_sched.replay({scn!r}, {f['k']}, {f['swap']}, os.environ.get('VERIF_REPO', {repo!r})))\n")
        rep.add(f'C15.schedule[{scn}].all_explored_schedules_sequential', 'proved' if not r['fails'] else 'refuted', backend='bounded-runtime', bounded=True,
                where=f'{r["trials"]} schedules (A executes {r["lines"]} beartype lines in the two role assignments; budget {budget} per assignment); {len(r["fails"])} not explained by a sequential order',
                **({} if not r['fails'] else dict(replay=dict(kind='C15S', reproduced=True, detail=f'{len(r["fails"])} schedules', tried=[]),
                   replay_script=f"sys.path.insert(0, os.environ.get('VERIF_REPO', {repo!r}))\nfrom props import c15_sched\nsys.exit(c15_sched.replay({scn!r}, {r['fails'][0]['k']}, {r['fails'][0]['swap']}, os.environ.get('VERIF_REPO', {repo!r})))\n")))
    rep.bounded.append(dict(kind='controlled two-thread scheduler at line granularity inside beartype: one preemption of A per schedule, B atomic (or until it blocks on a lock A holds); oracle = the sequential orders from the same cold (forked) state; bounded stand-in, NOT counted as proved',
                            scenarios=len(SCENARIOS), schedules=tot, budget_per_role_assignment=budget))

def replay(scn, k, swap, repo):
    _prepare(repo)
    allowed = {_key(_child(scn, False, kk, repo)) for kk in (0, -1)}
    o = _child(scn, swap, k, repo)
    print('sequential observations:', sorted(map(str, allowed))); print('schedule observation  :', json.dumps(o))
    bad = 'deadlock' in o or _key(o) not in allowed
    print('REPRODUCED' if bad else 'not reproduced'); return 1 if bad else 0

if __name__ == '__main__':
    sys.exit(replay(sys.argv[1], int(sys.argv[2]), sys.argv[3] == '1', sys.argv[4]))
