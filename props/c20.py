"""C20 - an inferred hint accepts the object it was inferred from.
 (F) infer_hint's recursion guard (function mode): an object whose id() is in the seen-set yields the recursion sentinel after a
     BeartypeDoorInferHintRecursionWarning, without inspecting the object; infer_hint_collection_items adds id(obj) to the set it passes on.
 (S) guard propagation: every recursive infer_hint(...) call under beartype/bite passes the seen-set on (termination for
     self-referential containers: the set strictly grows along every recursive call and is bounded by the reachable objects).
 bounded: is_bearable(obj, infer_hint(obj)) over an object grammar (scalars, nestings, views, ranges, user collections, recursive containers)."""
import ast, os, sys, traceback, itertools, warnings, z3
from pyvc import report, REPO

def propagation(rep):
    n = 0
    for root, ds, fs in os.walk(os.path.join(REPO, 'beartype/bite')):
        for f in fs:
            if not f.endswith('.py'): continue
            p = os.path.join(root, f); rel = os.path.relpath(p, REPO)
            tree = ast.parse(open(p).read())
            for fn in ast.walk(tree):
                if not isinstance(fn, ast.FunctionDef): continue
                params = {a.arg for a in fn.args.args + fn.args.kwonlyargs}
                if '__beartype_obj_ids_seen__' not in params: continue
                for c in ast.walk(fn):
                    if isinstance(c, ast.Call) and isinstance(c.func, ast.Name) and c.func.id in ('infer_hint', 'infer_hint_collection_items', '_infer_hint_mapping_items', '_infer_hint_reiterable_items', 'hint_inferer'):
                        n += 1
                        kw = {k.arg: k.value for k in c.keywords}
                        ok = '__beartype_obj_ids_seen__' in kw and isinstance(kw['__beartype_obj_ids_seen__'], ast.Name) and kw['__beartype_obj_ids_seen__'].id == '__beartype_obj_ids_seen__'
                        rep.add(f'C20.guard_propagated.{rel.split("/")[-1]}:{fn.name}@{c.lineno}', 'proved' if ok else 'refuted', backend='structural',
                                where=f'{rel}:{c.lineno} recursive call {c.func.id}(...) inside {fn.name}() ' + ('passes the seen-set on' if ok else 'DROPS the set of already visited container ids: a self-referential container reached through this call recurses forever'),
                                **({} if ok else replay_recursion()))
    if n < 5: rep.error(f'C20: only {n} recursive inference calls found')

_RR = {}
def replay_recursion():
    if 'r' in _RR: return _RR['r']
    import subprocess
    src = f'''
import sys, warnings; sys.path.insert(0, {REPO!r}); sys.setrecursionlimit(400)
from beartype.door import infer_hint
bad = []
def cases():
    d = {{}}; d["self"] = d; yield "one-entry dict containing itself", d
    l = []; l.append(l); yield "list containing itself", l
    r = [1, "x"]; r.append({{"parent": r}}); yield "list containing a one-entry dict containing the list", r
    t = {{}}; t["a"] = 1; t["me"] = t; yield "two-entry dict containing itself", t
    s = [[]]; s[0].append(s); yield "nested lists in a cycle", s
for label, o in cases():
    with warnings.catch_warnings():
        warnings.simplefilter("ignore")
        try: infer_hint(o)
        except RecursionError: bad.append(label)
print("RecursionError for:", bad)
sys.exit(1 if bad else 0)
'''
    p = subprocess.run([sys.executable, '-c', src], capture_output=True, text=True, timeout=120)
    _RR['r'] = dict(replay=dict(kind='C20', reproduced=p.returncode == 1, tried=[dict(out=(p.stdout + p.stderr)[-300:])], detail=p.stdout.strip()[-200:]), replay_script=src if p.returncode == 1 else None)
    return _RR['r']

def guard(rep):
    from pyvc import funcmode, model as M, discharge, symx
    from pyvc.symx import Exec, St, VObj, VPy, VBool
    import beartype.bite._infermain as mod
    fobj, node, _ = funcmode.load('beartype/bite/_infermain.py', 'infer_hint')
    uni = M.Universe()
    import collections.abc as cabc
    for c in (cabc.Set, cabc.Collection, frozenset, type, str): uni.const(c)
    OBJ = z3.Const('obj', M.Obj); SEEN = z3.Const('seen', M.Obj); CONF = z3.Const('conf', M.Obj)
    def ev(name, ret=None): return lambda ex, s, f, a, kw, w: [(s.ev(name), ret if ret is not None else VObj(M.fresh(name)))]
    def m_bool(name): return lambda ex, s, f, a, kw, w: [(s2, VBool(z3.BoolVal(b))) for s2, b in ex.fork(s.ev(name), z3.Bool(name))]
    cm = {mod.issue_warning: lambda ex, s, f, a, kw, w: [(s.ev('warning', dict(kw).get('warning_cls')), VPy(None))], mod.die_unless_conf: ev('die_unless_conf'), mod.is_hint_pep: m_bool('is_hint_pep'),
          mod.infer_hint_callable: ev('infer_callable'), mod.get_beartype_conf_strategy_on: ev('conf_on'), mod.represent_object: ev('repr')}
    scope = dict(mod.__dict__)
    ex = Exec(uni, scope, call_model=cm, name='infer_hint'); ex.fields_mode = True
    # the loop over the tuple of inferers: each inferer is an abstract callee
    inferers = list(mod._HINT_INFERERS)
    for inf in inferers: ex.call_model[inf] = (lambda nm: lambda ex_, s, f, a, kw, w: [(s.ev('inferer', nm, dict(kw)), VObj(M.fresh('hint')))])(getattr(inf, '__name__', 'inferer'))
    pre = (M.inst(SEEN, uni.const(frozenset)),)
    outs = ex.run_function(node, St((), pre), (VObj(OBJ),), {'conf': VObj(CONF), '__beartype_obj_ids_seen__': VObj(SEEN)}, fobj)
    pr = discharge.Prover(uni.axioms())
    inseen = M.mem(SEEN, M.box_int(M.id_(OBJ)))
    from beartype.roar import BeartypeDoorInferHintRecursionWarning
    n = 0
    for i, (s, v) in enumerate(outs):
        n += 1
        evs = list(s.events)
        guarded = any(e[0] == 'warning' for e in evs)
        r = pr.prove(list(s.pc), z3.BoolVal(guarded) == inseen)
        rep.add(f'C20.infer_hint.post.guard_iff_seen.path{i}', r.status, time=r.time, backend=r.backend, where='the recursion branch is taken exactly when id(obj) is in the set of already visited containers')
        if guarded:
            w = [e for e in evs if e[0] == 'warning']
            ok = isinstance(v, VPy) and v.o is mod.BeartypeInferHintContainerRecursion and isinstance(w[0][1], VPy) and w[0][1].o is BeartypeDoorInferHintRecursionWarning and not any(e[0] in ('inferer', 'infer_callable') for e in evs)
            rep.add(f'C20.infer_hint.post.guard_returns_sentinel.path{i}', 'proved' if ok else 'refuted', backend='structural', where='recursion: a BeartypeDoorInferHintRecursionWarning is issued and the recursion sentinel returned without inspecting the object again')
        for e in evs:
            if e[0] == 'inferer':
                okp = isinstance(e[2].get('__beartype_obj_ids_seen__'), VObj) and e[2]['__beartype_obj_ids_seen__'].t.eq(SEEN)
                rep.add(f'C20.infer_hint.post.passes_seen.{e[1]}.path{i}', 'proved' if okp else 'refuted', backend='structural', where='inferers receive the seen-set')
    if n == 0: rep.error('C20: infer_hint has no returning path')
    # infer_hint_collection_items: the set handed to the item inferers contains id(obj) (strict growth along a recursive descent)
    import beartype.bite.collection.infercollectionitems as cmod
    fobj, node, _ = funcmode.load('beartype/bite/collection/infercollectionitems.py', 'infer_hint_collection_items')
    def m_inf(nm): return lambda ex_, s, f, a, kw, w: [(s.ev('item_inferer', nm, dict(kw)), VObj(M.fresh('hint')))]
    ex = Exec(uni, dict(cmod.__dict__), call_model={cmod._infer_hint_mapping_items: m_inf('mapping'), cmod._infer_hint_reiterable_items: m_inf('reiterable')}, name='collection_items'); ex.fields_mode = True
    uni.const(cabc.Mapping)
    pre = (M.inst(SEEN, uni.const(frozenset)), M.inst(OBJ, uni.const(cabc.Collection)))
    FACT = z3.Const('hint_factory', M.Obj)
    try:
        outs = ex.run_function(node, St((), pre), (), {'obj': VObj(OBJ), 'hint_factory': VObj(FACT), 'conf': VObj(CONF), '__beartype_obj_ids_seen__': VObj(SEEN)}, fobj)
    except symx.Unsupported as e:
        rep.extra['collection_items_unsupported'] = str(e); outs = []
    for i, (s, v) in enumerate(outs):
        for e in s.events:
            if e[0] == 'item_inferer':
                passed = e[2].get('__beartype_obj_ids_seen__')
                ok = passed is not None and not (isinstance(passed, VObj) and passed.t.eq(SEEN))
                rep.add(f'C20.collection_items.post.seen_grows.{e[1]}.path{i}', 'proved' if ok else 'refuted', backend='structural', where='the set passed to the item inferers is the union of the incoming set with {id(obj)} (not the incoming set itself)')

def item_loop(rep):
    """(F) _infer_hint_reiterable_items on a SEQUENCE of any length: the hint handed to the union / fixed-tuple factory contains the
    inferred hint of EVERY item (linear-time strategy and root tuples), respectively is the inferred hint of the sampled item (constant-time
    strategy).  The accumulating local list is a ghost sequence under the loop invariant `list[j] == infer_hint(obj[j]) for all j < i`."""
    from pyvc import funcmode, model as M, discharge, symx
    from pyvc.symx import Exec, St, VObj, VPy, VInt, VTup
    import collections.abc as cabc
    import beartype.bite.collection.infercollectionitems as mod
    import beartype.bite._infermain as mainmod
    from beartype import BeartypeStrategy
    fobj, node, _ = funcmode.load('beartype/bite/collection/infercollectionitems.py', '_infer_hint_reiterable_items')
    uni = M.Universe()
    for c in (cabc.Sized, cabc.Collection, cabc.Sequence, cabc.Iterable, list, tuple, frozenset, object): uni.const(c)
    OBJ = z3.Const('obj', M.Obj); FACT = z3.Const('hint_factory', M.Obj); CONF = z3.Const('conf', M.Obj); SEEN = z3.Const('seen', M.Obj)
    INF = z3.Function('infer_hint_of', M.Obj, M.Obj); R = z3.Int('random_draw')
    def m_inf(ex, s, f, a, kw, w):
        kw = dict(kw); return [(s.ev('infer', ex.obj(kw.get('obj', a[0] if a else None))), VObj(INF(ex.obj(kw.get('obj', a[0] if a else None)))))]
    def m_rand(ex, s, f, a, kw, w): return [(s, VInt(R))]
    def m_made(tag): return lambda ex, s, f, a, kw, w: [(s.ev(tag, ex.obj(a[0])), VObj(M.fresh(tag)))]
    def sub_hook(ex, s, b, i, where):
        if isinstance(b, VObj) and b.t.eq(FACT): return [(s.ev('subscripted', i), VObj(M.fresh('subscripted_factory')))]
        return None
    cm = {mainmod.infer_hint: m_inf, mod.get_integer_pseudorandom_signed_32bit: m_rand, mod.make_hint_pep484585_tuple_fixed: m_made('made_fixed'), mod.make_hint_pep484604_union: m_made('made_union')}
    scope = dict(mod.__dict__); scope['infer_hint'] = mainmod.infer_hint
    ex = Exec(uni, scope, call_model=cm, name='reiterable_items'); ex.fields_mode = True; ex.local_lists = {'hints_item_list'}; ex.subscript_hook = sub_hook
    ex.set_target(node)
    j_ = z3.Int('j_inv')
    def inv(ex_, i, env, B, s):
        L = ex_.obj(env['hints_item_list'])
        return z3.And(M.inst(L, uni.const(list)), M.len_(L) == i, z3.ForAll([j_], z3.Implies(z3.And(0 <= j_, j_ < i), M.item(L, j_) == INF(M.item(OBJ, j_)))))
    ex.loop_contracts = {k: dict(name=f'items{k}', vars=['hints_item_list'], inv=inv) for k in range(len(ex.loop_index))}
    pre = (M.inst(OBJ, uni.const(cabc.Sequence)), M.len_(OBJ) >= 1, M.inst(SEEN, uni.const(frozenset)), 0 <= R)
    body = [st for st in node.body if not isinstance(st, ast.Assert) and not (isinstance(st, ast.Expr) and isinstance(st.value, ast.Constant))]
    env = {'obj': VObj(OBJ), 'hint_factory': VObj(FACT), 'conf': VObj(CONF), '__beartype_obj_ids_seen__': VObj(SEEN)}
    pr = discharge.Prover(uni.axioms())
    # ---- a collection that is NOT a sequence (a set, a view, a user mapping inferred through its keys): the one item inspected by the shortcut /
    #      the constant-time strategy is the FIRST ITERATED item, and the object is never subscripted (obj[k] of a mapping is a value, not an item)
    ex_ns = Exec(uni, scope, call_model=cm, name='reiterable_items_nonseq'); ex_ns.fields_mode = True; ex_ns.local_lists = {'hints_item_list'}; ex_ns.subscript_hook = sub_hook
    ex_ns.set_target(node); ex_ns.loop_contracts = {k: dict(name=f'items{k}', vars=['hints_item_list'], inv=lambda ex_, i, env_, B, s_: z3.BoolVal(True)) for k in range(len(ex_ns.loop_index))}
    pre_ns = (M.inst(OBJ, uni.const(cabc.Collection)), z3.Not(M.inst(OBJ, uni.const(cabc.Sequence))), M.len_(OBJ) >= 1, M.inst(SEEN, uni.const(frozenset)), 0 <= R)
    try: outs_ns = ex_ns.exec_block(body, St(tuple(env.items()), pre_ns))
    except symx.Unsupported as e: rep.error(f'C20.reiterable_items (non-sequence): unsupported: {e}'); outs_ns = []
    for ob in ex_ns.obls:
        if ob.kind.startswith('loop') or ob.kind.startswith('inv') or 'invariant loop over a sequence' in (ob.where or ''): continue      # the whole-collection loops are the sequence lemma's business (below)
        r = pr.prove(list(ob.pc), ob.goal); rep.add(f'C20.reiterable_items.nonsequence.{ob.kind}#{ob.name.rsplit(".", 1)[-1]}', r.status, time=r.time, backend=r.backend, where=ob.where, reason=r.reason)
    k_ns = 0
    for i, (kind, s_, v) in enumerate(outs_ns + [('raise', s2, v2) for s2, v2 in ex_ns.raised]):
        subs = [e for e in s_.effects if e[0] in ('getitem_int', 'getitem_key') and e[1] is not None and e[1].eq(OBJ)]
        if subs: rep.add(f'C20.reiterable_items.nonsequence.post.never_subscripted.path{i}', 'refuted', backend='structural', where=f'a collection that is not a sequence is subscripted ({subs[0][0]}): for a mapping that yields a VALUE, not one of the items the inferred hint describes')
        if kind != 'return': continue
        if [e for e in s_.events if e[0] in ('made_fixed', 'made_union')]: continue
        infs = [e[1] for e in s_.events if e[0] == 'infer']; k_ns += 1
        r = pr.prove(list(s_.pc), infs[0] == M.first(OBJ)) if len(infs) == 1 else None
        rep.add(f'C20.reiterable_items.nonsequence.post.first_iterated_item.path{i}', r.status if r else 'refuted', time=r.time if r else 0, backend=r.backend if r else 'structural', reason=r.reason if r else '',
                where='one-item shortcut / constant-time strategy on a non-sequence: the hint of the first ITERATED item is inferred')
    if not k_ns and not any(o['status'] == 'refuted' and 'nonsequence' in o['name'] for o in rep.obls): rep.error('C20.reiterable_items (non-sequence): no single-item path')
    outs = ex.exec_block(body, St(tuple(env.items()), pre))
    for ob in ex.obls:
        r = pr.prove(list(ob.pc), ob.goal); rep.add(f'C20.reiterable_items.{ob.kind}#{ob.name.rsplit(".", 1)[-1]}', r.status, time=r.time, backend=r.backend, where=ob.where, reason=r.reason)
    n = 0; jj = z3.Int('j_post')
    O1 = uni.const(BeartypeStrategy.O1)
    for i, (kind, s_, v) in enumerate(outs):
        if kind != 'return': continue
        n += 1
        made = [e for e in s_.events if e[0] in ('made_fixed', 'made_union')]
        if made:
            arg = made[-1][1]
            r = pr.prove(list(s_.pc), z3.ForAll([jj], z3.Implies(z3.And(0 <= jj, jj < M.len_(OBJ)), M.mem(arg, INF(M.item(OBJ, jj))))))
            rep.add(f'C20.reiterable_items.post.every_item_contributes.path{i}', r.status, time=r.time, backend=r.backend, reason=r.reason,
                    where=f'the child hints handed to {made[-1][0][5:]} include infer_hint(item) for EVERY item of the sequence (any length)')
        else:
            infs = [e[1] for e in s_.events if e[0] == 'infer']
            ok = len(infs) == 1
            r = pr.prove(list(s_.pc), z3.Or(*[infs[0] == M.item(OBJ, R % M.len_(OBJ))] if ok else [z3.BoolVal(False)]))
            rep.add(f'C20.reiterable_items.post.sampled_item.path{i}', r.status if ok else 'refuted', time=r.time, backend=r.backend, where='constant-time strategy / one item: the hint of the item at index draw mod len is inferred (an item of the object itself)')
    if not n: rep.error('C20.reiterable_items: no returning path')

GRAMMAR_SCALARS = ['1', 'True', "'a'", '2.5', 'None', "b'x'", '1j', 'L0()', 'HasMeth()']
def objects(tier):
    out = list(GRAMMAR_SCALARS)
    d1 = []
    for a in GRAMMAR_SCALARS[:7]:
        d1 += [f'[{a}]', f'[{a}, {a}]', f'({a},)', f'({a}, 1)', f'{{{a}}}' if a not in ('None',) or True else '', f'frozenset([{a}])', f'{{{a}: {a}}}', f'{{1: {a}, 2: {a}}}', f'deque([{a}])', f'Counter([{a}])',
               f'defaultdict(list, {{1: {a}}})', f'OrderedDict({{1: {a}}})', f'ChainMap({{1: {a}}})', f'{{{a}: 1}}.keys()', f'{{1: {a}}}.values()', f'{{1: {a}}}.items()', f'UserSeq([{a}])', f'UserSet([{a}])', f'UserMap({{1: {a}}})', f'UserMap({{0: {a}}})', f'UserDict({{0: {a}}})', f'UserColl([{a}])']
    d1 += ['[]', '()', '{}', 'set()', 'frozenset()', 'deque()', 'range(3)', 'range(0)', '[1, "a"]', '(1, "a", 2.5)', '{1, "a"}', '{1: "a", "b": 2}', '[1, None]', '[[1], ["a"]]', '[[], [1]]', '{"k": [1, "a"]}', '[{"a": 1}, {"b": "c"}]',
           '([1], {"a": (1, 2)})', '[(1, "a"), (2, "b")]', '{(1, 2): [3]}', '[1, [2, [3, ["x"]]]]', 'tuple(range(30))', '[[1, 2], [3, 4]]', 'b"abc"', 'bytearray(b"x")', 'memoryview(b"x")', '{"a": 1}.items()',
           "{1: [1]}.items()", "{1: {2: 3}}.values()", 'UserSeq([UserSeq([1])])', '[UserMap({1: [1]})]', '[L0(), L2()]', '[L0, L1]', '[int, str]', '[len, print]', '(lambda: 0)', 'len', 'L0', 'int', '[list[int]]', '(List[int], 3)', '{1: Optional[int]}', '[Union[int, str]]', '[1, list[int]]',
           # enum members, views of dict subclasses, Counter with non-int counts, string-like user sequences, C method descriptors, duck-typed containers
           'CR', '[CR]', '{"k": CR}', 'OrderedDict({1: 2}).keys()', 'OrderedDict({1: 2}).values()', 'OrderedDict({1: 2}).items()', 'Counter({"a": 1.5})', 'Counter({"a": 2})',
           'UserString("ab")', 'str.upper', 'list.append', '[].__len__', 'DuckSeq([1])', 'defaultdict(list).keys()', 'ChainMap({1: 2}).keys()',
           # items that compare (and hash) equal but differ in type
           '[1, 1.0]', '[1.0, 1]', '[0, False, 0.0]', '[True, 1]', '{"k": [2, 2.0]}', '(7, 7.0) * 6', 'deque([1, 1.0, True])', '[(1,), (1.0,)]', 'UserSeq([1, 1.0])', '{1: 1.0, 2: 1}', '[1j, 1, 1.0]', '[[1, 1.0], [True]]',
           '{1.0: "a", 2: "b"}', 'frozenset([1, 2.0])', '[b"a", "a"]', '["", 0, None, 0.0]']
    d2 = [f'[{x}]' for x in d1[:60]] + [f'({x}, 1)' for x in d1[:40] if 'keys()' not in x] + [f'{{"k": {x}}}' for x in d1[:40]]
    out += d1 + (d2 if tier != 'quick' else d2[::4])
    return out

def bounded(rep, tier):
    from pyvc import shapes, replaylib
    from beartype.door import infer_hint, is_bearable
    from beartype.roar import BeartypeDoorInferHintRecursionWarning
    from typing import List, Optional, Union
    NS = dict(shapes.NS); NS.update(List=List, Optional=Optional, Union=Union)
    import collections as _c
    class DuckSeq:
        """has every method of a Sequence but inherits from no ABC (isinstance(DuckSeq(...), Sequence) is False)"""
        def __init__(self, items): self._i = list(items)
        def __len__(self): return len(self._i)
        def __getitem__(self, k): return self._i[k]
        def __iter__(self): return iter(self._i)
        def __contains__(self, x): return x in self._i
        def __reversed__(self): return reversed(self._i)
        def index(self, x): return self._i.index(x)
        def count(self, x): return self._i.count(x)
    NS.update(UserString=_c.UserString, DuckSeq=DuckSeq, UserDict=_c.UserDict)
    cases = 0; fails = []
    from beartype import BeartypeConf, BeartypeStrategy
    CONF_ON = BeartypeConf(strategy=BeartypeStrategy.On)
    from beartype._util.hint.pep.utilpeptest import is_hint_pep
    for src in objects(tier):
        try: o = eval(src, NS)
        except Exception: continue
        try:
            if is_hint_pep(o): continue
        except Exception: pass        # the hint detector itself fails on this object: certainly not a hint
        cases += 1
        try:
            with warnings.catch_warnings():
                warnings.simplefilter('ignore')
                h = infer_hint(o)
            o2 = eval(src, NS)
            ok = is_bearable(o2 if not hasattr(o2, '__next__') else o, h)
            if ok is not True: fails.append((src, f'infer_hint -> {h!r}; is_bearable is {ok}'))
            else:
                # "describes the object at full depth": every item, not only the sampled one
                o3 = eval(src, NS)
                okn = is_bearable(o3 if not hasattr(o3, '__next__') else o, h, conf=CONF_ON)
                if okn is not True: fails.append((src, f'infer_hint -> {h!r}; is_bearable under the linear-time strategy (every item) is {okn}'))
        except Exception as e: fails.append((src, f'{type(e).__name__}: {e}'[:200]))
    # self-referential containers terminate with the recursion warning
    def rec_cases():
        l = []; l.append(l); yield 'l = []; l.append(l)', l
        d = {}; d['self'] = d; yield "d = {}; d['self'] = d", d
        r = [1, 'x']; r.append({'parent': r}); yield "r = [1, 'x']; r.append({'parent': r})", r
        t = {'a': 1}; t['me'] = t; yield "t = {'a': 1}; t['me'] = t", t
        s = [[]]; s[0].append(s); yield 's = [[]]; s[0].append(s)', s
        u = ([],); u[0].append(u); yield 'u = ([],); u[0].append(u)', u
    old = sys.getrecursionlimit(); sys.setrecursionlimit(500)
    try:
        for label, o in rec_cases():
            cases += 1
            with warnings.catch_warnings(record=True) as w:
                warnings.simplefilter('always')
                try:
                    h = infer_hint(o)
                    if not any(issubclass(x.category, BeartypeDoorInferHintRecursionWarning) for x in w): fails.append((label, 'self-referential container inferred without the recursion warning'))
                except RecursionError: fails.append((label, 'RecursionError instead of the recursion warning'))
                except Exception as e: fails.append((label, f'{type(e).__name__}: {e}'[:160]))
    finally: sys.setrecursionlimit(old)
    # look-alike scalars and history: a str / int / tuple SUBCLASS instance (enum members included) that compares and hashes equal to a plain value seen
    # EARLIER - by infer_hint itself or by a check that used the plain value as a hint - is still described by its own hint
    import enum as _enum
    class ModeS(str, _enum.Enum): SAFE = 'safe'
    class ModeI(_enum.IntEnum): ONE = 1
    class MyStr(str): pass
    class MyTuple(tuple): pass
    for label, prime, mk in (('str-enum member after the equal plain str', lambda: infer_hint('safe'), lambda: ModeS.SAFE), ('str subclass after a container holding the equal plain str', lambda: infer_hint({'safe': 1}), lambda: MyStr('safe')),
                             ('str-enum member after a check against the forward reference of that name', lambda: _try(lambda: is_bearable(0, 'safe')), lambda: ModeS.SAFE),
                             ('int-enum member after the equal int', lambda: infer_hint(1), lambda: ModeI.ONE), ('tuple subclass after the equal tuple', lambda: infer_hint((1, 'a')), lambda: MyTuple((1, 'a')))):
        cases += 1
        try:
            with warnings.catch_warnings():
                warnings.simplefilter('ignore')
                prime(); o = mk(); h = infer_hint(o)
                if is_bearable(o, h) is not True: fails.append((f'history: {label}', f'infer_hint -> {h!r}; is_bearable is False'))
        except Exception as e: fails.append((f'history: {label}', f'{type(e).__name__}: {e}'[:200]))
    groups = {}
    for src, msg in fails: groups.setdefault(classify(src, msg), []).append((src, msg))
    for sig, items in sorted(groups.items()):
        items.sort(key=lambda t: len(t[0])); src, msg = items[0]
        rep.add(f'C20.grammar.{sig}', 'refuted', backend='runtime-contract', where=f'{len(items)} objects; e.g. {src}: {msg}'[:400], solver_output='bounded run-time contract on the real API (not a proof)',
                replay=dict(reproduced=True, detail=f'{src}: {msg}'[:300]), replay_script=f'print({items[:3]!r}); sys.exit(1)\n')
    rep.bounded.append(dict(kind='is_bearable(obj, infer_hint(obj)) over an object grammar + self-referential containers (bounded stand-in, NOT counted as proved)', objects=cases, failing=len(fails)))

def sibling_sweep(rep, tier):
    """BOUNDED stand-in (never counted as proved), derived from the REAL inference state machine: genuine instances of every collections.abc
    base (and of the builtin containers) that ALSO define methods belonging to a sibling protocol of the state machine - one extra method at
    a time, every pair out of one sibling's key, and a sibling's whole key - must still be described by their inferred hint.  The method
    names are read from get_finite_state_machine() on every run."""
    import collections.abc as cabc, types, itertools
    from beartype.door import infer_hint, is_bearable
    from beartype import BeartypeConf, BeartypeStrategy
    from beartype.bite.collection import infercollectionsabc as fsm_mod
    CONF_ON = BeartypeConf(strategy=BeartypeStrategy.On)
    keys = []
    def walk(node):
        for k, nx in (getattr(node, 'nodes_next', None) or {}).items():
            keys.append((getattr(getattr(nx, 'hint_factory', None), '__name__', None) or repr(getattr(nx, 'hint_factory', None)), frozenset(k))); walk(nx)
    walk(fsm_mod.get_finite_state_machine())
    if not keys: rep.error('C20 sibling_sweep: the inference state machine has no transitions (extraction key no longer resolves)'); return
    class Seq(cabc.Sequence):
        def __init__(self, x=(1, 2)): self._x = list(x)
        def __getitem__(self, i): return self._x[i]
        def __len__(self): return len(self._x)
    class MSeq(cabc.MutableSequence):
        def __init__(self, x=(1, 2)): self._x = list(x)
        def __getitem__(self, i): return self._x[i]
        def __len__(self): return len(self._x)
        def __setitem__(self, i, v): self._x[i] = v
        def __delitem__(self, i): del self._x[i]
        def insert(self, i, v): self._x.insert(i, v)
    class Map(cabc.Mapping):
        def __init__(self, x=((1, 'a'),)): self._x = dict(x)
        def __getitem__(self, k): return self._x[k]
        def __iter__(self): return iter(self._x)
        def __len__(self): return len(self._x)
    class MMap(cabc.MutableMapping):
        def __init__(self, x=((1, 'a'),)): self._x = dict(x)
        def __getitem__(self, k): return self._x[k]
        def __iter__(self): return iter(self._x)
        def __len__(self): return len(self._x)
        def __setitem__(self, k, v): self._x[k] = v
        def __delitem__(self, k): del self._x[k]
    class St(cabc.Set):
        def __init__(self, x=(1, 2)): self._x = set(x)
        def __contains__(self, v): return v in self._x
        def __iter__(self): return iter(self._x)
        def __len__(self): return len(self._x)
    class MSt(cabc.MutableSet):
        def __init__(self, x=(1, 2)): self._x = set(x)
        def __contains__(self, v): return v in self._x
        def __iter__(self): return iter(self._x)
        def __len__(self): return len(self._x)
        def add(self, v): self._x.add(v)
        def discard(self, v): self._x.discard(v)
    class Coll(cabc.Collection):
        def __contains__(self, v): return v in (1, 2)
        def __iter__(self): return iter((1, 2))
        def __len__(self): return 2
    class Rev(cabc.Reversible):
        def __iter__(self): return iter((1, 2))
        def __reversed__(self): return iter((2, 1))
    class Itb(cabc.Iterable):
        def __iter__(self): return iter((1, 2))
    class Cont(cabc.Container):
        def __contains__(self, v): return False
    class Sz(cabc.Sized):
        def __len__(self): return 0
    class L(list): pass
    class D(dict): pass
    class S(set): pass
    class T(tuple): pass
    BASES = [(Seq, ()), (MSeq, ()), (Map, ()), (MMap, ()), (St, ()), (MSt, ()), (Coll, ()), (Rev, ()), (Itb, ()), (Cont, ()), (Sz, ()), (L, ([1],)), (D, ({1: 'a'},)), (S, ({1},)), (T, ((1, 'a'),))]
    def stub(name):
        if name == '__reversed__': return lambda self: iter(())
        if name in ('__iter__', '__aiter__'): return lambda self: iter(())
        if name == '__len__': return lambda self: 0
        if name in ('__eq__',): return lambda self, o: self is o
        if name in ('__ne__',): return lambda self, o: self is not o
        if name == '__hash__': return lambda self: id(self)
        return lambda self, *a, **k: None
    cases = 0; fails = []
    def trial(base, args, extra, kind):
        nonlocal cases
        probe = base(*args)
        extra = tuple(sorted(n for n in extra if getattr(probe, n, None) is None))
        if not extra: return
        cls = type(base.__name__ + '_with_' + '_'.join(x.strip('_') for x in extra)[:40], (base,), {n: stub(n) for n in extra})
        cases += 1
        try:
            with warnings.catch_warnings():
                warnings.simplefilter('ignore')
                o = cls(*args); h = infer_hint(o)
                for conf in (None, CONF_ON):
                    ok = is_bearable(cls(*args), h) if conf is None else is_bearable(cls(*args), h, conf=conf)
                    if ok is not True:
                        fails.append((kind, base.__name__, extra, f'infer_hint -> {h!r}; is_bearable is {ok}')); break
        except Exception as e: fails.append((kind, base.__name__, extra, f'{type(e).__name__}: {e}'[:200]))
    allnames = sorted(set().union(*[k for _, k in keys]))
    for base, args in BASES:
        for n in allnames: trial(base, args, (n,), 'one_extra_method')
        for abc_name, k in keys:
            trial(base, args, tuple(k), 'whole_sibling_key')
            if tier != 'quick' or len(k) <= 4:
                for pair in itertools.combinations(sorted(k), 2): trial(base, args, pair, 'two_extra_methods')
    # objects of builtin types nobody can subclass, which nevertheless carry sibling methods
    for label, mk in (('mappingproxy', lambda: types.MappingProxyType({1: 'a'})), ('class __dict__', lambda: vars(Seq)), ('dict keys view', lambda: {1: 'a'}.keys()), ('dict items view', lambda: {1: 'a'}.items()),
                      ('range', lambda: range(3)), ('memoryview', lambda: memoryview(b'ab')), ('bytes', lambda: b'ab'), ('str', lambda: 'ab')):
        cases += 1
        try:
            with warnings.catch_warnings():
                warnings.simplefilter('ignore')
                h = infer_hint(mk())
                if is_bearable(mk(), h) is not True or is_bearable(mk(), h, conf=CONF_ON) is not True: fails.append(('builtin', label, (), f'infer_hint -> {h!r}; is_bearable is False'))
        except Exception as e: fails.append(('builtin', label, (), f'{type(e).__name__}: {e}'[:200]))
    groups = {}
    for kind, b, extra, msg in fails: groups.setdefault((kind, b), []).append((extra, msg))
    for (kind, b), items in sorted(groups.items()):
        items.sort(key=lambda t: len(t[0])); extra, msg = items[0]
        rep.add(f'C20.sibling.{kind}[{b}]', 'refuted', backend='runtime-contract', bounded=True, where=f'{len(items)} classes; e.g. a genuine {b} that also defines {list(extra)}: {msg}'[:500],
                solver_output='bounded run-time contract on the real API (not a proof)', replay=dict(reproduced=True, detail=f'{b} + {list(extra)}: {msg}'[:300]), replay_script=f'print({[(b, e, m) for e, m in items[:4]]!r}); sys.exit(1)\n')
    if not cases: rep.error('C20 sibling_sweep: no case ran')
    rep.bounded.append(dict(kind='genuine collections.abc / builtin container instances carrying methods of sibling protocols of the REAL inference state machine (one, two, or a whole sibling key): is_bearable(obj, infer_hint(obj)); bounded stand-in, NOT counted as proved',
                            classes=cases, transitions=len(keys), failing=len(fails)))

def _try(f):
    try: return f()
    except Exception: return None

def classify(src, msg):
    if src.startswith('history:'): return 'lookalike_after_equal_plain_value'
    if 'UserString' in src: return 'userstring'
    if 'CR' in src.replace('"', ' ').replace('[', ' ').replace(']', ' ').split() or src == 'CR' or 'CR}' in src: return 'enum_member'
    if 'OrderedDict(' in src and ('.keys()' in src or '.values()' in src): return 'odict_view'
    if src.startswith('Counter(') and '.' in src: return 'counter_nonint'
    if src in ('str.upper', 'list.append', '[].__len__'): return 'c_method_descriptor'
    if 'DuckSeq' in src: return 'duck_typed_sequence'
    if 'RecursionError' in msg or 'recursion warning' in msg: return 'recursion'
    if 'list[int]' in src or 'List[' in src or 'Optional[' in src or 'Union[' in src: return 'container_holding_a_hint'
    if '.items()' in src: return 'items_view'
    if '.values()' in src or '.keys()' in src: return 'view'
    if 'User' in src: return 'user_collection'
    return 'other'

def main(tier, seed):
    rep = report.Report('C20', tier, seed, 'other', f'./check C20 --tier {tier}')
    for fn in (propagation, guard, item_loop):
        try: fn(rep)
        except Exception: rep.error(f'C20 {fn.__name__}: ' + traceback.format_exc()[-2500:])
    try: bounded(rep, tier)
    except Exception: rep.error('C20 bounded: ' + traceback.format_exc()[-2500:])
    try: sibling_sweep(rep, tier)
    except Exception: rep.error('C20 sibling_sweep: ' + traceback.format_exc()[-2500:])
    files = ['beartype/bite/_infermain.py', 'beartype/bite/collection/infercollectionitems.py', 'beartype/bite/collection/infercollectionbuiltin.py', 'beartype/bite/collection/infercollectionsabc.py']
    rep.functions = ['bite._infermain.infer_hint (mode F: recursion guard)', 'infercollectionitems.infer_hint_collection_items (mode F: seen-set growth)', 'all recursive inference calls under beartype/bite (structural propagation)'] + [f'{p}@{report.src_hash(p)}' for p in files]
    from pyvc import model as M
    rep.trusted = ['pyvc', 'z3'] + M.ASSUMED_SEMANTICS
    rep.assumptions = ['the postcondition [[infer_hint(o)]](o) itself is only explored by the bounded object grammar: the collections.abc inference state machine and third-party inferers are outside the function-mode subset',
                       'termination argument (stated, not mechanised): the seen-set strictly grows along every recursive call and is bounded by the ids of the reachable containers']
    rep.extra['explanation'] = 'recursion-guard obligations in function mode and structurally; round trip through the checker over an object grammar (bounded)'
    return rep.finish()
