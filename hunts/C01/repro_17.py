# A dotted forward reference to a nested class ("Outer.Inner") that is not yet
# defined at decoration time can never be resolved at call time: beartype
# mistakes "Outer" for a module name.
import sys
from beartype import beartype

@beartype
def first(x: 'Outer.Inner') -> 'list[Outer.Inner]':     # function defined above the class
    return [x]

class Outer:
    @beartype                                           # nested class decorated directly
    class Inner:                                        # (this is also what beartype.claw does)
        def clone(self) -> 'Outer.Inner':
            return Outer.Inner()

bad = 0
for name, call in (('first(Outer.Inner())', lambda: first(Outer.Inner())),
                   ('Outer.Inner().clone()', lambda: Outer.Inner().clone())):
    try:
        print(name, '->', call())
    except Exception as e:
        bad += 1
        print(name, '->', type(e).__name__, str(e)[:260])
# Control: the very same reference resolves fine once the class already exists.
@beartype
def later(x: 'Outer.Inner') -> 'Outer.Inner':
    return x
print('control:', later(Outer.Inner()))
sys.exit(1 if bad else 0)
