# copy.copy() / copy.deepcopy() / pickle round-trip of a non-default
# BeartypeConf returns the *default* configuration singleton after overwriting
# its slots with the copied configuration's state. From then on the default
# configuration silently applies is_pep484_tower / hint_overrides /
# violation_type of the copied configuration, process-wide.
import copy, sys, warnings
from beartype import beartype, BeartypeConf, FrozenDict
from beartype.door import is_bearable, die_if_unbearable

before = (is_bearable((1,), tuple[float, ...]), is_bearable({'s'}, set[bytes]))
print('default conf before:  (1,) vs tuple[float, ...] ->', before[0], '| {"s"} vs set[bytes] ->', before[1])

conf = BeartypeConf(
    is_pep484_tower=True,
    hint_overrides=FrozenDict({bytes: str}),
    violation_type=UserWarning,
)
clone = copy.deepcopy(conf)          # same with copy.copy(conf) or pickle.loads(pickle.dumps(conf))
print('clone is the default singleton:', clone is BeartypeConf(), '| BeartypeConf().is_pep484_tower =', BeartypeConf().is_pep484_tower)

after = (is_bearable((1,), tuple[float, ...]), is_bearable({'s'}, set[bytes]))
print('default conf after:   (1,) vs tuple[float, ...] ->', after[0], '| {"s"} vs set[bytes] ->', after[1])

@beartype                      # plain decorator, default configuration
def f(x: bytes) -> None: pass
with warnings.catch_warnings(record=True) as w:
    warnings.simplefilter('always')
    try:
        f('not bytes'); r1 = 'accepted'
    except Exception as e:
        r1 = 'raised ' + type(e).__name__
    try:
        f(b'bytes'); r2 = 'warned ' + w[-1].category.__name__ if w else 'accepted'
    except Exception as e:
        r2 = 'raised ' + type(e).__name__
print('@beartype def f(x: bytes):  f("not bytes") ->', r1, '| f(b"bytes") ->', r2)
ok = (after == before) and r1.startswith('raised') and r2 == 'accepted' and not BeartypeConf().is_pep484_tower
sys.exit(0 if ok else 1)
