# Enum members are inferred as collections.abc.Collection and rejected.
import enum, signal
from beartype.door import infer_hint, is_bearable

class Color(enum.Enum):
    RED = 1

bad = 0
for obj in (Color.RED, signal.SIGINT, [Color.RED], {'k': Color.RED}):
    hint = infer_hint(obj)
    ok = is_bearable(obj, hint)
    print(f'{obj!r}: hint={hint!r} -> is_bearable={ok}')
    bad += ok is not True
raise SystemExit(1 if bad else 0)
