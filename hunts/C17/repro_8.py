# The memoisation cache is keyed on the option values only, not on the class:
# BeartypeConf subclasses and BeartypeConf itself hand out each other's
# instances depending on which was called first.
import sys
from beartype import BeartypeConf

class MyConf(BeartypeConf):
    __slots__ = ()

a = MyConf()                               # default options were already cached by "import beartype"
print('type(MyConf())                      :', type(a).__name__)
b = MyConf(is_pep557_fields=True)          # first creation of these options -> MyConf
c = BeartypeConf(is_pep557_fields=True)    # later plain creation -> the MyConf instance
print('type(MyConf(is_pep557_fields=True)) :', type(b).__name__)
print('type(BeartypeConf(is_pep557_fields=True)):', type(c).__name__)
sys.exit(1 if (not isinstance(a, MyConf) or type(c) is not BeartypeConf) else 0)
