# Callables with non-type annotations whose parameters need typing.Concatenate
# (i.e. any optional / variadic / keyword-only parameter follows them).
from beartype.door import infer_hint, is_bearable

def plot(x: 'x coordinate', y: 'y coordinate', **style): pass   # docstring-style annotations
def scale(v: (int, float), factor=2): pass                      # tuple-of-types annotation
def plain(x: 'x coordinate', y: 'y coordinate'): pass           # same annotations, no Concatenate: fine

bad = 0
for f in (plain, plot, scale):
    try:
        hint = infer_hint(f)
        ok = is_bearable(f, hint)
        print(f'{f.__name__}: hint={hint!r} -> {ok}'); bad += ok is not True
    except Exception as e:
        print(f'{f.__name__}: raised {type(e).__name__}: {e}'); bad += 1
raise SystemExit(1 if bad else 0)
