"""C15 - thread safety: OWNERSHIP obligations only (DESIGN 4/C15).  Per-function verification conditions do not range over
interleavings; what contracts can carry is which lock owns which table:
  guarded_by   every read/write of a shared table is lexically inside `with <its lock>` - or inside a function that is only
               ever called from such regions (call-graph closure, computed on the real ASTs)
  lock_order   the lexical nesting graph of the locks is acyclic
  pool         an object released to an object pool is not used afterwards in the releasing function
These are STRUCTURAL obligations decided by resolution over the real AST - not SMT proofs, and nothing about schedules."""
import ast, os, sys, traceback
from pyvc import report, REPO

def parse(rel):
    return ast.parse(open(os.path.join(REPO, rel)).read())

class Walker(ast.NodeVisitor):
    """records, for every access matching `is_access`, the stack of enclosing `with` context expressions and the enclosing function"""
    def __init__(self, is_access, lock_of):
        self.is_access, self.lock_of = is_access, lock_of
        self.withs = []; self.funcs = []; self.out = []; self.calls = []; self.nest = []
    def visit_With(self, n):
        locks = [self.lock_of(i.context_expr) for i in n.items]; locks = [l for l in locks if l]
        for l in locks:
            for outer in self.withs: self.nest.append((outer, l, n.lineno))
        self.withs += locks
        for i in n.items: self.visit(i.context_expr)
        for b in n.body: self.visit(b)
        for _ in locks: self.withs.pop()
    visit_AsyncWith = visit_With
    def visit_FunctionDef(self, n):
        self.funcs.append(n.name); saved = self.withs; self.withs = []
        self.generic_visit(n)
        self.withs = saved; self.funcs.pop()
    visit_AsyncFunctionDef = visit_FunctionDef
    def visit_Call(self, n):
        nm = n.func.id if isinstance(n.func, ast.Name) else (n.func.attr if isinstance(n.func, ast.Attribute) else None)
        if nm: self.calls.append((nm, tuple(self.withs), self.funcs[-1] if self.funcs else None, n.lineno))
        self.generic_visit(n)
    def generic_visit(self, n):
        a = self.is_access(n)
        if a: self.out.append((a, tuple(self.withs), self.funcs[-1] if self.funcs else None, getattr(n, 'lineno', 0)))
        super().generic_visit(n)

def self_field_guard(rep, rel, cls, fields, lock, exempt=('__init__',)):
    tree = parse(rel)
    c = next(n for n in ast.walk(tree) if isinstance(n, ast.ClassDef) and n.name == cls)
    def acc(n):
        if isinstance(n, ast.Attribute) and isinstance(n.value, ast.Name) and n.value.id == 'self' and n.attr in fields: return n.attr
    def lk(e):
        if isinstance(e, ast.Attribute) and isinstance(e.value, ast.Name) and e.value.id == 'self' and e.attr == lock: return lock
    w = Walker(acc, lk); w.visit(c)
    n = 0
    for field, withs, fn, line in w.out:
        if fn in exempt: continue
        n += 1
        ok = lock in withs
        rep.add(f'C15.guarded_by.{cls}.{field}.{fn}@{line}', 'proved' if ok else 'refuted', backend='structural', where=f'{rel}:{line} access of self.{field} in {fn}() ' + ('inside' if ok else 'OUTSIDE') + f' `with self.{lock}`',
                solver_output='lexical enclosure resolved on the real AST')
    # a LOCAL ALIAS of a guarded table (or of one of its entries) taken under the lock is still the shared structure: it must not be used after
    # the lock is released (`pool = self._key_to_pool[key]` inside, `pool.pop()` outside is the same race as touching the table itself)
    for fn in [x for x in ast.walk(c) if isinstance(x, (ast.FunctionDef, ast.AsyncFunctionDef)) and x.name not in exempt]:
        regions = [wn for wn in ast.walk(fn) if isinstance(wn, ast.With) and any(lk(i.context_expr) for i in wn.items)]
        inside = {id(x) for wn in regions for x in ast.walk(wn)}
        aliases = {}
        for wn in regions:
            for a_ in ast.walk(wn):
                if isinstance(a_, ast.Assign) and len(a_.targets) == 1 and isinstance(a_.targets[0], ast.Name) and any(acc(x) for x in ast.walk(a_.value)):
                    # a value COPIED out of the table (an immutable result such as a popped item) is not an alias; a subscript / attribute of the table is
                    v_ = a_.value
                    if isinstance(v_, (ast.Subscript, ast.Attribute)) or (isinstance(v_, ast.Call) and isinstance(v_.func, ast.Attribute) and v_.func.attr in ('get', 'setdefault')):
                        aliases[a_.targets[0].id] = a_.lineno
        for nm, ln in aliases.items():
            uses = [x for x in ast.walk(fn) if isinstance(x, ast.Name) and x.id == nm and isinstance(x.ctx, ast.Load) and id(x) not in inside and x.lineno > ln]
            # returning the alias'ed ITEM itself to the caller hands over ownership (that is what a pool does): only dereferencing uses count
            deref = [x for x in uses if any(isinstance(p_, (ast.Attribute, ast.Subscript, ast.Call)) and (getattr(p_, 'value', None) is x or getattr(p_, 'func', None) is x) for p_ in ast.walk(fn))]
            deref += [x for x in uses if any(isinstance(p_, (ast.IfExp, ast.If, ast.While, ast.BoolOp, ast.UnaryOp)) and x in ast.walk(p_) for p_ in ast.walk(fn) if not isinstance(p_, (ast.FunctionDef,)))] if uses else []
            n += 1
            rep.add(f'C15.guarded_by.{cls}.alias.{fn.name}.{nm}@{ln}', 'proved' if not deref else 'refuted', backend='structural',
                    where=f'{rel}:{ln} local alias `{nm}` of a guarded table entry ' + ('is only used under the lock' if not deref else f'is dereferenced / tested OUTSIDE `with self.{lock}` at line(s) {sorted({x.lineno for x in deref})[:4]}'))
    if n == 0: rep.error(f'C15: no access of {cls}.{fields} found in {rel} (extraction key no longer resolves)')
    return w

def module_var_guard(rep, rel, var, lock, exempt_funcs=()):
    tree = parse(rel)
    def acc(n):
        if isinstance(n, ast.Name) and n.id == var: return var
    def lk(e):
        if isinstance(e, ast.Name) and e.id == lock: return lock
    w = Walker(acc, lk); w.visit(tree)
    n = 0
    for v, withs, fn, line in w.out:
        if fn is None or fn in exempt_funcs: continue     # module level: the definition itself
        n += 1; ok = lock in withs
        rep.add(f'C15.guarded_by.{var}.{fn}@{line}', 'proved' if ok else 'refuted', backend='structural', where=f'{rel}:{line} access of {var} in {fn}() ' + ('inside' if ok else 'OUTSIDE') + f' `with {lock}`')
    if n == 0: rep.error(f'C15: no access of {var} found in {rel}')
    return w

CLAW_FILES = ['beartype/claw/_package/clawpkgmain.py', 'beartype/claw/_package/clawpkgtrie.py', 'beartype/claw/_package/clawpkgcontext.py', 'beartype/claw/_package/_clawpkgmake.py',
              'beartype/claw/_importlib/clawimpmain.py', 'beartype/claw/_clawstate.py', 'beartype/claw/_clawmain.py', 'beartype/claw/_importlib/_clawimpfilefinder.py',
              'beartype/claw/_importlib/_clawimpfileloader.py', 'beartype/claw/_importlib/clawimpcache.py']
CLAW_GUARDED = ('packages_trie_whitelist', 'packages_trie_blacklist', 'beartype_path_hook')
CLAW_EXEMPT = {'reinit': 'test-only reset of BeartypeClawState', '__init__': 'construction'}

def claw_guard(rep):
    """claw_state.<guarded attr> only under `with claw_lock`, transitively: a function accessing it outside a lock must be
    called only from guarded regions (or from other such functions), and must not be a public entry point"""
    W = {}
    def acc(n):
        if isinstance(n, ast.Attribute) and n.attr in CLAW_GUARDED and isinstance(n.value, ast.Name) and n.value.id in ('claw_state', 'self'): return n.attr
    def lk(e):
        if isinstance(e, ast.Name) and e.id == 'claw_lock': return 'claw_lock'
    for rel in CLAW_FILES:
        if not os.path.exists(os.path.join(REPO, rel)): rep.error(f'C15: {rel} missing'); continue
        w = Walker(acc, lk); w.visit(parse(rel)); W[rel] = w
    need = {}    # function name -> [(rel, line, attr)] accesses outside a lock
    total = 0
    for rel, w in W.items():
        for attr, withs, fn, line in w.out:
            if fn in CLAW_EXEMPT or fn is None: continue
            total += 1
            if 'claw_lock' not in withs: need.setdefault(fn, []).append((rel, line, attr))
            else: rep.add(f'C15.guarded_by.claw_state.{attr}.{fn}@{line}', 'proved', backend='structural', where=f'{rel}:{line} inside `with claw_lock`')
    if total == 0: rep.error('C15: no claw_state access found')
    # closure: a function that touches the registry outside a lock REQUIRES the lock of its callers; so does every function
    # calling such a function outside a lock.  A violation is an ENTRY POINT that ends up lock-requiring: the public hook API
    # (beartype/claw/_clawmain.py, beartyping()), and the finder / loader methods called by the import system.
    ENTRY_FILES = ('beartype/claw/_clawmain.py', 'beartype/claw/_importlib/_clawimpfilefinder.py', 'beartype/claw/_importlib/_clawimpfileloader.py')
    ENTRY_FUNCS = {'beartyping', 'hook_packages', 'get_package_conf_or_none'}
    defined_in = {}
    for rel, w in W.items():
        for n in ast.walk(parse(rel)):
            if isinstance(n, (ast.FunctionDef, ast.AsyncFunctionDef)): defined_in.setdefault(n.name, rel)
    requiring = set(need)
    for _ in range(20):
        changed = False
        for fn in list(requiring):
            for rel, w in W.items():
                for c in w.calls:
                    if c[0] == fn and 'claw_lock' not in c[1] and c[2] is not None and c[2] not in requiring and c[2] not in CLAW_EXEMPT:
                        requiring.add(c[2]); changed = True
        if not changed: break
    for fn in sorted(requiring):
        is_entry = defined_in.get(fn) in ENTRY_FILES or fn in ENTRY_FUNCS
        acc_s = ', '.join(f'{r.split("/")[-1]}:{l}' for r, l, a in need.get(fn, [])[:4])
        sites = [(rel, c) for rel, w in W.items() for c in w.calls if c[0] == fn and c[2] not in CLAW_EXEMPT]
        rep.add(f'C15.guarded_by.claw_state.via_callers.{fn}', 'refuted' if is_entry else 'proved', backend='structural',
                where=(f'ENTRY POINT {fn}() reaches the registry without holding claw_lock ({acc_s or "through callees"})' if is_entry else
                       f'{fn}() touches the registry outside a lock ({acc_s or "through callees"}) but is internal: its {len(sites)} call sites are inside `with claw_lock` or in functions that themselves require the lock; no entry point among them'))
    return W

def lock_order(rep, walkers):
    edges = set()
    for w in walkers:
        for outer, inner, line in w.nest: edges.add((outer, inner))
    # a cycle (including re-entry of a non-reentrant lock) is a potential deadlock
    cyc = [(a, b) for a, b in edges if (b, a) in edges or a == b]
    reent = {'claw_lock', 'object_attr_cache_lock'}
    cyc = [(a, b) for a, b in cyc if not (a == b and a in reent)]
    rep.add('C15.lock_order.acyclic', 'proved' if not cyc else 'refuted', backend='structural', where=f'lexical lock nesting edges {sorted(edges)}; cycles {cyc}')

def pool_discipline(rep):
    """no use of a pooled object after it was released in the same function (it may already belong to another thread)"""
    n = 0
    for root, ds, fs in os.walk(os.path.join(REPO, 'beartype')):
        for f in fs:
            if not f.endswith('.py'): continue
            p = os.path.join(root, f); rel = os.path.relpath(p, REPO)
            try: tree = ast.parse(open(p).read())
            except Exception: continue
            for fn in ast.walk(tree):
                if not isinstance(fn, (ast.FunctionDef, ast.AsyncFunctionDef)): continue
                rels = [c for c in ast.walk(fn) if isinstance(c, ast.Call) and isinstance(c.func, ast.Name) and c.func.id in ('release_instance', 'release_fixed_list', 'release_object_typed')
                        and c.args and isinstance(c.args[0], ast.Name)]
                for c in rels:
                    n += 1; var = c.args[0].id; end = (c.end_lineno, c.end_col_offset)
                    later = [x for x in ast.walk(fn) if isinstance(x, ast.Name) and x.id == var and isinstance(x.ctx, ast.Load) and (x.lineno, x.col_offset) > end
                             and not any(x is a for a in c.args)]
                    # a later re-acquisition (assignment) legitimately ends the released lifetime
                    stores = [x for x in ast.walk(fn) if isinstance(x, ast.Name) and x.id == var and isinstance(x.ctx, ast.Store) and (x.lineno, x.col_offset) > end]
                    later = [x for x in later if not any((s.lineno, s.col_offset) < (x.lineno, x.col_offset) for s in stores)]
                    ok = not later
                    rep.add(f'C15.pool.no_use_after_release.{fn.name}.{var}@{c.lineno}', 'proved' if ok else 'refuted', backend='structural',
                            where=f'{rel}:{c.lineno} {var} released to its pool; ' + ('not read afterwards' if ok else f'read again at line(s) {[x.lineno for x in later][:4]} - another thread may already have acquired and cleared it'))
    if n == 0: rep.error('C15: no pool release call found')

def lockfree_memo(rep):
    """safe publication of lock-free lazily memoised slots: `if <obj>.<slot> is None: ... <obj>.<slot> = value` outside any lock is only
    benign (duplicate work, same answer) if the slot goes from None to its FINAL value in one store: exactly one plain assignment in the
    guarded block, no augmented assignment, and no read of the slot before that store (a second thread passing or failing the guard then sees
    either None or the complete value, as in some sequential order)"""
    def slot_key(n):
        if isinstance(n, ast.Attribute) and isinstance(n.value, ast.Name): return (n.value.id, n.attr)
    n_sites = 0
    for root, ds, fs in os.walk(os.path.join(REPO, 'beartype')):
        for f in sorted(fs):
            if not f.endswith('.py'): continue
            p = os.path.join(root, f); rel = os.path.relpath(p, REPO)
            try: tree = ast.parse(open(p).read())
            except Exception: continue
            locked = set()
            for w in ast.walk(tree):
                if isinstance(w, (ast.With, ast.AsyncWith)):
                    for x in ast.walk(w): locked.add(id(x))
            for fn in ast.walk(tree):
                if not isinstance(fn, (ast.FunctionDef, ast.AsyncFunctionDef)): continue
                for n in ast.walk(fn):
                    if not (isinstance(n, ast.If) and isinstance(n.test, ast.Compare) and len(n.test.ops) == 1 and isinstance(n.test.ops[0], ast.Is)
                            and isinstance(n.test.comparators[0], ast.Constant) and n.test.comparators[0].value is None): continue
                    k = slot_key(n.test.left)
                    if not k or id(n) in locked: continue
                    stores, loads = [], []
                    for st in n.body:
                        for x in ast.walk(st):
                            if isinstance(x, ast.Attribute) and slot_key(x) == k:
                                (stores if isinstance(x.ctx, ast.Store) else loads).append(x)
                    aug = [x for st in n.body for x in ast.walk(st) if isinstance(x, ast.AugAssign) and slot_key(x.target) == k]
                    if not stores: continue
                    n_sites += 1
                    first = min((x.lineno, x.col_offset) for x in stores)
                    early = [x for x in loads if (x.lineno, x.col_offset) < first]
                    ok = len(stores) == 1 and not aug and not early
                    why = 'one store of the complete value' if ok else f'{len(stores)} stores (lines {[x.lineno for x in stores][:6]}), {len(aug)} augmented, {len(early)} reads before the first store: another thread can observe or extend a half-built value'
                    rep.add(f'C15.lockfree_memo.single_publication.{fn.name}.{k[1]}@{n.lineno}', 'proved' if ok else 'refuted', backend='structural',
                            where=f'{rel}:{n.lineno} lazily memoised {k[0]}.{k[1]} filled outside any lock in {fn.name}(): {why}')
    if n_sites == 0: rep.error('C15: no lock-free lazily memoised slot found (extraction key no longer resolves)')

def no_yield_under_lock(rep):
    """a lock taken inside beartype is released before control returns to code beartype does not own: no `yield` (generator / context-manager
    body handing control to the caller) lexically inside `with <lock>` - otherwise arbitrary user code runs holding a global lock, and any other
    thread that registers a hook or imports a hooked module while that code waits for it deadlocks"""
    LOCKS = {'claw_lock', '_beartype_conf_lock', 'object_attr_cache_lock', '_thread_lock', '_lock'}
    n_with = 0
    for root, ds, fs in os.walk(os.path.join(REPO, 'beartype')):
        for f in sorted(fs):
            if not f.endswith('.py'): continue
            p = os.path.join(root, f); rel = os.path.relpath(p, REPO)
            try: tree = ast.parse(open(p).read())
            except Exception: continue
            for w in ast.walk(tree):
                if not isinstance(w, (ast.With, ast.AsyncWith)): continue
                names = [(i.context_expr.id if isinstance(i.context_expr, ast.Name) else i.context_expr.attr if isinstance(i.context_expr, ast.Attribute) else None) for i in w.items]
                locks = [x for x in names if x in LOCKS or (x or '').endswith('_lock')]
                if not locks: continue
                n_with += 1
                # yields in nested function definitions belong to those functions, not to this region
                ys = []
                def visit(node):
                    for c in ast.iter_child_nodes(node):
                        if isinstance(c, (ast.FunctionDef, ast.AsyncFunctionDef, ast.Lambda, ast.ClassDef)): continue
                        if isinstance(c, (ast.Yield, ast.YieldFrom, ast.Await)): ys.append(c)
                        visit(c)
                for b in w.body: visit(b) if not isinstance(b, (ast.FunctionDef, ast.AsyncFunctionDef, ast.ClassDef)) else None
                for b in w.body:
                    if isinstance(b, ast.Expr) and isinstance(b.value, (ast.Yield, ast.YieldFrom, ast.Await)): ys.append(b.value)
                ok = not ys
                rep.add(f'C15.lock_scope.no_yield_under_lock.{locks[0]}@{rel.split("/")[-1]}:{w.lineno}', 'proved' if ok else 'refuted', backend='structural',
                        where=f'{rel}:{w.lineno} `with {locks[0]}` ' + ('releases the lock before control leaves beartype' if ok else f'contains a yield/await at line(s) {sorted({y.lineno for y in ys})}: the caller\'s code runs while the lock is held'))
    if not n_with: rep.error('C15: no `with <lock>` region found')

BODY_SRC = """
import sys, threading, os, tempfile
td = tempfile.mkdtemp(prefix='c15body_'); sys.path.insert(0, td)
for name in ('c15_body_pkg_a', 'c15_body_pkg_b'):
    os.makedirs(os.path.join(td, name)); open(os.path.join(td, name, '__init__.py'), 'w').write('def f(x: int) -> int:\\n    return x\\n')
from beartype.claw import beartyping, beartype_package
from beartype import BeartypeConf
bad = []
def helper_register(): beartype_package('c15_body_pkg_a', conf=BeartypeConf(is_debug=False))
def helper_import(): __import__('c15_body_pkg_b')
with beartyping():
    # code the CALLER owns: other threads must be able to use the hook API / import hooked modules while it runs (and it may wait for them)
    for label, fn in (('beartype_package() in another thread', helper_register), ('an import in another thread', helper_import)):
        t = threading.Thread(target=fn, daemon=True); t.start(); t.join(25)
        if t.is_alive(): bad.append(f'{label} is still blocked after 25 s while the main thread is inside a `with beartyping():` body')
print(bad); sys.exit(1 if bad else 0)
"""
def body_not_under_lock(rep):
    """bounded (NOT counted as proved): inside a `with beartyping():` body other threads can register hooks and import modules"""
    import subprocess
    env = dict(os.environ); env['PYTHONPATH'] = REPO
    p = subprocess.run([sys.executable, '-c', BODY_SRC], capture_output=True, text=True, timeout=120, env=env, cwd='/')
    if p.returncode not in (0, 1) or (p.returncode == 1 and not p.stdout.strip().startswith('[')): rep.error('C15 body_not_under_lock harness: ' + (p.stdout + p.stderr)[-600:]); return
    if p.returncode == 1:
        rep.add('C15.history.beartyping_body_blocks_other_threads', 'refuted', backend='runtime-contract', bounded=True, where=p.stdout.strip()[-400:], solver_output='bounded run-time contract in a fresh interpreter (not a proof)',
                replay=dict(reproduced=True, detail=p.stdout.strip()[-300:]), replay_script=f"import subprocess\nenv = dict(os.environ); env['PYTHONPATH'] = os.environ.get('VERIF_REPO', {REPO!r})\np = subprocess.run([sys.executable, '-c', {BODY_SRC!r}], env=env, cwd='/')\nsys.exit(p.returncode)\n")
    rep.bounded.append(dict(kind='other threads register / import while the main thread is inside a beartyping() body (bounded stand-in, NOT counted as proved)', scenarios=2, failing=int(p.returncode == 1)))

def hook_then_flush(rep):
    """"no lost registration": importlib memoises one FileFinder per directory; a finder created while the beartype path hook is NOT (or no longer) in
    sys.path_hooks never consults it.  Both functions that change sys.path_hooks must therefore flush importlib's caches AFTER the change - a flush
    before it leaves a window in which another thread's import re-creates hook-less finders that nothing flushes again.  Structural ordering
    obligation on the real ASTs of add_beartype_path_hook / remove_beartype_path_hook."""
    rel = 'beartype/claw/_importlib/clawimpmain.py'
    tree = parse(rel); n = 0
    for fn in [x for x in ast.walk(tree) if isinstance(x, ast.FunctionDef) and x.name in ('add_beartype_path_hook', 'remove_beartype_path_hook')]:
        changes = [c for c in ast.walk(fn) if isinstance(c, ast.Call) and isinstance(c.func, ast.Attribute) and c.func.attr in ('insert', 'remove', 'append', 'pop')
                   and any(isinstance(x, ast.Name) and x.id == 'path_hooks' or isinstance(x, ast.Attribute) and x.attr == 'path_hooks' for x in ast.walk(c.func.value))]
        flushes = [c for c in ast.walk(fn) if isinstance(c, ast.Call) and ((isinstance(c.func, ast.Name) and c.func.id in ('_clear_importlib_caches', 'invalidate_caches')) or (isinstance(c.func, ast.Attribute) and c.func.attr in ('invalidate_caches', 'clear')
                   and any(isinstance(x, ast.Name) and x.id == 'path_importer_cache' or isinstance(x, ast.Attribute) and x.attr == 'path_importer_cache' for x in ast.walk(c.func.value))))]
        n += 1
        ok = bool(changes) and bool(flushes) and max(c.lineno for c in changes) < min(f.lineno for f in flushes)
        rep.add(f'C15.ordering.path_hooks_changed_before_cache_flush.{fn.name}', 'proved' if ok else 'refuted', backend='structural',
                where=f'{rel}: {fn.name}() changes sys.path_hooks at line(s) {[c.lineno for c in changes]} and flushes importlib\'s finder caches at line(s) {[f.lineno for f in flushes]}: the flush must come after the change')
    if n != 2: rep.error(f'C15 hook_then_flush: {n} of 2 functions found (extraction key no longer resolves)')

def main(tier, seed):
    rep = report.Report('C15', tier, seed, 'other', f'./check C15 --tier {tier}')
    ws = []
    try:
        ws.append(self_field_guard(rep, 'beartype/_util/cache/pool/utilcachepool.py', 'KeyPool', ('_key_to_pool', '_pool_item_id_to_is_acquired'), '_thread_lock'))
        ws.append(self_field_guard(rep, 'beartype/_util/cache/map/utilmapunbounded.py', 'CacheUnboundedStrong', ('_key_to_value', '_key_to_value_get', '_key_to_value_set'), '_lock'))
        ws.append(module_var_guard(rep, 'beartype/_conf/confmain.py', '_beartype_conf_args_to_conf', '_beartype_conf_lock'))
        ws.append(module_var_guard(rep, 'beartype/_util/cache/utilcacheobjattr.py', '_MODULE_NAME_TO_ATTR_NAME_TO_VALUE', 'object_attr_cache_lock'))
        ws += list(claw_guard(rep).values())
        lock_order(rep, ws)
        pool_discipline(rep)
        lockfree_memo(rep)
        no_yield_under_lock(rep)
        hook_then_flush(rep)
        body_not_under_lock(rep)
    except Exception: rep.error('C15: ' + traceback.format_exc()[-2500:])
    try:
        from props import c15_sched
        c15_sched.add(rep, tier, seed, REPO)
    except Exception: rep.error('C15 scheduler: ' + traceback.format_exc()[-2500:])
    rep.functions = ['KeyPool.* (utilcachepool.py)', 'CacheUnboundedStrong.* (utilmapunbounded.py)', 'BeartypeConf.__new__ (table access)', 'utilcacheobjattr.* (table access)', 'claw registry functions (10 modules)', 'every function calling release_instance / release_fixed_list']
    rep.trusted = ['Python `with lock:` acquires on entry and releases on every exit path (threading.Lock / RLock contract)', 'lexical analysis of the real ASTs by pyvc (props/c15.py)']
    rep.assumptions = ['NOTHING is claimed about schedules / interleavings: contract-based per-function verification does not range over them (see DESIGN 4, C15)',
                       'deliberately lock-free memo tables (callable_cached dicts, _HINT_CONF_TO_CHECK_EXPR, door checker tables, decorcache, _BEARTYPED_MODULE_TO_TYPE_NAME) are single GIL-atomic dict operations with idempotent fills: assumed benign',
                       'claw_state.module_name_to_beartype_conf is written by the loader outside the lock (single dict store): listed, deliberately not in the guarded set', 'BeartypeClawState.reinit is test-only',
                       'the sequential contracts of the guarded critical sections are those of C17 (configurations), C14 (CacheUnboundedStrong) and C06 (registry)']
    rep.extra['explanation'] = ('ownership obligations (guarded_by with call-graph closure, lock_order, pool use-after-release) decided structurally on the real ASTs; with the sequential contracts of the critical sections '
                                '(C17, C14, C06) this is the standard argument that the guarded tables are linearizable; schedules themselves are not explored and nothing is claimed about them')
    return rep.finish()
