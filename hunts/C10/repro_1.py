"""C10 repro 1: checking Iterable[T]/Collection[T]/Container[T] advances a one-shot
iterator that also happens to be Sized + Container (i.e. a virtual Collection)."""
import collections.abc as cabc
import sys
from beartype import beartype
from beartype.door import is_bearable, die_if_unbearable


class Drain:
    """One-shot iterator over a work queue that also reports how much is left."""
    def __init__(self, items):
        self.items = list(items)
        self.log = []
    def __iter__(self):
        self.log.append('__iter__'); return self
    def __next__(self):
        self.log.append('__next__')
        if not self.items:
            raise StopIteration
        return self.items.pop(0)
    def __len__(self):
        self.log.append('__len__'); return len(self.items)
    def __contains__(self, x):
        self.log.append('__contains__'); return x in self.items


bad = False
for hint in (cabc.Iterable[int], cabc.Collection[int], cabc.Container[int]):
    d = Drain([1, 2, 3])
    ok = is_bearable(d, hint)
    print(f'is_bearable(Drain([1,2,3]), {hint}) -> {ok}; left={d.items}; calls={d.log}')
    bad |= d.items != [1, 2, 3]

@beartype
def consume(it: cabc.Iterable[int]) -> list:
    return list(it)

d = Drain([1, 2, 3])
got = consume(d)
print('@beartype consume(Drain([1,2,3])) ->', got)
bad |= got != [1, 2, 3]

# Violation path: two items are eaten and the error finder looks at a different
# item than the checker did, so beartype reports an internal desynchronization.
d = Drain(['x', 1, 2])
try:
    die_if_unbearable(d, cabc.Iterable[int])
except Exception as e:
    print(type(e).__name__, '; left =', d.items)
bad |= d.items != ['x', 1, 2]

sys.exit(1 if bad else 0)
