# User-defined generic subclasses of builtin containers are subscripted as if
# their type parameters were those of the builtin container.
from typing import Dict, Generic, List, NamedTuple, Tuple, TypeVar
from beartype.door import infer_hint, is_bearable

K = TypeVar('K'); V = TypeVar('V'); T = TypeVar('T')
class Registry(Dict[str, T]): pass          # one parameter, two inferred
class Pairs(List[Tuple[K, V]]): pass        # parameters are not the item type
class Two(Generic[K, V], list): pass        # two parameters, one inferred
class Box(NamedTuple, Generic[T]):
    item: T
class PD[T](dict[str, T]): pass             # PEP 695 spelling

bad = 0
for name, obj in (('Registry(a=1)', Registry(a=1)), ('Pairs([(1, "a")])', Pairs([(1, 'a')])),
                  ('Two([1])', Two([1])), ('Box(1)', Box(1)), ('PD(a=1)', PD(a=1))):
    try:
        hint = infer_hint(obj)
    except Exception as e:
        print(f'{name}: infer_hint raised {type(e).__name__}: {e}'); bad += 1; continue
    try:
        ok = is_bearable(obj, hint)
        print(f'{name}: hint={hint!r} -> is_bearable={ok}'); bad += ok is not True
    except Exception as e:
        print(f'{name}: hint={hint!r} -> is_bearable raised {type(e).__name__}: {str(e)[:150]}'); bad += 1
raise SystemExit(1 if bad else 0)
