# Finding 7: beartype.door.infer_hint() memoises its answer for callables (and
# per-class collection analysis), so a later answer is whatever was inferred by
# the earliest query rather than what the argument looks like now.
import sys
import beartype
assert beartype.__file__.startswith('/tmp/wt/hunt_C14'), beartype.__file__
from beartype.door import infer_hint

def f(x: int) -> str: return ''
def g(x: int) -> str: return ''        # identical twin
infer_hint(f)                           # history: asked once, early
f.__annotations__['x'] = float
g.__annotations__['x'] = float
rf, rg = infer_hint(f), infer_hint(g)
print('infer_hint(f) with    earlier query:', rf)
print('infer_hint(g) without earlier query:', rg)

class C1:
    def __len__(self): return 0
class C2:
    def __len__(self): return 0
infer_hint(C1())                        # history
for C in (C1, C2):
    C.__iter__ = lambda self: iter(())
    C.__contains__ = lambda self, o: False
r1, r2 = repr(infer_hint(C1())), repr(infer_hint(C2()))
print('infer_hint(C1()) with    earlier query:', r1)
print('infer_hint(C2()) without earlier query:', r2)
bad = rf != rg or r1.replace('C1', 'C') != r2.replace('C2', 'C')
sys.exit(1 if bad else 0)
