# Class-level and member-level decoration disagree for __getitem__() annotated
# by the class itself: class-level decoration swaps the hint for a name-based
# "fake forward reference proxy".
from __future__ import annotations
import sys
from beartype import beartype

class Node: pass
OldNode = Node                       # e.g. previous definition (hot reload)

class Node:
    def __getitem__(self, i: int) -> Node: return OldNode()
beartype(Node)                        # class-level
try:
    Node()[0]; cls_level = 'accepted'
except Exception as e: cls_level = type(e).__name__

class Node:
    def __getitem__(self, i: int) -> Node: return OldNode()
Node.__getitem__ = beartype(Node.__dict__['__getitem__'])   # member-level
try:
    Node()[0]; mem_level = 'accepted'
except Exception as e: mem_level = type(e).__name__

print('class-level :', cls_level)
print('member-level:', mem_level)
sys.exit(1 if cls_level != mem_level else 0)
