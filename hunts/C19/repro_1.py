# Literal[...] is reported as a subhint of any union / TypeVar that merely *contains* some other Literal.
import sys
from typing import Literal, Optional, TypeVar, Union
from beartype.door import is_bearable, is_subhint
bad = 0
T = TypeVar('T', bound=Literal[2])
for sup in (Union[Literal[2], str], Optional[Literal[2]], T):
    sub = is_subhint(Literal[1], sup)
    a, b = is_bearable(1, Literal[1]), is_bearable(1, sup)
    print(f'is_subhint(Literal[1], {sup}) = {sub}; 1 satisfies Literal[1]: {a}; 1 satisfies superhint: {b}')
    bad |= (sub and a and not b)
sub = is_subhint(list[Literal[1]], list[Optional[Literal[2]]])
a, b = is_bearable([1], list[Literal[1]]), is_bearable([1], list[Optional[Literal[2]]])
print(f'is_subhint(list[Literal[1]], list[Optional[Literal[2]]]) = {sub}; [1] satisfies sub: {a}; super: {b}')
bad |= (sub and a and not b)
# ...which also breaks transitivity:
print('Literal[1] <= Union[Literal["a"], str]:', is_subhint(Literal[1], Union[Literal['a'], str]),
      '; Union[Literal["a"], str] <= str:', is_subhint(Union[Literal['a'], str], str),
      '; Literal[1] <= str:', is_subhint(Literal[1], str))
sys.exit(1 if bad else 0)
