# NotImplemented is accepted as the return of every binary dunder except
# __rdivmod__ (missing from METHOD_NAMES_DUNDER_BINARY).
import sys
from beartype import beartype
@beartype
class Money:
    def __divmod__(self, other: object) -> tuple[int, int]:
        return NotImplemented
    def __rdivmod__(self, other: object) -> tuple[int, int]:
        return NotImplemented
print('__divmod__ :', Money().__divmod__(3))
try:
    print('__rdivmod__:', Money().__rdivmod__(3))
except Exception as e:
    print('__rdivmod__:', type(e).__name__, str(e)[:200])
    sys.exit(1)
