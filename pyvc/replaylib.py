"""Replay of solver counterexamples against the REAL beartype of the working tree (DESIGN 2.5).

Concrete oracles here are written from the property statements (independent of beartype), mirroring pyvc.spec:
  conforms_c(o, h)     full-depth conformance             must_reject_c(o, h)   violation where no sampling is involved
A replay returns (reproduced: bool, detail: str).  Only a reproduced failure on the real code is reported as a
confirmed failing input."""
from . import use_repo
use_repo()
import typing as t, types, collections, collections.abc as cabc, sys
from .spec import Spec, VDESC
from . import shapes
from .shapes import NS

# ---------------------------------------------------------------- instrumented / helper classes for concretisation
class Opaque:
    def __repr__(self): return 'Opaque()'
class Attrs:
    def __init__(self, **kw): self.__dict__.update(kw)
    def __repr__(self): return 'Attrs(' + ', '.join(f'{k}={v!r}' for k, v in self.__dict__.items()) + ')'
class UserSeq(cabc.Sequence):
    def __init__(self, items=()): self._i = list(items)
    def __len__(self): return len(self._i)
    def __getitem__(self, k): return self._i[k]
    def __repr__(self): return f'UserSeq({self._i!r})'
class UserColl(cabc.Collection):
    def __init__(self, items=()): self._i = list(items)
    def __len__(self): return len(self._i)
    def __iter__(self): return iter(self._i)
    def __contains__(self, x): return x in self._i
    def __repr__(self): return f'UserColl({self._i!r})'
class UserSet(cabc.Set):
    def __init__(self, items=()): self._i = list(items)
    def __len__(self): return len(self._i)
    def __iter__(self): return iter(self._i)
    def __contains__(self, x): return x in self._i
    def __repr__(self): return f'UserSet({self._i!r})'
class UserMap(cabc.Mapping):
    def __init__(self, d=()): self._d = dict(d)
    def __len__(self): return len(self._d)
    def __iter__(self): return iter(self._d)
    def __getitem__(self, k): return self._d[k]
    def __repr__(self): return f'UserMap({self._d!r})'
class OneShot:
    """one-shot iterable (an Iterator): consuming it is observable"""
    def __init__(self, items=()): self._i = list(items); self.consumed = 0
    def __iter__(self): return self
    def __next__(self):
        if self.consumed >= len(self._i): raise StopIteration
        self.consumed += 1; return self._i[self.consumed - 1]
    def __repr__(self): return f'OneShot({self._i!r})'
class SizedOneShot(OneShot):
    """a Sized, self-iterating, one-shot object that is NOT a Collection (no __contains__)"""
    def __len__(self): return len(self._i) - self.consumed
class CollOneShot(SizedOneShot):
    """a one-shot ITERATOR that also satisfies Collection (__len__, __contains__, __iter__ returning itself): an Iterator[T] hint must stay shallow for it"""
    def __contains__(self, x): return x in self._i[self.consumed:]
NS['CollOneShot'] = CollOneShot
class SizedStream:
    """Sized, NOT an Iterator (no __next__), NOT a Collection (no __contains__): __iter__ hands out its one stored iterator, so any
    iteration by a checker is observable as consumption"""
    def __init__(self, items=()): self._i = list(items); self.consumed = 0; self.touched = []
    def __len__(self): self.touched.append('len'); return len(self._i) - self.consumed
    def __iter__(self):
        self.touched.append('iter'); outer = self
        class _It:
            def __iter__(s): return s
            def __next__(s):
                if outer.consumed >= len(outer._i): raise StopIteration
                outer.consumed += 1; return outer._i[outer.consumed - 1]
        return _It()
    def __repr__(self): return f'SizedStream({self._i!r})'
class Stream(SizedStream):
    """like SizedStream but without __len__"""
    __len__ = None
class SizedOnly:
    def __init__(self, n=1): self.n = n
    def __len__(self): return self.n
class Reads:
    n = 0; per = {}
    @classmethod
    def reset(cls): cls.n = 0; cls.per = {}
    @classmethod
    def hit(cls, owner): cls.n += 1; cls.per[id(owner)] = cls.per.get(id(owner), 0) + 1
class _CIter:
    def __init__(self, it, owner): self.it = it; self.owner = owner
    def __iter__(self): return self
    def __next__(self):
        v = next(self.it); Reads.hit(self.owner); return v
class CList(list):
    def __getitem__(self, k): Reads.hit(self); return list.__getitem__(self, k)
    def __iter__(self): return _CIter(list.__iter__(self), self)
class CTuple(tuple):
    def __getitem__(self, k): Reads.hit(self); return tuple.__getitem__(self, k)
    def __iter__(self): return _CIter(tuple.__iter__(self), self)
class CSet(set):
    def __iter__(self): return _CIter(set.__iter__(self), self)
class CFrozenSet(frozenset):
    def __iter__(self): return _CIter(frozenset.__iter__(self), self)
class CDeque(collections.deque):
    def __getitem__(self, k): Reads.hit(self); return collections.deque.__getitem__(self, k)
    def __iter__(self): return _CIter(collections.deque.__iter__(self), self)
class CDict(dict):
    def __getitem__(self, k): Reads.hit(self); return dict.__getitem__(self, k)
    def __iter__(self): return _CIter(dict.__iter__(self), self)
    def values(self): return _CView(dict.values(self), self)
    def items(self): return _CView(dict.items(self), self)
    def keys(self): return _CView(dict.keys(self), self)
class _CView:
    def __init__(self, v, owner): self.v = v; self.owner = owner
    def __iter__(self): return _CIter(iter(self.v), self.owner)
    def __len__(self): return len(self.v)
for _c in (Attrs, Opaque, UserSeq, UserColl, UserSet, UserMap, OneShot, SizedOneShot, SizedStream, Stream, SizedOnly, CList, CTuple, CSet, CFrozenSet, CDeque, CDict):
    NS[_c.__name__] = _c
COUNTING = {list: CList, tuple: CTuple, set: CSet, frozenset: CFrozenSet, collections.deque: CDeque, dict: CDict}

# ---------------------------------------------------------------- concrete oracles (from the property text; cf. spec.py)
def _vm(d, o):
    K = d[0]
    if K == 'is': return bool(d[1](o))
    if K == 'eq': return bool(o == d[1])
    if K == 'inst': return isinstance(o, d[1])
    if K == 'sub': return isinstance(o, type) and issubclass(o, d[1])
    if K == 'attr': return hasattr(o, d[1]) and _vm(d[2], getattr(o, d[1]))
    if K == 'and': return _vm(d[1], o) and _vm(d[2], o)
    if K == 'or': return _vm(d[1], o) or _vm(d[2], o)
    if K == 'not': return not _vm(d[1], o)
    raise NotImplementedError(K)
def vmeaning_c(v, o): return _vm(VDESC[id(v)][0], o)

class Oracle:
    def __init__(self, conf=None):
        self.sp = Spec.__new__(Spec); self.sp.uni = None
        self.sp.tower = bool(conf is not None and conf.is_pep484_tower)
        self.sp.overrides = dict(getattr(conf, 'hint_overrides', None) or {}) if conf is not None else {}
        if self.sp.tower: self.sp.overrides = {k: v for k, v in self.sp.overrides.items() if k not in (float, complex)}
    def k(self, h): return self.sp.k(h)
    def conforms(self, o, h, seen=()):
        k = self.k(h); K = k[0]
        if K == 'any': return True
        if K == 'never': return False
        if K == 'cls': return isinstance(o, k[1])
        if K == 'union_raw': return isinstance(o, tuple(k[1]))
        if K == 'alias': return self.conforms(o, k[1], seen)
        if K == 'generic': return isinstance(o, k[1]) and all(self.conforms(o, b, seen) for b in k[2])
        if K == 'alias_override':
            if h in seen: return Oracle().conforms(o, h)
            return self.conforms(o, k[1], seen + (h,))
        if K == 'union': return any(self.conforms(o, m, seen) for m in k[1])
        if K == 'literal': return any(type(o) is type(l) and o == l for l in k[1])
        if K == 'annotated': return self.conforms(o, k[1], seen) and all(vmeaning_c(v, o) for v in k[2] if Spec.is_validator(v))
        if K == 'subclass': return isinstance(o, type) and issubclass(o, tuple(k[1]))
        if K == 'fixed': return isinstance(o, tuple) and len(o) == len(k[1]) and all(self.conforms(i, c, seen) for i, c in zip(tuple.__iter__(o), k[1]))
        if K == 'items':
            if not isinstance(o, k[1]): return False
            if not isinstance(o, cabc.Collection): return True
            return all(self.conforms(i, k[2], seen) for i in _plain_iter(o))
        if K == 'mapping':
            return isinstance(o, k[1]) and all(self.conforms(kk, k[2], seen) and self.conforms(_plain_get(o, kk), k[3], seen) for kk in _plain_iter(o))
        raise NotImplementedError(K)
    def must_reject(self, o, h, seen=()):
        k = self.k(h); K = k[0]
        if K == 'any': return False
        if K == 'never': return True
        if K == 'cls': return not isinstance(o, k[1])
        if K == 'union_raw': return not isinstance(o, tuple(k[1]))
        if K == 'alias': return self.must_reject(o, k[1], seen)
        if K == 'generic': return not isinstance(o, k[1]) or any(self.must_reject(o, b, seen) for b in k[2])
        if K == 'alias_override':
            if h in seen: return Oracle().must_reject(o, h)
            return self.must_reject(o, k[1], seen + (h,))
        if K == 'union': return all(self.must_reject(o, m, seen) for m in k[1])
        if K == 'literal': return all(not (o == l) for l in k[1]) or not isinstance(o, tuple(type(l) for l in k[1]))
        if K == 'annotated': return self.must_reject(o, k[1], seen) or not all(vmeaning_c(v, o) for v in k[2] if Spec.is_validator(v))
        if K == 'subclass': return not (isinstance(o, type) and issubclass(o, tuple(k[1])))
        if K == 'fixed': return not isinstance(o, tuple) or len(o) != len(k[1]) or any(self.must_reject(i, c, seen) for i, c in zip(tuple.__iter__(o), k[1]))
        if K == 'items':
            if not isinstance(o, k[1]): return True
            if not isinstance(o, cabc.Collection): return False
            its = list(_plain_iter(o))
            return len(its) > 0 and all(self.must_reject(i, k[2], seen) for i in its)
        if K == 'mapping':
            if not isinstance(o, k[1]): return True
            ks = list(_plain_iter(o))
            return len(ks) > 0 and (all(self.must_reject(kk, k[2], seen) for kk in ks) or all(self.must_reject(_plain_get(o, kk), k[3], seen) for kk in ks))
        raise NotImplementedError(K)

def _plain_iter(o):
    for base, C in COUNTING.items():
        if isinstance(o, C): return base.__iter__(o)
    return iter(o)
def _plain_get(o, k):
    if isinstance(o, CDict): return dict.__getitem__(o, k)
    return o[k]

# ---------------------------------------------------------------- running the real code
DRAW = [0]
def _draw(n): return DRAW[0]
_draw_installed = [False]
def force_draw(r):
    """force every sampler draw of generated checkers / wrappers to r: the name `getrandbits` is rebound ONCE (to a function
    reading DRAW[0]) in every beartype module that imported it, so that checkers generated earlier keep following DRAW"""
    DRAW[0] = r
    if _draw_installed[0]: return
    import beartype._check.code.codemain
    for mod in list(sys.modules.values()):
        if mod is not None and getattr(mod, '__name__', '').startswith('beartype') and 'getrandbits' in getattr(mod, '__dict__', {}):
            mod.__dict__['getrandbits'] = _draw
    _draw_installed[0] = True
    try:
        from beartype._util.cache.utilcacheclear import clear_caches
        clear_caches()
    except Exception: pass

def real_verdict(obj, hint, conf, r):
    """-> ('accept'|'reject'|'raise', exception or None) of is_bearable on the real tree with the sampler draw forced to r"""
    from beartype.door import is_bearable
    from beartype._util.cache.utilcacheclear import clear_caches
    force_draw(r); clear_caches()
    try:
        return ('accept' if is_bearable(obj, hint, conf=conf) else 'reject'), None
    except Exception as e:
        return 'raise', e

REACH_POOL = ["''", '0', 'None', "b''", '()', '0.0', 'False', '[]', "'x'", '1', 'True', '2.5', "b'x'", '(1,)', 'L0()', 'L1()', 'L2()']
def reach_fallback(hint_src, conf_src):
    """guided search when the concretised model does not replay: for a ROOT hint with one item hint T, lists [filler, violator] with the
    violator (must-reject for T under the independent oracle; falsy objects first) at the drawn index 1 and a conforming filler at index 0"""
    import typing
    hint = shapes.ev(hint_src); conf = shapes.ev(conf_src); orc = Oracle(conf)
    args = typing.get_args(hint)
    if len(args) != 1 and not (len(args) == 2 and args[1] is Ellipsis): return None
    T = args[0]
    for fsrc in REACH_POOL:
        try: f = eval(fsrc, NS)
        except Exception: continue
        if not orc.conforms(f, T): continue
        for vsrc in REACH_POOL:
            try: v = eval(vsrc, NS)
            except Exception: continue
            if not orc.must_reject(v, T): continue
            for mk in ('[{f}, {v}]', '({f}, {v})'):
                osrc = mk.format(f=fsrc, v=vsrc)
                try: obj = eval(osrc, NS)
                except Exception: continue
                if not isinstance(obj, typing.get_origin(hint) or object): continue
                verdict, e = real_verdict(obj, hint, conf, 1)
                if verdict == 'accept': return osrc, 1, f'object {osrc} whose only violating item sits at the drawn index 1 accepted for draw 1'
    return None

def replay_gen(kind, hint_src, conf_src, obj_src, r, extra=None):
    """kind: C01 | C02.mustreject | C02.reach | C02.consistent | defined | C09 | C10"""
    hint = shapes.ev(hint_src); conf = shapes.ev(conf_src); orc = Oracle(conf)
    mk = lambda: eval(obj_src, NS)
    obj = mk()
    if kind == 'C01':
        if not orc.conforms(obj, hint): return False, 'candidate does not conform under the independent oracle'
        v, e = real_verdict(obj, hint, conf, r)
        if v != 'accept': return True, f'conforming object {obj!r} {v} for draw {r}' + (f': {type(e).__name__}: {e}'[:200] if e else '')
        # the other entry points
        return False, 'accepted'
    if kind == 'C02.mustreject':
        if not orc.must_reject(obj, hint): return False, 'candidate is not a must-reject object under the independent oracle'
        v, e = real_verdict(obj, hint, conf, r)
        if v != 'reject': return True, f'must-reject object {obj!r} {v} for draw {r}' + (f': {type(e).__name__}: {e}'[:200] if e else '')
        return False, 'rejected'
    if kind == 'C02.reach':
        # some draw below len must reject an object whose item i violates
        seq = obj
        n = extra['len'] if extra and 'len' in extra else None
        for d in ([r] if True else []):
            v, e = real_verdict(obj, hint, conf, d)
            if v == 'accept': return True, f'object {obj!r} with a must-reject item at the drawn index accepted for draw {d}'
        return False, 'rejected'
    if kind == 'C02.consistent':
        v, e = real_verdict(obj, hint, conf, r)
        if v == 'accept' and orc.must_reject(obj, hint): return True, f'accepted object {obj!r} has no consistent sampled path (draw {r})'
        return False, v
    if kind == 'defined':
        v, e = real_verdict(obj, hint, conf, r)
        from beartype.roar import BeartypeException
        if v == 'raise' and not isinstance(e, BeartypeException): return True, f'check raised {type(e).__name__}: {e}'[:300]
        if v == 'raise': return True, f'check raised {type(e).__name__}: {e}'[:300]
        return False, v
    if kind == 'C09L':
        Reads.reset()
        v, e = real_verdict(obj, hint, conf, r)
        worst = max(Reads.per.values(), default=0)
        if worst > extra['allowed']: return True, f'one container object was read {worst} times during one check, the hint allows {extra["allowed"]} at that level ({v})'
        return False, f'max {worst} reads of one container'
    if kind == 'C09':
        bound = extra['bound']
        Reads.reset()
        v, e = real_verdict(obj, hint, conf, r)
        if Reads.n > bound: return True, f'{Reads.n} item reads > bound {bound} on {type(obj).__name__} of len {len(obj) if hasattr(obj, "__len__") else "?"} ({v})'
        return False, f'{Reads.n} reads'
    if kind == 'C10':
        before = snapshot(obj)
        v, e = real_verdict(obj, hint, conf, r)
        after = snapshot(obj)
        if before != after: return True, f'subject changed by the check: {before} -> {after}'
        # user-visible code outside the read-only protocol list: __bool__ of the subject (a recording subclass of the same builtin container)
        for base in (dict, list, tuple, set, frozenset, collections.OrderedDict, collections.defaultdict, collections.deque):
            if type(obj) is base:
                log = []
                Rec = type('Recording' + base.__name__.capitalize(), (base,), {'__bool__': lambda self: (log.append('__bool__'), len(self) > 0)[1]})
                try: spy = Rec(obj.default_factory, obj) if base is collections.defaultdict else Rec(obj)
                except Exception: break
                real_verdict(spy, hint, conf, r)
                if log: return True, f'the check called __bool__ of the checked {base.__name__} subclass instance {len(log)} time(s): user-visible code outside the read-only protocol list'
                break
        # ... or __bool__ of one of its ITEMS (each item replaced by an equal instance of a recording subclass of its own class)
        cands = [obj] if type(obj) in (list, tuple) and obj else []
        if not cands:
            # guided: the concretised model is not a plain list / tuple - try small lists of conforming items for a ROOT hint with one item hint
            import typing
            args = typing.get_args(hint)
            if len(args) == 1 or (len(args) == 2 and args[1] is Ellipsis):
                for fsrc in REACH_POOL:
                    try: f_ = eval(fsrc, NS)
                    except Exception: continue
                    if orc.conforms(f_, args[0]):
                        for mk_ in (list, tuple):
                            c_ = mk_([f_, eval(fsrc, NS)])
                            if isinstance(c_, typing.get_origin(hint) or object): cands.append(c_)
        for obj in cands[:6]:
            log = []
            def spy(i):
                try:
                    Rec = type('Recording' + type(i).__name__, (type(i),), {'__bool__': lambda self: (log.append('__bool__'), True)[1]})
                    if isinstance(i, (int, float, str, bytes, tuple, frozenset)): return Rec(i)
                    j = object.__new__(Rec); j.__dict__.update(getattr(i, '__dict__', {})); return j
                except Exception: return i
            spied = type(obj)(spy(i) for i in obj)
            for draw in sorted({r, 0, 1, 2}):
                real_verdict(spied, hint, conf, draw)
                if log: return True, f'the check called __bool__ of an ITEM of the checked {type(obj).__name__} ({len(log)} time(s), draw {draw}): user-visible code outside the read-only protocol list'
        return False, 'unchanged'
    raise NotImplementedError(kind)

def snapshot(o, depth=0):
    if isinstance(o, OneShot): return ('oneshot', o.consumed)
    if isinstance(o, SizedStream): return ('stream', o.consumed, tuple(o.touched))
    if depth > 3: return None
    if isinstance(o, collections.ChainMap): return ('ChainMap', tuple(snapshot(m, depth + 1) for m in o.maps))
    if isinstance(o, dict): return ('dict', type(o).__name__, tuple((repr(k), snapshot(v, depth + 1)) for k, v in dict.items(o)))
    if isinstance(o, (list, tuple, collections.deque)): return (type(o).__name__, tuple(snapshot(i, depth + 1) for i in _plain_iter(o)))
    if isinstance(o, (set, frozenset)): return (type(o).__name__, len(o))
    return repr(type(o))
