# A metaclass data descriptor with the same name as a method makes the class
# undecoratable (set_type_attr() only tolerates TypeError), although decorating
# the method itself works fine.
import sys
from beartype import beartype

class Meta(type):
    @property
    def name(cls) -> str:               # class-level read-only property
        return cls.__name__.lower()

class A(metaclass=Meta):
    def name(self, prefix: str) -> str:   # instance-level method, same name
        return prefix + type(self).name

assert A.name == 'a' and A().name('x') == 'xa'
beartype(A.__dict__['name'])            # decorating the member works
try:
    beartype(A)
except Exception as e:
    print('BUG: beartype(A) raised', type(e).__name__, e); sys.exit(1)
print('ok'); sys.exit(0)
