# type[P] for a runtime-checkable protocol with a data member: the generated
# checker calls issubclass(), which Python refuses for such protocols.
import sys
from typing import Protocol, runtime_checkable
from beartype import beartype
from beartype.door import is_bearable

@runtime_checkable
class Named(Protocol):
    name: str

class Person:
    name = 'x'

print('instance check works:', is_bearable(Person(), Named))
bad = 0
try:
    print('type[Named] <- Person:', is_bearable(Person, type[Named]))
except Exception as e:
    bad += 1
    print('is_bearable:', type(e).__name__, e)
@beartype
def make(cls: type[Named]) -> Named:
    return cls()
try:
    make(Person)
except Exception as e:
    bad += 1
    print('@beartype:', type(e).__name__, e)
sys.exit(1 if bad else 0)
