# The O0 ("no-time") strategy is not the identity decorator.
import sys, operator, functools, typing
from beartype import beartype, BeartypeConf, BeartypeStrategy
O0 = beartype(conf=BeartypeConf(strategy=BeartypeStrategy.O0))
bad = False

# (a) O0 decoration mutates the function: typing.get_type_hints() goes blank.
def f(x: int) -> str: return str(x)
before = typing.get_type_hints(f)
assert O0(f) is f
after = typing.get_type_hints(f)
print('(a) get_type_hints before/after O0:', before, after, vars(f))
bad |= before != after

# (b) O0 decoration of a class rewrites the class.
class A:
    def m(self, x: int) -> int: return x
    @staticmethod
    def sm(x: int) -> int: return x
    @classmethod
    def cm(cls, x: int) -> int: return x
    @property
    def p(self) -> int: return 1
snap = dict(A.__dict__)
assert O0(A) is A
diff = sorted(k for k in A.__dict__ if A.__dict__[k] is not snap.get(k))
print('(b) class members added/replaced by O0:', diff)
bad |= bool(diff)

# (c) O0 decoration crashes on perfectly ordinary classes and callables.
def mk1():
    class T(tuple):
        first = property(operator.itemgetter(0))
    return T
def mk2():
    class S:
        size = staticmethod(len)
    return S
class Callable_:
    def __call__(self, x: int) -> int: return x
for label, thunk in (
    ('class with property(itemgetter(0))', lambda: O0(mk1())),
    ('class with staticmethod(len)', lambda: O0(mk2())),
    ('callable object', lambda: O0(Callable_())),
    ('bound method', lambda: O0(Callable_().__call__)),
    ('functools.partial', lambda: O0(functools.partial(f, 1))),
):
    try:
        thunk(); print('(c)', label, 'ok')
    except Exception as e:
        print('(c)', label, '->', type(e).__name__, e); bad = True
sys.exit(1 if bad else 0)
