# Finding 2: a module-level forward reference in a decorated callable is
# resolved on the first call and then remembered. After the referenced class is
# redefined (hot reload, notebook cell re-run, ...), two identical functions
# give different answers depending only on whether they were called earlier;
# beartype clearing its caches flips the answer again.
import sys
import beartype
assert beartype.__file__.startswith('/tmp/wt/hunt_C14'), beartype.__file__
from beartype import beartype as bt
from beartype.roar import BeartypeCallHintViolation
from beartype._util.cache.utilcacheclear import clear_caches

def ask(func, arg):
    try:
        return func(arg)
    except BeartypeCallHintViolation:
        return 'VIOLATION'

@bt
def f(x: 'A') -> int: return 1
@bt
def g(x: 'A') -> int: return 1      # identical twin of f()

class A: pass
A_old = A
f(A_old())                           # history: f() is called once, g() is not

class A: pass                        # same-named class redefined
A_new = A

r = {
    'f(A_new())': ask(f, A_new()), 'g(A_new())': ask(g, A_new()),
    'f(A_old())': ask(f, A_old()), 'g(A_old())': ask(g, A_old()),
}
for k, v in r.items(): print(k, '->', v)
bad = r['f(A_new())'] != r['g(A_new())'] or r['f(A_old())'] != r['g(A_old())']

# Cache clearing (which beartype also performs implicitly whenever a class
# with an already-seen name is decorated) changes the later answer of f().
before = ask(f, A_new())
clear_caches()
after = ask(f, A_new())
print('f(A_new()) before clear_caches():', before, '| after:', after)
bad |= (before != after)

# The implicit variant: decorating two unrelated same-named classes.
@bt
def h(x: 'B') -> int: return 1
class B: pass
B_old = B
h(B_old())
class B: pass
before = ask(h, B())
def unrelated():
    @bt
    class Config: pass
unrelated(); unrelated()             # second decoration triggers clear_caches()
after = ask(h, B())
print('h(B_new()) before decorating unrelated classes:', before, '| after:', after)
bad |= (before != after)
sys.exit(1 if bad else 0)
