# @beartype over @functools.lru_cache re-creates the cache *around* the checker,
# so a cache hit returns without checking the passed values.
import functools
from beartype import beartype
from beartype.roar import BeartypeCallHintParamViolation

@beartype
@functools.lru_cache(maxsize=None)
def mul(a: int, b: int) -> int:
    return a * b

assert mul(1, 2) == 2
try:
    mul(3.0, 2.0)                     # cache miss: correctly rejected
    raise AssertionError('unreachable')
except BeartypeCallHintParamViolation:
    pass
try:
    r = mul(1.0, 2.0)                 # cache hit: floats bound to "int" accepted
    print(f'BUG mul(1.0, 2.0) returned {r!r} without checking a: int, b: int')
    raise SystemExit(1)
except BeartypeCallHintParamViolation:
    raise SystemExit(0)
