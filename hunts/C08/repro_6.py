# Finding 6 (related to, but distinct from, the known "body swallows
# GeneratorExit" issue): the body does NOT swallow anything, yet it observes a
# different exception object.  throw()/athrow() of a GeneratorExit instance
# (or subclass instance) is delivered to the body as a *fresh, argument-less,
# plain* GeneratorExit, so "except MyCancel:" cleanup handlers are skipped and
# e.args is lost.
import sys
from beartype import beartype

class Cancel(GeneratorExit):
    pass

def scenario_sync(decorate):
    log = []
    def gen(x: int):
        try:
            yield x
        except Cancel as e:
            log.append(('Cancel handler', e.args)); raise
        except GeneratorExit as e:
            log.append(('GeneratorExit handler', type(e).__name__, e.args)); raise
    f = beartype(gen) if decorate else gen
    g = f(1); next(g)
    try: g.throw(Cancel('reason'))
    except BaseException as e: log.append(('raised', repr(e)))
    g = f(1); next(g)
    try: g.throw(GeneratorExit('reason'))
    except BaseException as e: log.append(('raised', repr(e)))
    return log

def drive(aw):
    try: aw.send(None)
    except StopIteration as exc: return exc.value

def scenario_async(decorate):
    log = []
    async def agen(x: int):
        try:
            yield x
        except Cancel as e:
            log.append(('Cancel handler', e.args)); raise
        except GeneratorExit as e:
            log.append(('GeneratorExit handler', type(e).__name__, e.args)); raise
    f = beartype(agen) if decorate else agen
    g = f(1); drive(g.__anext__())
    try: drive(g.athrow(Cancel('reason')))
    except BaseException as e: log.append(('raised', repr(e)))
    return log

rc = 0
for sc in (scenario_sync, scenario_async):
    a, b = sc(False), sc(True)
    print(sc.__name__, 'orig:', a)
    print(sc.__name__, 'bear:', b)
    rc |= a != b
sys.exit(rc)
