# BeartypeConf(is_pep557_fields=True): dataclass field assignments are checked
# with a context-free is_bearable()/die_if_unbearable(), so hints that need the
# class context (typing.Self, descriptor-typed fields) reject conforming values
# -- already inside the dataclass' own __init__().
import sys, dataclasses, typing
from beartype import beartype, BeartypeConf
conf = BeartypeConf(is_pep557_fields=True)
bad = 0

@beartype(conf=conf)
@dataclasses.dataclass
class Node:
    nxt: typing.Optional[typing.Self] = None
try:
    Node(Node())
    print('Self field: ok')
except Exception as e:
    bad += 1
    print('Self field:', type(e).__name__, str(e)[:160])

class Celsius:   # https://docs.python.org/3/library/dataclasses.html#descriptor-typed-fields
    def __set_name__(self, owner, name): self._name = '_' + name
    def __get__(self, obj, objtype=None) -> int:
        return 0 if obj is None else getattr(obj, self._name, 0)
    def __set__(self, obj, value: int) -> None: setattr(obj, self._name, value)

@beartype(conf=conf)
@dataclasses.dataclass
class Thermo:
    temp: Celsius = Celsius()
try:
    t = Thermo(); t.temp = 20
    print('descriptor field: ok', t.temp)
except Exception as e:
    bad += 1
    print('descriptor field:', type(e).__name__, str(e)[:200])

# Control: the same two classes are fine under the default configuration.
@beartype
@dataclasses.dataclass
class Node2:
    nxt: typing.Optional[typing.Self] = None
@beartype
@dataclasses.dataclass
class Thermo2:
    temp: Celsius = Celsius()
Node2(Node2()); Thermo2().temp = 20
print('default conf: ok')
sys.exit(1 if bad else 0)
