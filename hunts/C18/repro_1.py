# Forward references that are still unresolvable at decoration time are later
# resolved by a forward-reference proxy that ignores the configuration entirely
# (both is_pep484_tower and hint_overrides).
from __future__ import annotations
import sys
from beartype import beartype, BeartypeConf, FrozenDict
from beartype.roar import BeartypeCallHintViolation

tower = BeartypeConf(is_pep484_tower=True)

# --- under the option -------------------------------------------------------
@beartype(conf=tower)
def scale(v: Vector, k: Scalar) -> Vector:
    return [x * k for x in v]

Scalar = float
Vector = list[float]

# --- rewritten by hand, default configuration --------------------------------
@beartype
def scale_hand(v: VectorH, k: ScalarH) -> VectorH:
    return [x * k for x in v]

ScalarH = float | int
VectorH = list[float | int]

# --- same hints, but resolvable at decoration time: the option is honoured ---
@beartype(conf=tower)
def scale_eager(v: Vector, k: Scalar) -> Vector:
    return [x * k for x in v]

def verdict(f, *args):
    try:
        f(*args); return 'accepted'
    except BeartypeCallHintViolation as e:
        return 'VIOLATION'

bad = 0
for args in (([1.5], 2), ([1, 2], 2.0), ([1, 2], 2)):
    a, b, c = verdict(scale, *args), verdict(scale_hand, *args), verdict(scale_eager, *args)
    print(f'args={args!r:18} tower+deferred-ref={a:10} hand-rewritten={b:10} tower+eager-ref={c}')
    bad += (a != b)

# Same with hint_overrides
class A: pass
class B: pass
ov = BeartypeConf(hint_overrides=FrozenDict({A: B}))
@beartype(conf=ov)
def g(x: Later) -> None: pass
Later = A
r_conf = verdict(g, B())       # by hand: "def g(x: B)" -> B() accepted, A() rejected
r_conf2 = verdict(g, A())
print('hint_overrides={A: B}, deferred ref to A:  g(B()) ->', r_conf, '  g(A()) ->', r_conf2, ' (by hand: accepted / VIOLATION)')
bad += (r_conf != 'accepted') + (r_conf2 != 'VIOLATION')
sys.exit(1 if bad else 0)
