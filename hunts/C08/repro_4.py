# Finding 4: decorating a functools.partial of a generator / coroutine / async
# generator function changes the kind reported by inspect (and silently does
# no type-checking at all).
import functools, inspect, sys
from collections.abc import Iterator, AsyncIterator
from beartype import beartype

def gen(x: int, y: int) -> Iterator[int]:
    yield x + y
async def coro(x: int, y: int) -> int:
    return x + y
async def agen(x: int, y: int) -> AsyncIterator[int]:
    yield x + y

def kinds(f):
    return (inspect.isgeneratorfunction(f), inspect.iscoroutinefunction(f),
            inspect.isasyncgenfunction(f))

rc = 0
for func in (gen, coro, agen):
    part = functools.partial(func, 1)
    bear = beartype(part)
    print(func.__name__, 'orig:', kinds(part), ' bear:', kinds(bear), type(bear).__name__)
    rc |= kinds(part) != kinds(bear)
sys.exit(rc)
