"""Function-mode obligations on the error (explanation) path helpers shared by C03 and C09: the finder inspects the SAME
item as the fast path and, under the default constant-time strategy, reads exactly one item whatever the container's size."""
import z3, traceback

def add_enumerators(rep, prefix):
    from pyvc import funcmode, model as M, symx, discharge
    from pyvc.symx import Exec, St, VObj, VPy, VTup, VIter, VInt
    import collections.abc as cabc
    import beartype._check.cls.logic.logcls as mod
    from beartype import BeartypeStrategy
    uni = M.Universe()
    for c in (cabc.Sized, cabc.Collection, cabc.Sequence, cabc.Iterable, cabc.Mapping): uni.const(c)
    CAUSE = z3.Const('cause', M.Obj); SELF = z3.Const('self', M.Obj)
    def F(name): return z3.Const(f'H_{name}', z3.ArraySort(M.Obj, M.Obj))
    PITH = z3.Select(F('pith'), CAUSE); CONF = z3.Select(F('conf'), CAUSE); RINT = z3.Select(F('random_int'), CAUSE)
    ISRANDOM = z3.Select(F('is_random'), CONF); STRAT = z3.Select(F('strategy'), CONF)
    axioms = uni.axioms()
    def run(name, qual, extra_cm=None, args=None, pre=()):
        fobj, node, _ = funcmode.load('beartype/_check/cls/logic/logcls.py', qual)
        ex = Exec(uni, dict(mod.__dict__), call_model=extra_cm or {}, name=name); ex.fields_mode = True; ex.method_names = set()
        outs = ex.run_function(node, St((), tuple(pre)), args or (VObj(CAUSE),), {}, fobj)
        pr = discharge.Prover(axioms)
        for ob in ex.obls:
            r = pr.prove(list(ob.pc), ob.goal); rep.add(f'{prefix}.{name}.{ob.kind}#{ob.name.rsplit(".", 1)[-1]}', r.status, time=r.time, backend=r.backend, where=ob.where)
        return ex, outs, pr
    # ---- _get_cause_enumerator_item_sequence: (sigma, pith[sigma]) with sigma = random_int mod len if is_random else 0; ONE item read
    pre = [M.inst(PITH, uni.const(cabc.Sequence)), M.len_(PITH) > 0, z3.Implies(M.truthy(ISRANDOM), z3.And(RINT != uni.const(None), M.unbox_int(RINT) >= 0))]
    ex, outs, pr = run('get_cause_enumerator_item_sequence', '_get_cause_enumerator_item_sequence', pre=pre)
    sigma = z3.If(M.truthy(ISRANDOM), M.unbox_int(RINT) % M.len_(PITH), 0)
    for i, (s, v) in enumerate(outs):
        ok = isinstance(v, VTup) and len(v.items) == 2
        if not ok: rep.add(f'{prefix}.get_cause_enumerator_item_sequence.post.shape.path{i}', 'refuted', backend='structural', where=f'returns {v}'); continue
        r = pr.prove(list(s.pc), z3.And(ex.as_int(v.items[0]) == sigma, ex.obj(v.items[1]) == M.item(PITH, sigma)))
        rep.add(f'{prefix}.get_cause_enumerator_item_sequence.post.same_item.path{i}', r.status, time=r.time, backend=r.backend, where='index = random_int mod len under is_random, 0 otherwise: the item the fast path samples')
        r = pr.prove(list(s.pc), (s.cost if not isinstance(s.cost, int) else z3.IntVal(s.cost)) <= 1)
        rep.add(f'{prefix}.get_cause_enumerator_item_sequence.cost.path{i}', r.status, time=r.time, backend=r.backend, where='one item read, any length')
    # ---- _get_cause_enumerator_item_reiterable: (0, first(pith)); ONE item read
    pre = [M.inst(PITH, uni.const(cabc.Collection)), M.len_(PITH) > 0]
    ex, outs, pr = run('get_cause_enumerator_item_reiterable', '_get_cause_enumerator_item_reiterable', pre=pre)
    for i, (s, v) in enumerate(outs):
        ok = isinstance(v, VTup) and len(v.items) == 2
        if not ok: rep.add(f'{prefix}.get_cause_enumerator_item_reiterable.post.shape.path{i}', 'refuted', backend='structural', where=f'returns {v}'); continue
        r = pr.prove(list(s.pc), z3.And(ex.as_int(v.items[0]) == 0, ex.obj(v.items[1]) == M.first(PITH)))
        rep.add(f'{prefix}.get_cause_enumerator_item_reiterable.post.first_item.path{i}', r.status, time=r.time, backend=r.backend, where='the first yielded item: the item the fast path inspects')
        r = pr.prove(list(s.pc), (s.cost if not isinstance(s.cost, int) else z3.IntVal(s.cost)) <= 1)
        rep.add(f'{prefix}.get_cause_enumerator_item_reiterable.cost.path{i}', r.status, time=r.time, backend=r.backend, where='one item read, any size')
    # ---- _get_cause_enumerator_item_collection: dispatch on Sequence (callee contracts)
    SEQRES = VTup((VInt(z3.Int('seq_idx')), VObj(z3.Const('seq_item', M.Obj)))); REIRES = VTup((VInt(z3.Int('rei_idx')), VObj(z3.Const('rei_item', M.Obj))))
    def m_seq(ex_, s, f, a, kw, where): return [(s.ev('callee', 'sequence'), SEQRES)]
    def m_rei(ex_, s, f, a, kw, where): return [(s.ev('callee', 'reiterable'), REIRES)]
    pre = [M.inst(PITH, uni.const(cabc.Collection))]
    ex, outs, pr = run('get_cause_enumerator_item_collection', '_get_cause_enumerator_item_collection', extra_cm={mod._get_cause_enumerator_item_sequence: m_seq, mod._get_cause_enumerator_item_reiterable: m_rei}, pre=pre)
    for i, (s, v) in enumerate(outs):
        which = [e[1] for e in s.events if e[0] == 'callee']
        r = pr.prove(list(s.pc), M.inst(PITH, uni.const(cabc.Sequence)) == z3.BoolVal(which == ['sequence']))
        rep.add(f'{prefix}.get_cause_enumerator_item_collection.post.dispatch.path{i}', r.status, time=r.time, backend=r.backend, where='a Sequence pith by index, any other Collection by its first item - the same split as the quasi-iterable template')
        rep.add(f'{prefix}.get_cause_enumerator_item_collection.post.returns_callee_result.path{i}', 'proved' if (len(which) == 1 and v is (SEQRES if which[0] == 'sequence' else REIRES)) else 'refuted', backend='structural')
    # ---- HintLogicABC.enumerate_cause_items: under O1 exactly ONE pair (the callee's), never enumerate(pith)
    ITEM = VObj(z3.Const('enumerator_item', M.Obj))
    def m_item(ex_, s, f, a, kw, where): return [(s.ev('callee', 'item'), ITEM)]
    fobj, node, _ = funcmode.load('beartype/_check/cls/logic/logcls.py', 'HintLogicABC.enumerate_cause_items')
    ex = Exec(uni, dict(mod.__dict__), call_model={'._get_cause_enumerator_item': m_item}, name='enumerate_cause_items'); ex.fields_mode = True; ex.method_names = {'_get_cause_enumerator_item'}
    outs = ex.run_function(node, St(), (VObj(SELF), VObj(CAUSE)), {}, fobj)
    pr = discharge.Prover(axioms)
    O1 = uni.const(BeartypeStrategy.O1)
    for i, (s, v) in enumerate(outs):
        enum = [e for e in s.events if e[0] == 'enumerate']; items = [e for e in s.events if e[0] == 'callee']
        # what the enumerator produces, whichever way it is written: a returned iterator over a tuple display, or yields of a generator
        produced = list(v.src.items) if (isinstance(v, VIter) and isinstance(v.src, VTup)) else [e[1] for e in s.events if e[0] == 'yield']
        delegated = [e for e in s.events if e[0] == 'yield_from'] + ([v] if isinstance(v, VObj) and not isinstance(v, VIter) and enum else [])
        one = len(produced) == 1 and produced[0] is ITEM and not delegated
        r = pr.prove(list(s.pc) + [STRAT == O1], z3.BoolVal(one and not enum and len(items) == 1))
        extra = replay_errpath_cost() if r.status == 'refuted' else {}
        rep.add(f'{prefix}.enumerate_cause_items.post.O1_one_pair.path{i}', r.status, time=r.time, backend=r.backend, **extra, where=f'under the constant-time strategy the enumerator yields exactly the one sampled pair and the pith is not enumerated (produced {len(produced)}, enumerate() calls {len(enum)}, delegations {len(delegated)})')
        r = pr.prove(list(s.pc) + [STRAT != O1], z3.BoolVal(bool(enum) and not items))
        rep.add(f'{prefix}.enumerate_cause_items.post.nonO1_enumerates.path{i}', r.status, time=r.time, backend=r.backend, where='other strategies enumerate the whole pith (linear by design)')
    rep.functions += ['beartype/_check/cls/logic/logcls.py:HintLogicABC.enumerate_cause_items', 'logcls._get_cause_enumerator_item_sequence', 'logcls._get_cause_enumerator_item_reiterable', 'logcls._get_cause_enumerator_item_collection']

def safe(fn, rep, *a):
    try: fn(rep, *a)
    except Exception: rep.error(f'{fn.__name__}: ' + traceback.format_exc()[-1800:])


REPLAY_SRC = """
from pyvc import replaylib, shapes
from beartype.door import die_if_unbearable
from beartype.roar import BeartypeDoorHintViolation
def reads(n):
    obj = (replaylib.CList([1] * n), 5)          # the list conforms at every index; the sibling is the culprit
    replaylib.force_draw(3); replaylib.Reads.n = 0
    try: die_if_unbearable(obj, tuple[list[int], str])
    except BeartypeDoorHintViolation: pass
    return replaylib.Reads.n
a, b = reads(10), reads(5000)
print("item reads while describing the rejection: n=10 ->", a, " n=5000 ->", b)
sys.exit(1 if b > a + 2 else 0)
"""
def replay_errpath_cost():
    import subprocess, sys, os
    from pyvc import VERIF, REPO
    src = f"import sys, os\nos.environ['VERIF_REPO'] = {REPO!r}\nsys.path.insert(0, {VERIF!r})\n" + REPLAY_SRC
    p = subprocess.run([sys.executable, '-c', src], capture_output=True, text=True, timeout=120)
    rp = dict(kind='C09', reproduced=p.returncode == 1, tried=[dict(out=(p.stdout + p.stderr)[-300:])], detail=p.stdout.strip()[-200:])
    return dict(replay=rp, replay_script=("os.environ['VERIF_REPO'] = %r\n" % REPO) + REPLAY_SRC if p.returncode == 1 else None)
