# "async def f() -> Coroutine[None, None, int]" (a coroutine function whose
# awaited result is itself a coroutine) is rewritten to "-> int".
import asyncio, sys
from collections.abc import Coroutine
from beartype import beartype
from beartype.door import is_bearable

async def inner() -> int:
    return 1

@beartype
async def outer() -> Coroutine[None, None, int]:
    return inner()          # the awaited value *is* a Coroutine[None, None, int]

async def main():
    c = inner()
    print('value satisfies the hint:', is_bearable(c, Coroutine[None, None, int]))
    c.close()
    return await (await outer())
try:
    print(asyncio.run(main()))
except Exception as e:
    print(type(e).__name__, str(e)[:400])
    sys.exit(1)
