import sys, traceback, warnings
import beartype
from beartype.roar import BeartypeException, BeartypeWarning
assert beartype.__file__.startswith('/tmp/wt/hunt_C11'), beartype.__file__
BAD = []
def check(label, fn, user_excs=()):
    """Run fn(); flag anything other than a public beartype.roar exception (or an
    explicitly allowed user exception) and any non-beartype warning."""
    with warnings.catch_warnings(record=True) as w:
        warnings.simplefilter('always')
        try:
            fn(); print(f'[ok: no exception]   {label}')
        except user_excs as e:
            print(f'[ok: user exception] {label}: {type(e).__name__}')
        except BeartypeException as e:
            if type(e).__name__.startswith('_'):
                BAD.append(label)
                print(f'[VIOLATION private]  {label}: {type(e).__name__}: {str(e)[:140]!r}')
            else:
                print(f'[ok: beartype exc]   {label}: {type(e).__name__}')
        except BaseException as e:
            BAD.append(label)
            fr = traceback.extract_tb(e.__traceback__)[-1]
            print(f'[VIOLATION]          {label}: {type(e).__name__}: {str(e)[:140]} (raised at {fr.filename}:{fr.lineno})')
    for x in w:
        if not issubclass(x.category, BeartypeWarning):
            BAD.append(label)
            print(f'[VIOLATION warning]  {label}: {x.category.__name__}: {str(x.message)[:120]}')
def finish():
    print(f'{len(BAD)} violation(s)'); sys.exit(1 if BAD else 0)
# ---------------------------------------------------------------------------
# Finding 8: beartype.vale.IsAttr[name, <non-validator>] leaks AttributeError instead of
# BeartypeValeSubscriptionException (every other malformed vale subscription raises the latter).
import typing as T
from beartype.vale import IsAttr, IsEqual, Is
check("IsAttr['real', 1]", lambda: T.Annotated[object, IsAttr['real', 1]])
check("IsAttr['real', int]", lambda: T.Annotated[object, IsAttr['real', int]])
check("IsAttr['real.imag', 'x']", lambda: T.Annotated[object, IsAttr['real.imag', 'x']])
check("IsAttr['real', lambda x: True]", lambda: IsAttr['real', lambda x: True])
check("IsAttr[1, IsEqual[1]]   (control)", lambda: IsAttr[1, IsEqual[1]])
check("Is[1]                   (control)", lambda: Is[1])
finish()
