# Finding 8 (minor, inherent to wrapping): every decorated generator adds one
# interpreter frame per delegation level, so a recursive generator that works
# undecorated raises RecursionError once decorated.
import sys
from beartype import beartype

def make(decorate):
    def countdown(n: int):
        if n:
            yield from countdown(n - 1)
        yield n
    if decorate:
        countdown = beartype(countdown)      # recursive calls now hit the wrapper
    return countdown

def scenario(decorate):
    f = make(decorate)
    try:
        return ('yielded', sum(1 for _ in f(700)))
    except RecursionError as exc:
        return ('raised', type(exc).__name__)

sys.setrecursionlimit(1000)
orig, bear = scenario(False), scenario(True)
print('orig:', orig)
print('bear:', bear)
sys.exit(orig != bear)
