"""Mode (G): obligations for the REAL generated checker of one shape (hint source + conf source).

For a shape the real generator of the working tree is run, the exact text handed to make_func() is captured, parsed and
executed symbolically for ALL objects x and ALL 32-bit draws r; the property sentences become obligations on every path."""
import ast, z3, time, traceback, collections.abc as cabc
from . import model as M, symx, capture
from .model import Obj
from .symx import VObj, VInt, VBool, VPy, St, Exec, Unsupported
from .spec import Spec
from .discharge import prove

R32 = 2 ** 32

def _isvalidbool_contract(ex, s, f, args, kwargs, where):
    """callee contract of beartype.vale.Is's closure `_is_valid_bool(obj)`: returns bool(is_valid(obj)) when the user
    callable returns a bool-like (precondition: validators return bool-likes; otherwise BeartypeValeValidationException).
    The closure body itself is verified under C12."""
    fn = f.o; cell = dict(zip(fn.__code__.co_freevars, fn.__closure__))['is_valid'].cell_contents
    at = ex.obj(args[0]); s = s.eff('usercall', ex.uni.const(cell), at)
    return [(s, VBool(M.truthy(M.callres(ex.uni.const(cell), at))))]

class GetRandBits:
    def __init__(self, r): self.r = r
    def __call__(self, ex, s, f, args, kwargs, where):
        return [(s.ev('getrandbits'), VInt(self.r))]

def qualname_models(scope, r):
    cm = {}
    for k, v in scope.items():
        qn = getattr(v, '__qualname__', '')
        if qn.endswith('_IsFactory.__getitem__.<locals>._is_valid_bool'): cm[v] = _isvalidbool_contract
        if k == '__beartype_getrandbits': cm[v] = GetRandBits(r)
    return cm

def run_tester(code, scope, uni, name, extra_models=None):
    """symbolically execute a captured checker function `def f(__beartype_pith_0, ...)`; returns (exec, x, r, outcomes)"""
    tree = ast.parse(code); fn = tree.body[0]
    assert isinstance(fn, ast.FunctionDef)
    x = z3.Const('x', Obj); r = z3.Int('r')
    cm = qualname_models(scope, r)
    if extra_models: cm.update(extra_models)
    ex = Exec(uni, scope, call_model=cm, name=name)
    env = {fn.args.args[0].arg: VObj(x)}
    # every other parameter is a keyword default bound to the scope entry of the same name (checked syntactically)
    for a, d in zip(fn.args.args[1:], fn.args.defaults):
        assert isinstance(d, ast.Name) and d.id == a.arg, 'checker parameter default is not its own scope entry'
    st = St(tuple(env.items()), (z3.And(0 <= r, r < R32),))
    outs = ex.exec_block(fn.body, st)
    return ex, x, r, outs

ALLOWED_EFFECTS = {'isinstance', 'issubclass', 'len', 'eq', 'getitem_int', 'getitem_key', 'iter', 'next', 'getattr', 'usercall',
                   'view_values', 'view_keys', 'view_items'}

def shape_obligations(hint_src, conf_src='BeartypeConf()', want=('C01', 'C02', 'C09', 'C10'), vacuity=False):
    """-> dict(result record).  Runs in a worker process."""
    from . import shapes
    t0 = time.time()
    rec = dict(shape=hint_src, conf=conf_src, obligations=[], error=None, code=None, paths=0)
    try:
        capture.install(); capture.clear_beartype_caches(); capture.drain()
        hint = shapes.ev(hint_src); conf = shapes.ev(conf_src)
        from beartype.door import is_bearable
        from beartype.roar import BeartypeException
        try:
            is_bearable(None, hint, conf=conf)
        except BeartypeException as e:
            caps = capture.drain()
            rec['error'] = f'generator raised {type(e).__name__}: {str(e)[:300]}'; rec['gen_exception'] = type(e).__name__
            rec['code'] = caps[-1].code if caps else None
            from . import replaylib
            try:
                ok, detail = replaylib.replay_gen('defined', hint_src, conf_src, 'None', 0)
                rec['gen_replay'] = dict(kind='defined', reproduced=ok, obj='None', r=0, detail=detail, extra=None)
            except Exception as e2: rec['gen_replay'] = dict(kind='defined', reproduced=False, error=str(e2)[:200])
            return rec
        caps = capture.drain()
        uni = M.Universe()
        for c in (cabc.Sized, cabc.Collection, cabc.Sequence, cabc.Mapping, cabc.Iterable, cabc.Set, tuple, type(None)): uni.const(c)
        sp = Spec(uni, conf)
        if not caps:
            # ignorable hint: the real API returns the constant-True checker without generating code
            x = z3.Const('x', Obj)
            rec['ignorable'] = True
            goal = sp.conforms(hint, x)   # registers constants
            res = prove(uni.axioms(), [], z3.Not(sp.must_reject(hint, x)))
            rec['obligations'].append(dict(name='C02.ignorable_is_universal', kind='post', status=res.status, time=res.time, backend=res.backend))
            rec['wall'] = time.time() - t0
            return rec
        cap = caps[-1]; rec['code'] = cap.code
        ex, x, r, outs = run_tester(cap.code, cap.scope, uni, hint_src)
        rec['paths'] = len(outs)
        conf_f = sp.conforms(hint, x); mr_f = sp.must_reject(hint, x); cons_f = sp.consistent(hint, x)
        bound = sp.read_bound(hint)
        is_random = bool(conf.is_random)
        seqs = list(sp.root_sequences(hint, x))
        axioms = uni.axioms()
        from .discharge import Prover
        prover = Prover(axioms)
        def add(name, kind, hyps, goal, prop, where='', extra=None):
            res = prover.prove(hyps, goal)
            o = dict(name=name, kind=kind, prop=prop, status=res.status, time=round(res.time, 4), backend=res.backend, where=where)
            if res.status == 'refuted':
                if res.model is not None: o['model'] = summarize_model(res.model, uni, x, r)
                if sum(1 for q in rec['obligations'] if (q.get('replay') or {}).get('tried')) < 6 or not any((q.get('replay') or {}).get('reproduced') for q in rec['obligations']):
                    o['replay'] = try_replay(name, res, uni, x, r, hint_src, conf_src, extra)
                o['solver_output'] = f'{res.backend}: sat' + (f' model digest {o.get("model")}' if 'model' in o else '')
            if res.status == 'undecided': o['reason'] = res.reason
            rec['obligations'].append(o)
        if vacuity:
            # guards against vacuity: the premises are satisfiable, and a deliberately false postcondition is refuted
            import z3 as _z
            def sat(f):
                for seed in (0, 7, 23):
                    sv = _z.Solver(); sv.set('timeout', 5000); sv.set('random_seed', seed); sv.add(*axioms); sv.add(f)
                    rr = sv.check()
                    if rr != _z.unknown: return rr
                # last resort: the ground (quantifier-free) part only - still detects a contradictory premise
                sv = _z.Solver(); sv.set('timeout', 5000); sv.add(*[a for a in axioms if not _z.is_quantifier(a)]); sv.add(f)
                return sv.check() if sv.check() != _z.sat else 'sat-ground-only'
            k0 = sp.k(hint)[0]
            checks = [('canary.accepts_everything', _z.Not(_z.And(*[_z.Implies(_z.And(*s_.pc), ex.truth(v_)) for kd_, s_, v_ in outs if kd_ == 'return'])) if len(outs) > 1 else None)]
            if k0 not in ('never',): checks.append(('pre.conforms_sat', conf_f))
            if k0 not in ('any',): checks.append(('pre.mustreject_sat', mr_f))
            for nm, f in checks:
                if f is None: continue
                rr = sat(f)
                rec['obligations'].append(dict(name=nm, kind='vacuity', prop='vacuity', status='ok' if (rr == _z.sat or rr == 'sat-ground-only') else str(rr), time=0, backend='z3'))
        # definedness: the checker never raises (for any protocol-respecting object, conforming or not)
        for ob in ex.obls:
            add(f'{ob.kind}#{ob.name.rsplit(".", 1)[-1]}', ob.kind, list(ob.pc), ob.goal, 'C01', ob.where)
        for pi, (kind, s, v) in enumerate(outs):
            if kind != 'return':
                add(f'frame.path{pi}.{kind}', 'frame', list(s.pc), z3.BoolVal(False), 'C03', f'tester path ends with {kind}')
                continue
            tv = ex.truth(v); pc = list(s.pc)
            if 'C01' in want: add(f'C01.post.path{pi}', 'post', pc + [conf_f], tv, 'C01')
            if 'C02' in want:
                add(f'C02.mustreject.path{pi}', 'post', pc + [mr_f], z3.Not(tv), 'C02')
                add(f'C02.consistent.path{pi}', 'post', pc + [tv], cons_f, 'C02')
                for si, (org, ih, sterm) in enumerate(seqs):
                    i = z3.Int('i_reach')
                    if is_random:
                        hy = pc + [0 <= i, i < M.len_(sterm), M.len_(sterm) <= R32, sp._cls(sterm, org), sp.must_reject(ih, M.item(sterm, i)), r == i]
                        add(f'C02.reach.seq{si}.path{pi}', 'post', hy, z3.Not(tv), 'C02')
                    else:
                        hy = pc + [M.len_(sterm) > 0, sp._cls(sterm, org), sp.must_reject(ih, M.item(sterm, 0))]
                        add(f'C02.nonrandom0.seq{si}.path{pi}', 'post', hy, z3.Not(tv), 'C02')
            if 'C09' in want:
                add(f'C09.cost.path{pi}', 'cost', pc, (s.cost if not isinstance(s.cost, int) else z3.IntVal(s.cost)) <= bound, 'C09', f'bound={bound}', extra=dict(bound=bound))
                reads = [e[1:] for e in s.events if e and e[0] == 'read']
                over = sp.level_budget([hint], x, reads)
                if over:
                    # only a feasible path counts: the path condition must be satisfiable
                    t_, seen_, allowed_ = over[0]
                    add(f'C09.level.path{pi}', 'cost', pc, z3.BoolVal(False), 'C09', f'container {t_}: {seen_}, the hint allows {allowed_} per evaluation (one item / one key and its value per container nesting level)', extra=dict(allowed=allowed_))
                else:
                    rec['obligations'].append(dict(name=f'C09.level.path{pi}', kind='cost', status='proved', time=0.0, backend='structural', prop='C09', where=f'{len(reads)} reads, each container object read at most as often as the container nodes of the hint applying to it allow'))
            if 'C09' in want:
                # "Iterables that are not collections are not iterated at all": every item read happens on an established Collection
                for ei, (op, tgt, detail) in enumerate(s.effects):
                    if op in ('iter', 'next') and tgt is not None:
                        add(f'C09.noncollection_not_iterated.path{pi}.{ei}.{op}', 'cost', pc, M.inst(tgt, uni.const(cabc.Collection)), 'C09', 'an item is only ever read from an object known to be a Collection')
            if 'C10' in want:
                for ei, (op, tgt, detail) in enumerate(s.effects):
                    if op == 'bool':
                        # truth-testing runs the object's __bool__: fine for what user callables (validators) return, not for the subject or a part of it
                        if z3.is_app(tgt) and tgt.decl().name() == 'callres': continue
                        add(f'C10.effect.path{pi}.{ei}.bool', 'effect', pc, z3.BoolVal(False), 'C10', f'truth-testing {tgt}: runs __bool__ of the checked object (or of one of its items), which is not read-only protocol code the property allows')
                    elif op not in ALLOWED_EFFECTS:
                        add(f'C10.effect.path{pi}.{ei}.{op}', 'effect', pc, z3.BoolVal(False), 'C10', f'operation {op} is not in the read-only whitelist')
                    elif op in ('iter', 'next') and tgt is not None:
                        add(f'C10.effect.path{pi}.{ei}.{op}', 'effect', pc, M.inst(tgt, uni.const(cabc.Collection)), 'C10', 'iteration only of re-iterable collections')
                        # ... and never of an object the path has itself ESTABLISHED to be an iterator (iter(it) is it: next(iter(it)) advances the subject) - e.g. an
                        # Iterator[T] hint routed to a deep check.  Decided on the path condition's own conjuncts (no solver call).  An object that is merely not
                        # EXCLUDED from also being its own iterator is a documented limitation of the generated guards (DESIGN 5, reports not taken up).
                        if op == 'next':
                            atom = M.inst(tgt, uni.const(cabc.Iterator))
                            definite = any(c.eq(atom) for c in pc)
                            rec['obligations'].append(dict(name=f'C10.effect.path{pi}.{ei}.next.advances_an_established_iterator', kind='effect', prop='C10', status='refuted' if definite else 'proved', time=0.0, backend='structural',
                                                           where='next() on an object this very path has established to be an Iterator: the check consumes an item of its subject' if definite else 'the iterated object is not established to be an Iterator on this path'))
        if not is_random and 'getrandbits' in cap.code and 'C02' in want:
            pass
        rec['assumptions'] = sorted(ex.assumptions); rec['dropped'] = sorted(ex.dropped)
    except Unsupported as e:
        rec['error'] = 'unsupported: ' + str(e)
    except NotImplementedError as e:
        rec['error'] = 'spec: ' + str(e)
    except Exception as e:
        rec['error'] = 'crash: ' + traceback.format_exc()[-1500:]
    rec['wall'] = round(time.time() - t0, 3)
    return rec

def summarize_model(m, uni, x, r):
    """small, picklable digest of a counter-model (the concretiser re-solves; this is for the report)"""
    out = {}
    try:
        out['r'] = str(m.eval(r, model_completion=True))
        xv = m.eval(x, model_completion=True)
        out['len(x)'] = str(m.eval(M.len_(x), model_completion=True))
        cls = []
        for zc, o in uni.classes():
            if z3.is_true(m.eval(M.inst(x, zc), model_completion=True)): cls.append(getattr(o, '__name__', str(o)))
        out['inst(x)'] = cls
    except Exception as e:
        out['err'] = str(e)
    return out

REPLAY_KIND = [('C01.post', 'C01'), ('C02.mustreject', 'C02.mustreject'), ('C02.reach', 'C02.reach'), ('C02.nonrandom0', 'C02.reach'),
               ('C02.consistent', 'C02.consistent'), ('defined', 'defined'), ('C09.cost', 'C09'), ('C09.level', 'C09L'), ('C09.noncollection', 'C10'), ('C10.effect', 'C10'), ('frame', 'defined')]
def try_replay(name, res, uni, x, r, hint_src, conf_src, extra):
    """concretise the refuting model (progressively weaker size bounds) and replay on the real code; first reproduction wins"""
    from . import concretise, replaylib
    kind = next((k for pre, k in REPLAY_KIND if name.startswith(pre)), None)
    out = dict(kind=kind, reproduced=False, tried=[])
    if kind is None or res.solver is None: return out
    try:
        for b, m in concretise.resolve_small(res):
            try:
                cz = concretise.Concretiser(m, uni, counting=(kind in ('C09', 'C09L')))
                obj_src = cz.build(x); rv = concretise._int(m, r)
                ok, detail = replaylib.replay_gen(kind, hint_src, conf_src, obj_src, rv, extra)
            except Exception as e:
                out['tried'].append(dict(bound=b, error=f'{type(e).__name__}: {e}'[:200])); continue
            out['tried'].append(dict(bound=b, obj=obj_src, r=rv, reproduced=ok, detail=detail[:300]))
            if ok:
                out.update(reproduced=True, obj=obj_src, r=rv, detail=detail[:300], extra=extra); break
        if not out['reproduced'] and kind == 'C02.reach' and '.reach.' in name:
            fb = replaylib.reach_fallback(hint_src, conf_src)
            if fb: out.update(reproduced=True, obj=fb[0], r=fb[1], detail=fb[2], extra=extra); out['tried'].append(dict(bound='guided', obj=fb[0], r=fb[1], reproduced=True, detail=fb[2]))
    except Exception as e:
        out['error'] = f'{type(e).__name__}: {e}'[:300]
    return out
