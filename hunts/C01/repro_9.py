# A classic (pre-PEP 695) recursive alias spelled with a forward reference is
# expanded without any recursion guard until the internal 256-slot hint queue
# overflows; the overflow handler then itself crashes with AttributeError.
import sys
from typing import Union
from beartype import beartype
from beartype.door import is_bearable

Json = Union[int, str, list['Json'], dict[str, 'Json']]
value = {'a': [1, 'x', {'b': []}]}
bad = 0
try:
    print(is_bearable(value, Json))
except Exception as e:
    bad += 1
    print('is_bearable:', type(e).__name__, str(e)[:150])
try:
    @beartype
    def f(x: Json) -> Json:
        return x
    f(value)
except Exception as e:
    bad += 1
    print('@beartype:', type(e).__name__, str(e)[:150])
# Control: the PEP 695 spelling of the same alias works.
type Json2 = int | str | list[Json2] | dict[str, Json2]
print('PEP 695 spelling:', is_bearable(value, Json2))
sys.exit(1 if bad else 0)
