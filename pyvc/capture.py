"""Mode (G): run the REAL generator of the working tree and capture the exact source text + scope it hands to
make_func().  No repository edit: the name `make_func` is rebound in the importing modules' globals."""
from . import use_repo
use_repo()
import importlib

class Captured:
    def __init__(self, name, code, scope, kw): self.name, self.code, self.scope, self.kw = name, code, scope, kw
    def __repr__(self): return f'<Captured {self.name} {len(self.code)} chars>'

_LOG = []
_installed = False
_MODS = ('beartype._check.checkmake', 'beartype._decor._nontype.decornontype')
def install():
    global _installed
    if _installed: return
    for mn in _MODS:
        m = importlib.import_module(mn)
        orig = m.make_func
        def spy(*a, __orig=orig, **k):
            _LOG.append(Captured(k.get('func_name'), k.get('func_code'), dict(k.get('func_locals') or {}), k))
            return __orig(*a, **k)
        m.make_func = spy
    _installed = True

def drain():
    out = list(_LOG); _LOG.clear(); return out

def clear_beartype_caches():
    """force regeneration: empty the door-level checker caches (directly, not relying on clear_caches alone)"""
    try:
        from beartype._util.cache.utilcacheclear import clear_caches
        clear_caches()
    except Exception: pass
    import beartype.door._func.doorfunc as df
    for n, v in vars(df).items():
        if isinstance(v, dict) and n.startswith('_HINT_CONF'): v.clear()
    try:
        import beartype._check.code.codemain as cm
        cm._HINT_CONF_TO_CHECK_EXPR.clear()
    except Exception: pass

def check_expr(hint, conf=None):
    """(code, scope) of make_check_expr for a root hint under conf, as called by the statement-level API."""
    from beartype._check.code.codemain import make_check_expr
    from beartype._check.convert.convmain import sanify_hint_root_statement
    from beartype._check.cls.call.calldataexternal import BEARTYPE_CALL_EXTERNAL_META as META
    from beartype._conf.confcommon import BEARTYPE_CONF_DEFAULT
    conf = conf or BEARTYPE_CONF_DEFAULT
    hs = sanify_hint_root_statement(call_curr=META, hint=hint, conf=conf, exception_prefix='')
    return make_check_expr(META, conf, hs)
