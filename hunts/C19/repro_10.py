# Transitivity: typing.Generic / typing.Protocol (which every object satisfies and which are "ignorable").
import sys
from typing import Generic, Protocol, SupportsInt
from beartype.door import is_subhint, TypeHint
bad = 0
for C in (Generic, Protocol):
    ab, bc, ac = is_subhint(int, SupportsInt), is_subhint(SupportsInt, C), is_subhint(int, C)
    print(f'int <= SupportsInt: {ab}; SupportsInt <= {C.__name__}: {bc}; int <= {C.__name__}: {ac}; TypeHint({C.__name__}).is_ignorable: {TypeHint(C).is_ignorable}')
    bad |= (ab and bc and not ac)
sys.exit(1 if bad else 0)
