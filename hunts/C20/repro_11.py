# Emptiness is decided by truthiness ("if not obj") rather than len(): collections
# whose __bool__() disagrees with emptiness, or raises, break infer_hint().
import numpy as np
from beartype.door import infer_hint, is_bearable

class Result(list):
    '''A list whose truthiness means "succeeded", not "non-empty".'''
    def __bool__(self): return True

bad = 0
for name, obj in (('Result() (empty, truthy list subclass)', Result()),
                  ('np.matrix', np.matrix([[1, 2], [3, 4]])),
                  ('np.ma.array', np.ma.array([1, 2, 3], mask=[0, 1, 0])),
                  ('[np.matrix]', [np.matrix([[1, 2]])])):
    try:
        hint = infer_hint(obj)
        ok = is_bearable(obj, hint)
        print(f'{name}: hint={hint!r} -> {ok}'); bad += ok is not True
    except Exception as e:
        print(f'{name}: raised {type(e).__name__}: {e}'); bad += 1
raise SystemExit(1 if bad else 0)
