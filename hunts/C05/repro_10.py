# The hook's bytecode cache is keyed on (source path, configuration) only, but
# the cached bytecode hard-codes the module NAME it was first compiled under.
# (PYTHONDONTWRITEBYTECODE is removed from the child environments; all bytecode
# goes to a throw-away PYTHONPYCACHEPREFIX directory.)
import os, subprocess, sys, tempfile, textwrap
root = tempfile.mkdtemp(prefix='c05_pyc_')
os.makedirs(os.path.join(root, 'pkg'))
open(os.path.join(root, 'pkg', '__init__.py'), 'w').close()
with open(os.path.join(root, 'pkg', 'mod.py'), 'w') as f:
    f.write('def f(x: int) -> int:\n    return x\n')
child = textwrap.dedent(f'''
    import sys, importlib
    sys.path[:0] = [{root!r}, {os.path.join(root, "pkg")!r}]
    from beartype.claw import beartype_packages
    beartype_packages(('mod', 'pkg'))
    m = importlib.import_module(sys.argv[1])
    print(sys.argv[1], 'imported, f(1) =', m.f(1))
''')
env = {k: v for k, v in os.environ.items() if k != 'PYTHONDONTWRITEBYTECODE'}
env['PYTHONPATH'] = '/tmp/wt/hunt_C05'
env['PYTHONPYCACHEPREFIX'] = os.path.join(root, 'pycache')
rc = 0
for name in ('mod', 'pkg.mod'):       # same file, first as "mod", then as "pkg.mod"
    p = subprocess.run([sys.executable, '-c', child, name], env=env,
                       capture_output=True, text=True, cwd='/tmp/wt/hunt_C05')
    err = [l for l in p.stderr.splitlines() if 'Exception' in l or 'Error' in l]
    print(p.stdout.strip() or ('import of %r FAILED: ' % name) + (err[-1][:200] if err else p.stderr[-300:]))
    rc |= p.returncode
print('cached:', os.listdir(os.path.join(root, 'pycache') + os.path.join(root, 'pkg')))
sys.exit(1 if rc else 0)
