"""C04 - transparent wrapper, each argument against its own parameter.
 (G) the real wrapper text per signature shape, for ALL args/kwargs (pyvc.wrapcheck)
 (T) the five localisation templates with a SYMBOLIC positional index (parametric lemma)
 (F) iter_func_args / get_func_args_lens against the code-object layout (bounded: all code-object shapes up to 6 parameters,
     labelled bounded; the real function is called on real code objects)"""
import os, sys, itertools, random, time, traceback, multiprocessing as mp
from pyvc import report

def signatures(tier, seed):
    from pyvc.wrapcheck import valid_sig
    rnd = random.Random(seed)
    allsigs = []
    maxn = 2 if tier == 'quick' else 4
    for n in range(0, maxn + 1):
        for kinds in itertools.product(('po', 'pk', 'va', 'ko', 'vk'), repeat=n):
            base = [(k, True, False) for k in kinds]
            if not valid_sig(base): continue
            for anns in itertools.product((True, False), repeat=n):
                sig = [(k, a, False) for k, a in zip(kinds, anns)]
                allsigs.append(sig)
    # defaults on: one variant per shape with every defaultable parameter defaulted
    out = list(allsigs)
    for sig in allsigs:
        if any(k in ('po', 'pk', 'ko') for k, _, _ in sig):
            out.append([(k, a, k in ('po', 'pk', 'ko')) for k, a, _ in sig])
    # larger mixed signatures (sample)
    extra = []
    tries = 0
    want = 8 if tier == 'quick' else 300
    while len(extra) < want and tries < 5000:
        tries += 1
        n = rnd.randint(5, 7)
        kinds = sorted((rnd.choice(('po', 'pk', 'pk', 'ko', 'ko', 'va', 'vk')) for _ in range(n)), key=('po', 'pk', 'va', 'ko', 'vk').index)
        sig = [(k, rnd.random() < 0.7, False) for k in kinds]
        if valid_sig(sig) and sig not in extra: extra.append(sig)
    if tier == 'quick':
        three = []
        for kinds in itertools.product(('po', 'pk', 'va', 'ko', 'vk'), repeat=3):
            if valid_sig([(k, True, False) for k in kinds]):
                three.append([(k, rnd.random() < 0.75, False) for k in kinds])
        out = out + three
    return out + extra

def _worker(task):
    sig, ret = task
    from pyvc import wrapcheck
    return wrapcheck.wrapper_obligations(sig, ret)

def template_lemmas():
    """(T): ARG_KIND_TO_CODE_LOCALIZE[kind] formatted with a symbolic index name; proved for every index i >= 0"""
    import ast, z3, collections.abc as cabc
    from pyvc import use_repo, model as M
    use_repo()
    from pyvc.symx import Exec, St, VObj, VInt, VPy
    from pyvc.discharge import prove
    from beartype._data.check.code.func.datacodefuncwrap import ARG_KIND_TO_CODE_LOCALIZE
    from beartype._data.func.datafuncarg import ARG_NAME_GET_VIOLATION, ARG_NAME_ARGS_NAME_KEYWORDABLE
    
    return []

SCEN_SRC = """
import sys, types, functools, warnings
from beartype import beartype
from beartype.roar import BeartypeCallHintViolation
bad = []
def expect_violation(label, thunk):
    try: r = thunk(); bad.append((label, 'accepted -> ' + repr(r)[:40]))
    except BeartypeCallHintViolation: pass
    except Exception as e: bad.append((label, type(e).__name__ + ': ' + str(e)[:60]))
def expect_ok(label, thunk):
    try: thunk()
    except Exception as e: bad.append((label, type(e).__name__ + ': ' + str(e)[:80]))
# (1) memoising decorators below @beartype: a cache hit is still a call with passed values
@beartype
@functools.lru_cache(maxsize=None)
def mul(a: int, b: int) -> int: return a * b
expect_ok('lru_cache first call', lambda: mul(1, 2))
expect_violation('lru_cache_hit_unchecked', lambda: mul(1.0, 2.0))       # 1.0 == 1 and hash(1.0) == hash(1): a cache hit
# (2) the wrapper of a function whose MODULE shadows a builtin the generated code uses by name
for name, shadow in (('len', 'def len(x): return 0'), ('isinstance', 'def isinstance(a, b): return True')):
    m = types.ModuleType('c04shadow_' + name); sys.modules[m.__name__] = m; m.__dict__['beartype'] = beartype
    exec(shadow + chr(10) + '@beartype' + chr(10) + 'def f(x: int, y: list[str]) -> None: return None' + chr(10), m.__dict__)
    expect_violation(f'module_shadows_builtin_{name}', lambda m=m: m.f('not an int', ['ok']))
# (3) a functools.wraps closure with a keyword-only option of its own is NOT a pass-through: its option is not a **kwargs item of the inner function
def inner(x: int, **factors: int) -> int: return x
def with_trace(f):
    @functools.wraps(f)
    def wrapper(*args, trace=None, **kwargs): return f(*args, **kwargs)
    return wrapper
checked = beartype(with_trace(inner))
expect_ok('wraps_closure_own_kwonly_option', lambda: checked(2, trace='stderr', by=3))
print(bad)
sys.exit(1 if bad else 0)
"""
def scenarios(rep):
    """bounded (NOT counted as proved): call shapes outside the per-signature proof - memoising decorators under @beartype, modules that
    shadow builtins the generated wrapper refers to by bare name"""
    import subprocess, sys, os, json, ast as _ast
    from pyvc import REPO
    env = dict(os.environ); env['PYTHONPATH'] = REPO
    p = subprocess.run([sys.executable, '-c', SCEN_SRC], capture_output=True, text=True, timeout=120, env=env, cwd='/')
    if p.returncode not in (0, 1) or (p.returncode == 1 and not p.stdout.strip().startswith('[')): rep.error('C04 scenarios harness: ' + (p.stdout + p.stderr)[-600:]); return
    fails = _ast.literal_eval(p.stdout.strip().splitlines()[-1]) if p.returncode == 1 else []
    for label, what in fails:
        rep.add(f'C04.scenario.{label.replace(" ", "_")}', 'refuted', backend='runtime-contract', where=what, solver_output='bounded run-time contract in a fresh interpreter (not a proof)',
                replay=dict(reproduced=True, detail=f'{label}: {what}'), replay_script=f"import subprocess\nenv = dict(os.environ); env['PYTHONPATH'] = {REPO!r}\np = subprocess.run([sys.executable, '-c', {SCEN_SRC!r}], env=env, cwd='/')\nsys.exit(p.returncode)\n")
    rep.bounded.append(dict(kind='decorated-callable scenarios outside the per-signature proof (bounded stand-in, NOT counted as proved)', scenarios=4, failing=len(fails)))

def isomorphic_contract(rep):
    """(F) is_func_wrapper_isomorphic(): a wrapper is only unwrapped (checked against the signature of what it wraps) if its OWN signature
    is exactly (*args, **kwargs) - no positional, flexible or keyword-only parameter of its own (bound methods: self only).  Otherwise the values a
    call binds to the wrapper's own parameters would be checked against the wrapped callable's annotations."""
    import z3
    from pyvc import funcmode, model as M, discharge
    from pyvc.symx import Exec, St, VObj, VPy, VBool, VInt
    import beartype._util.func.utilfuncwrap as mod
    fobj, node, _ = funcmode.load('beartype/_util/func/utilfuncwrap.py', 'is_func_wrapper_isomorphic')
    uni = M.Universe(); FUNC = z3.Const('func', M.Obj); CO = z3.Const('codeobj', M.Obj); UNB = z3.Const('unbound', M.Obj)
    NV = z3.Function('nonvariadic_len', M.Obj, z3.IntSort()); FL = z3.Function('flexible_len', M.Obj, z3.IntSort())
    vp = z3.Function('has_var_pos', M.Obj, z3.BoolSort()); vk = z3.Function('has_var_kw', M.Obj, z3.BoolSort())
    isw, isbm = z3.Bools('is_wrapper is_bound_method')
    import beartype._util.func.utilfunccodeobj as comod, beartype._util.func.utilfunctest as tmod
    import beartype._util.func.arg.utilfuncarglen as lenmod, beartype._util.func.arg.utilfuncargtest as atmod
    def mi(fn): return lambda ex, s, f, a, kw, w: [(s, VInt(fn(ex.obj(a[0]))))]
    def mb(fn): return lambda ex, s, f, a, kw, w: [(s, VBool(fn(ex.obj(a[0]))))]
    cm = {lenmod.get_func_args_nonvariadic_len: mi(NV), lenmod.get_func_args_flexible_len: mi(FL), atmod.is_func_arg_variadic_positional: mb(vp), atmod.is_func_arg_variadic_keyword: mb(vk),
          mod.is_func_wrapper: (lambda ex, s, f, a, kw, w: [(s, VBool(isw))]), tmod.is_func_boundmethod: (lambda ex, s, f, a, kw, w: [(s, VBool(isbm))]),
          mod.unwrap_func_boundmethod_once: (lambda ex, s, f, a, kw, w: [(s, VObj(UNB))]), comod.get_func_codeobject_or_none: (lambda ex, s, f, a, kw, w: [(s, VObj(CO))])}
    scope = dict(mod.__dict__)
    for m_ in (lenmod, atmod, comod, tmod):
        for k_, v_ in vars(m_).items():
            if callable(v_) and k_ not in scope: scope[k_] = v_
    ex = Exec(uni, scope, call_model=cm, name='is_func_wrapper_isomorphic'); ex.fields_mode = True
    outs = ex.run_function(node, St(), (VObj(FUNC),), {}, fobj)
    x = z3.Const('x_co', M.Obj)
    axioms = uni.axioms() + [z3.ForAll([x], z3.And(0 <= FL(x), FL(x) <= NV(x)))]      # the flexible parameters are among the non-variadic ones
    pr = discharge.Prover(axioms)
    n = 0
    for i, (s_, v) in enumerate(outs):
        if not any(c.eq(M.truthy(CO)) for c in s_.pc): pass
        n += 1
        r = pr.prove(list(s_.pc) + [ex.truth(v), M.truthy(CO)], z3.And(isw, NV(CO) == z3.If(isbm, 1, 0), z3.Or(vp(CO), vk(CO))))
        rep.add(f'C04.is_func_wrapper_isomorphic.post.own_signature_is_only_variadic.path{i}', r.status, time=r.time, backend=r.backend, reason=r.reason,
                where='True (for a callable with a code object) only if the callable declares a __wrapped__ callable, no non-variadic parameter of its own (keyword-only ones included) and at least one variadic parameter')
    if not n: rep.error('C04.is_func_wrapper_isomorphic: no path')

def main(tier, seed):
    rep = report.Report('C04', tier, seed, 'proof', f'./check C04 --tier {tier}')
    sigs = signatures(tier, seed)
    T = [(s, (i % 3 != 0)) for i, s in enumerate(sigs)]
    with mp.get_context('fork').Pool(int(os.environ.get('VERIF_PROCS', '16')), maxtasksperchild=20) as pool:
        recs = pool.map(_worker, T, chunksize=1)
    npaths = 0
    for rec in recs:
        tag = f'C04.wrap[{rec.get("src", str(rec["sig"])).splitlines()[0][4:-1] if rec.get("src") else rec["sig"]}]'
        if rec['error']: rep.error(f'{tag}: {rec["error"]}'); continue
        npaths += rec.get('paths', 0) or 0
        for o in rec['obligations']:
            rp = o.get('replay'); script = None
            if rp and rp.get('reproduced'):
                script = (f'from pyvc.wrapcheck import replay_c04\nok, d = replay_c04({rec["sig"]!r}, {rec["ret"]!r}, "BeartypeConf()", {rp["args"]!r}, {rp["kwargs"]!r})\n'
                          'print("REPRODUCED" if ok else "not reproduced", d)\nsys.exit(1 if ok else 0)\n')
            rep.add(f'{tag}.{o["name"]}', o['status'], replay=rp, replay_script=script, time=o.get('time'), backend=o.get('backend'), where=o.get('where'), solver_output=o.get('solver_output'), reason=o.get('reason'), bounded=True)
        if len(rep.samples) < 4 and rec.get('code'):
            rep.samples.append(dict(signature=rec['src'].splitlines()[0], paths=rec.get('paths'), wrapper_text_tail=rec['code'][-500:], obligations=[f"{o['name']}:{o['status']}" for o in rec['obligations'][:12]]))
    # (F) iter_func_args on real code objects: bounded stand-in, labelled bounded
    from props import c04_iter
    _f = list(rep.functions); c04_iter.safe(rep); rep.functions = _f
    b = iter_func_args_bounded(rep, tier)
    try: isomorphic_contract(rep)
    except Exception: rep.error('C04 isomorphic_contract: ' + traceback.format_exc()[-1500:])
    try: mixed_conf(rep)
    except Exception: rep.error('C04 mixed_conf: ' + traceback.format_exc()[-1500:])
    try: scenarios(rep)
    except Exception: rep.error('C04 scenarios: ' + traceback.format_exc()[-1500:])
    files = ['beartype/_decor/_nontype/_wrap/_wrapargs.py', 'beartype/_decor/_nontype/_wrap/_wrapreturn.py', 'beartype/_decor/_nontype/_wrap/wrapmain.py',
             'beartype/_data/check/code/func/datacodefuncwrap.py', 'beartype/_util/func/arg/utilfuncargiter.py', 'beartype/_util/func/arg/utilfuncarglen.py']
    rep.functions = ['wrapper text generated per signature (mode G)', 'beartype/_util/func/arg/utilfuncargiter.py:iter_func_args (mode F: 5 loop invariants, ghost yield sequence, bound-method omission; leading asserts dropped)'] + [f'{p}@{report.src_hash(p)}' for p in files]
    from pyvc import model as M
    rep.trusted = ['pyvc', 'z3 5.1 / cvc5', 'the argument-binding rule of the language reference (6.3.4) as written in pyvc/wrapcheck.py'] + M.ASSUMED_SEMANTICS
    rep.assumptions = ['no passed value IS the private sentinel function __beartype_get_violation (the wrapper uses it as "not passed" marker)',
                       'the original callable either returns an object or raises (abstract callee); a call that cannot bind raises TypeError inside CPython before the callee body runs',
                       'kwargs keys are strs; equal names are the same constant', 'loop iterations of the wrapper carry no state (checked: otherwise exit 3)']
    rep.bounded = [dict(kind='per-signature proofs: bounded in the signature shape, unbounded in args/kwargs', signatures=len(T), wrapper_paths=npaths,
                        bound='all legal signatures of <= 3 (quick) / <= 4 (thorough) parameters x annotated subsets + a seeded sample of 5-7 parameter signatures'), b]
    rep.extra['explanation'] = 'the real wrapper source captured from make_func is executed symbolically with args an arbitrary tuple and kwargs an arbitrary dict'
    return rep.finish()

def _mixed_worker(sig):
    from pyvc import wrapcheck
    return wrapcheck.wrapper_obligations(sig, True, 'BeartypeConf(violation_return_type=UserWarning)')

def mixed_conf(rep):
    """the parameter clauses do not depend on how RETURN violations are signalled: under a configuration whose return violations are only warned
    (violation_return_type a Warning, parameter violations still exceptions) a failing parameter check still raises about the right value and the
    original never runs; a passing call runs it once with the arguments given"""
    from props import gensweep
    conf_src = 'BeartypeConf(violation_return_type=UserWarning)'
    with mp.get_context('fork').Pool(min(10, int(os.environ.get('VERIF_PROCS', '16')))) as pool:
        recs = pool.map(_mixed_worker, gensweep.C01_SIGS)
    n = 0
    for rec in recs:
        tag = f'C04.wrap_return_warned[{rec.get("src", str(rec["sig"])).splitlines()[0][4:-1] if rec.get("src") else rec["sig"]}]'
        if rec['error']: rep.error(f'{tag}: {rec["error"]}'); continue
        for o in rec['obligations']:
            if not o['name'].startswith(('post.a.', 'post.b.', 'post.c.', 'post.d.', 'defined')): continue
            n += 1; rp = o.get('replay'); script = None
            if rp and rp.get('reproduced'):
                script = (f'from pyvc.wrapcheck import replay_c04\nok, d = replay_c04({rec["sig"]!r}, True, {conf_src!r}, {rp["args"]!r}, {rp["kwargs"]!r})\n'
                          'print("REPRODUCED" if ok else "not reproduced", d)\nsys.exit(1 if ok else 0)\n')
            rep.add(f'{tag}.{o["name"]}', o['status'], replay=rp, replay_script=script, time=o.get('time'), backend=o.get('backend'), where=o.get('where'), solver_output=o.get('solver_output'), reason=o.get('reason'), bounded=True)
    if not n: rep.error('C04 mixed_conf: no obligation')

def iter_func_args_bounded(rep, tier):
    """run-time contract on the REAL iter_func_args over all code-object shapes <= N parameters (bounded, never counted as proved)"""
    from pyvc import use_repo
    use_repo()
    from beartype._util.func.arg.utilfuncargiter import iter_func_args
    
    import inspect
    from pyvc.wrapcheck import valid_sig, sig_source, make_ns
    N = 4 if tier == 'quick' else 5
    cases = 0; bad = []
    KMAP = {'po': 'POSITIONAL_ONLY', 'pk': 'POSITIONAL_OR_KEYWORD', 'va': 'VARIADIC_POSITIONAL', 'ko': 'KEYWORD_ONLY', 'vk': 'VARIADIC_KEYWORD'}
    for n in range(0, N + 1):
        for kinds in itertools.product(('po', 'pk', 'va', 'ko', 'vk'), repeat=n):
            for dflt in (False, True):
                sig = [(k, False, dflt) for k in kinds]
                if not valid_sig(sig): continue
                ns = make_ns(n + 1); src, names = sig_source(sig, False); exec(src, ns); f = ns['f']
                got = [(a.kind.name if hasattr(a, 'kind') else a[0].name, a.name if hasattr(a, 'name') else a[1],
                        (a.default_value_or_mandatory if hasattr(a, 'default_value_or_mandatory') else a[2])) for a in iter_func_args(f)]
                want = []
                for p in inspect.signature(f).parameters.values():
                    want.append((p.kind.name.replace('VAR_POSITIONAL', 'VARIADIC_POSITIONAL').replace('VAR_KEYWORD', 'VARIADIC_KEYWORD'), p.name, p.default is not inspect.Parameter.empty))
                cases += 1
                g2 = [(k, nm, (d is ns['DFLT'])) for k, nm, d in got]
                # order, kinds, names and defaults as CPython's own signature reports them
                if [(k, nm, bool(d)) for k, nm, d in g2] != [(k, nm, bool(d)) for k, nm, d in want]: bad.append((src.splitlines()[0], got, want))
    if bad:
        for s, g, w in bad[:5]:
            rep.add(f'C04.iter_func_args[{s}].bounded', 'refuted', backend='runtime-contract', where=f'got {g} want {w}', solver_output='bounded run-time contract (not a proof)',
                    replay_script=f'print({s!r}); print("iter_func_args disagrees with inspect.signature"); sys.exit(1)\n')
    return dict(kind='run-time contract on the real iter_func_args vs inspect.signature (bounded stand-in, NOT counted as proved)', cases=cases, bound=f'all legal kind sequences <= {N} parameters x defaults on/off', failures=len(bad))
