# A heterogeneous container whose inferred hint has >= 128 non-trivial child
# hints makes is_bearable() raise AttributeError.
import itertools
from beartype.door import infer_hint, is_bearable

scalars = [1, 'a', b'b', 1.5, 1j, True, None, ..., NotImplemented, int, len, (), frozenset(), range(0)]
# 14 * 14 = 196 one-item dicts, each with a distinct (key type, value type) shape.
obj = [{k: v} for k, v in itertools.product(scalars, scalars)]
hint = infer_hint(obj)
print('number of union members:', len(hint.__args__[0].__args__))
try:
    ok = is_bearable(obj, hint)
    print('is_bearable ->', ok)
    raise SystemExit(0 if ok is True else 1)
except Exception as e:
    print(f'is_bearable raised {type(e).__name__}: {e}')
    raise SystemExit(1)
