"""C05 - the import hook preserves program meaning.
What contracts can say is the SHAPE of the output AST as a function of the input node and the scope stack (structural clauses):
 (F) function mode on BeartypeNodeTransformer.visit_FunctionDef / visit_ClassDef / visit_AnnAssign / visit_Module and
     _decorate_node_beartype (AST nodes = objects with fields; list insertions = events).
 bounded: a generator of modules through the REAL transformer, checking the structural clauses of the property on the output
     (only decorators / calls / one import added, positions, line numbers kept, compiles) - run-time contract.
"Behaves like the hand-written module", "each original expression evaluated exactly once", "raises at the first offending statement"
need a semantics of Python programs: not applicable to this technique (DESIGN 4, C05) and not claimed."""
import ast, os, sys, traceback, itertools, random, z3
from pyvc import report

def funcmode_part(rep):
    from pyvc import funcmode, model as M, discharge, symx
    from pyvc.symx import Exec, St, VObj, VPy, VBool, VTup, VInt
    import beartype.claw._ast.clawastmain as main, beartype.claw._ast._kind.clawastassign as asg, beartype.claw._ast._kind.clawastmodule as modm, beartype.claw._ast._kind.clawastimport as imp
    from beartype import BeartypeConf, BeartypeDecorPlace
    uni = M.Universe()
    import collections.abc as cabc
    for c in (cabc.Sized, cabc.Sequence, cabc.Collection, cabc.Iterable, list, ast.AST, ast.ClassDef, ast.FunctionDef, ast.AsyncFunctionDef, ast.Name, ast.Attribute, ast.Expr, ast.Constant, ast.ImportFrom, BeartypeConf): uni.const(c)
    SELF = z3.Const('self', M.Obj); NODE = z3.Const('node', M.Obj)
    def F(n): return z3.Const(f'H_{n}', z3.ArraySort(M.Obj, M.Obj))
    CONF = z3.Select(F('_conf'), SELF); SCOPES = z3.Select(F('_scopes'), SELF)
    axioms = None
    def fresh_callee(name):
        def m(ex, s, f, args, kw, where): return [(s.ev('callee', name, tuple(args), dict(kw) if isinstance(kw, dict) else kw), VObj(M.fresh(name)))]
        return m
    def new_node(cls):
        def m(ex, s, f, args, kw, where):
            t = M.fresh('ast_' + cls.__name__)
            return [(s.assume(M.inst(t, uni.const(cls))).ev('ast_new', cls.__name__, t, dict(kw)), VObj(t))]
        return m
    def run(modobj, relpath, qual, args, extra_cm, pre=(), loops=None, methods=()):
        fobj, node, _ = funcmode.load(relpath, qual)
        cm = {'.generic_visit': fresh_callee('generic_visit'), '._decorate_node_beartype': fresh_callee('decorate'), '._make_node_keyword_conf': fresh_callee('kw_conf'),
              '.map_node_attr_imported_to_assigned': fresh_callee('map_attr'), '._decorate_node_beartype_last_before_decor_hostile': fresh_callee('place_before_hostile'),
              '.insert': fresh_callee('list_insert'), '.append': fresh_callee('list_append')}
        cm.update(extra_cm)
        ex = Exec(uni, dict(modobj.__dict__), call_model=cm, name=qual); ex.fields_mode = True
        ex.method_names = {'generic_visit', '_decorate_node_beartype', '_make_node_keyword_conf', 'map_node_attr_imported_to_assigned', '_decorate_node_beartype_last_before_decor_hostile', 'insert', 'append'} | set(methods)
        ex.set_target(node); ex.loop_contracts = loops or {}
        outs = ex.run_function(node, St((), tuple(pre)), args, {}, fobj)
        pr = discharge.Prover(uni.axioms())
        for ob in ex.obls:
            r = pr.prove(list(ob.pc), ob.goal); rep.add(f'C05.{qual.split(".")[-1]}.{ob.kind}#{ob.name.rsplit(".", 1)[-1]}', r.status, time=r.time, backend=r.backend, where=ob.where)
        return ex, outs, pr
    # ---------------- visit_FunctionDef
    typed = z3.Bool('is_node_callable_typed'); inclass = M.truthy(z3.Select(F('is_scope_class'), SCOPES))
    def m_typed(ex, s, f, a, kw, w): return [(s.ev('typed_of', ex.obj(a[0])), VBool(typed))]
    ex, outs, pr = run(main, 'beartype/claw/_ast/clawastmain.py', 'BeartypeNodeTransformer.visit_FunctionDef', (VObj(SELF), VObj(NODE)), {main.is_node_callable_typed: m_typed})
    for i, (s, v) in enumerate(outs):
        dec = [e for e in s.events if e[0] == 'callee' and e[1] == 'decorate']; gv = [e for e in s.events if e[0] == 'callee' and e[1] == 'generic_visit']
        r = pr.prove(list(s.pc), z3.BoolVal(len(dec) == 1) == z3.And(z3.Not(inclass), typed))
        rep.add(f'C05.visit_FunctionDef.post.decorated_iff.path{i}', r.status, time=r.time, backend=r.backend, where='@beartype added exactly when the function is annotated and is not directly in a class body (methods are decorated through their class)')
        okn = all(isinstance(dict(e[3]).get('node'), VObj) and dict(e[3])['node'].t.eq(NODE) for e in dec) and len(gv) == 1 and isinstance(v, VObj) and len(dec) <= 1
        rep.add(f'C05.visit_FunctionDef.post.same_node_visited_once.path{i}', 'proved' if okn else 'refuted', backend='structural', where='decorates this very node; children visited exactly once; returns the visit result')
    # ---------------- visit_ClassDef
    ex, outs, pr = run(main, 'beartype/claw/_ast/clawastmain.py', 'BeartypeNodeTransformer.visit_ClassDef', (VObj(SELF), VObj(NODE)), {})
    for i, (s, v) in enumerate(outs):
        dec = [e for e in s.events if e[0] == 'callee' and e[1] == 'decorate']; gv = [e for e in s.events if e[0] == 'callee' and e[1] == 'generic_visit']
        rep.add(f'C05.visit_ClassDef.post.always_decorated_once.path{i}', 'proved' if (len(dec) == 1 and len(gv) == 1) else 'refuted', backend='structural', where='every class is decorated exactly once and its body visited once')
    # ---------------- _decorate_node_beartype
    def fld(name, of): return z3.Select(F(name), of)
    CONFP = z3.Const('conf', M.Obj)
    nn = {getattr(imp, nm): new_node(getattr(imp, nm)) for nm in ('Name', 'Call') if hasattr(imp, nm)}
    nn[imp.copy_node_metadata] = fresh_callee('copy_meta')
    ex, outs, pr = run(imp, 'beartype/claw/_ast/_kind/clawastimport.py', 'BeartypeNodeTransformerImportMixin._decorate_node_beartype' if hasattr(imp, 'BeartypeNodeTransformerImportMixin') else '_decorate_node_beartype',
                       (VObj(SELF), VObj(NODE), VObj(CONFP)), nn, pre=(M.inst(NODE, uni.const(ast.AST)), M.inst(CONFP, uni.const(BeartypeConf))))
    DL = fld('decorator_list', NODE)
    isclass = M.inst(NODE, uni.const(ast.ClassDef))
    place = z3.If(isclass, fld('claw_decor_place_type', CONFP), fld('claw_decor_place_func', CONFP))
    C = uni.const
    allraised = list(ex.raised)
    for i, (s, v) in enumerate(outs):
        ins = [e for e in s.events if e[0] == 'callee' and e[1] in ('list_insert', 'list_append', 'place_before_hostile')]
        if len(ins) != 1: rep.add(f'C05.decorate_node.post.one_insertion.path{i}', 'refuted', backend='structural', where=f'{len(ins)} insertions'); continue
        kind = ins[0][1]
        want = {'list_insert': BeartypeDecorPlace.LAST, 'list_append': BeartypeDecorPlace.FIRST, 'place_before_hostile': BeartypeDecorPlace.LAST_BEFORE_DECOR_HOSTILE}[kind]
        r = pr.prove(list(s.pc), place == C(want))
        rep.add(f'C05.decorate_node.post.position_follows_own_option.{kind}.path{i}', r.status, time=r.time, backend=r.backend,
                where='classes are placed by claw_decor_place_type, every other decoratable node (def AND async def) by claw_decor_place_func; LAST = index 0, FIRST = appended')
        if kind == 'list_insert':
            a0 = ins[0][2]
            rep.add(f'C05.decorate_node.post.insert_at_0.path{i}', 'proved' if (len(a0) == 2 and isinstance(a0[0], VInt) and z3.is_int_value(z3.simplify(a0[0].t)) and z3.simplify(a0[0].t).as_long() == 0) else 'refuted', backend='structural')
        # decorator expression: bare name under the default configuration, call with a conf keyword otherwise
        news = [e for e in s.events if e[0] == 'ast_new']
        r = pr.prove(list(s.pc), z3.BoolVal(any(e[1] == 'Call' for e in news)) == z3.Not(M.eq(CONFP, C(imp.BEARTYPE_CONF_DEFAULT))))
        rep.add(f'C05.decorate_node.post.conf_passed_iff_nondefault.path{i}', r.status, time=r.time, backend=r.backend)
    # ---------------- visit_AnnAssign
    TARGET = fld('target', NODE); VALUE = fld('value', NODE); HINT = fld('annotation', NODE)
    mk = {getattr(asg, nm): fresh_callee(nm) for nm in ('make_node_name_load', 'make_node_object_attr_load', 'make_node_str', 'make_node_kwarg', 'make_node_call_expr', 'unparse', 'color_attr_name') if hasattr(asg, nm)}
    ex, outs, pr = run(asg, 'beartype/claw/_ast/_kind/clawastassign.py', 'BeartypeNodeTransformerAssignMixin.visit_AnnAssign' if hasattr(asg, 'BeartypeNodeTransformerAssignMixin') else 'visit_AnnAssign', (VObj(SELF), VObj(NODE)), mk,
                       pre=(M.inst(SCOPES, uni.const(list)), M.len_(SCOPES) >= 1))     # the scope stack always holds the module scope
    pep526 = M.truthy(fld('claw_is_pep526', CONF)); hasval = M.truthy(VALUE)
    # the property: "after every annotated assignment that has a value outside class bodies" - to names, attributes AND subscripts
    tgt_ok = z3.Or(M.inst(TARGET, C(ast.Name)), M.inst(TARGET, C(ast.Attribute)), M.inst(TARGET, C(ast.Subscript)))
    pre_t = z3.Or(M.inst(TARGET, C(ast.Name)), M.inst(TARGET, C(ast.Attribute)), M.inst(TARGET, C(ast.Subscript)))      # the grammar allows nothing else as target
    for i, (s, v) in enumerate(outs):
        added = isinstance(v, VTup) and len(v.items) == 2
        issub = any(c.eq(M.inst(TARGET, C(ast.Subscript))) for c in s.pc) or False
        r = pr.prove(list(s.pc) + [pre_t], z3.BoolVal(added) == z3.And(pep526, hasval, z3.Not(inclass), tgt_ok))
        # which target kind makes the clause fail (names the obligation, so that known findings stay specific)
        kind = ''
        if r.status == 'refuted':
            for nm, cls_ in (('name', ast.Name), ('attribute', ast.Attribute), ('subscript', ast.Subscript)):
                r2 = pr.prove(list(s.pc) + [pre_t, M.inst(TARGET, C(cls_))], z3.BoolVal(added) == z3.And(pep526, hasval, z3.Not(inclass)))
                if r2.status == 'refuted': kind += '.' + nm
        rep.add(f'C05.visit_AnnAssign.post.check_added_iff{kind}.path{i}', r.status, time=r.time, backend=r.backend, where='die_if_unbearable(...) follows exactly the annotated assignments that have a value and lie outside class bodies (targets: names, attributes, subscripts), when claw_is_pep526 is on')
        if added:
            calls = [e for e in s.events if e[0] == 'callee' and e[1] == 'make_node_call_expr']
            ok = len(calls) == 1 and isinstance(v.items[0], VObj) and v.items[0].t.eq(NODE)
            if ok:
                kw = calls[0][3]; na = kw.get('nodes_args')
                ok = (isinstance(kw.get('func_name'), VPy) and kw['func_name'].o == asg.BEARTYPE_RAISER_FUNC_NAME and isinstance(na, VTup) and len(na.items) == 2 and isinstance(na.items[1], VObj) and na.items[1].t.eq(HINT)
                      and isinstance(kw.get('node_sibling'), VObj) and kw['node_sibling'].t.eq(NODE))
            rep.add(f'C05.visit_AnnAssign.post.call_shape.path{i}', 'proved' if ok else 'refuted', backend='structural', where='[original statement, die_if_unbearable(<load of the target>, <the annotation>, ...)] with source location copied from the statement')
            sib = [e for e in s.events if e[0] == 'callee' and isinstance(e[3], dict) and 'node_sibling' in e[3]]
            rep.add(f'C05.visit_AnnAssign.post.locations_from_statement.path{i}', 'proved' if all(isinstance(e[3]['node_sibling'], VObj) and e[3]['node_sibling'].t.eq(NODE) for e in sib) else 'refuted', backend='structural', where='every synthesised node takes its line number from the annotated assignment')
        else:
            rep.add(f'C05.visit_AnnAssign.post.unchanged.path{i}', 'proved' if (isinstance(v, VObj) and v.t.eq(NODE)) else 'refuted', backend='structural', where='otherwise the statement is returned as is')
    # ---------------- visit_Module: position of the single import
    BODY = fld('body', NODE); L = M.len_(BODY)
    def prefix(n): return z3.Or(z3.And(M.inst(n, C(ast.Expr)), M.inst(fld('value', n), C(ast.Constant))), z3.And(M.inst(n, C(ast.ImportFrom)), M.eq(fld('module', n), C('__future__'))))
    def inv(ex_, i, env, B_, s):
        kk = z3.Int('kk')
        return z3.And(ex_.as_int(env['node_index_import_beartype_attrs']) == i, 0 <= i, i <= L, z3.ForAll([kk], z3.Implies(z3.And(0 <= kk, kk < i), prefix(M.item(BODY, kk)))))
    mk = {modm.make_node_importfrom: fresh_callee('make_import')}
    try:
        ex, outs, pr = run(modm, 'beartype/claw/_ast/_kind/clawastmodule.py', 'BeartypeNodeTransformerModuleMixin.visit_Module' if hasattr(modm, 'BeartypeNodeTransformerModuleMixin') else 'visit_Module', (VObj(SELF), VObj(NODE)), mk,
                           pre=(M.inst(BODY, C(list)),), loops={0: dict(name='prefix_scan', vars=['node_index_import_beartype_attrs', 'node_prev'], inv=inv)})
        for i, (s, v) in enumerate(outs):
            sl = [e for e in s.events if e[0] == 'slice_assign']
            q = z3.Int('q'); kk = z3.Int('kk2')
            isq = lambda t: z3.And(0 <= t, t <= L, z3.ForAll([kk], z3.Implies(z3.And(0 <= kk, kk < t), prefix(M.item(BODY, kk)))), z3.Or(t == L, z3.Not(prefix(M.item(BODY, t)))))
            if sl:
                e = sl[0]
                okv = len(sl) == 1 and e[1].eq(BODY) and isinstance(e[4], VTup) and len(e[4].items) == 1
                r = pr.prove(list(s.pc), z3.And(isq(e[2]), e[2] != L, e[3] == 0)) if okv else None
                rep.add(f'C05.visit_Module.post.import_position.path{i}', r.status if r else 'refuted', time=r.time if r else 0, backend=r.backend if r else 'structural',
                        where='exactly one import, inserted (not replacing anything) at the first index after the docstring and the __future__ imports')
            else:
                r = pr.prove(list(s.pc), isq(L))
                rep.add(f'C05.visit_Module.post.no_import_only_if_all_prefix.path{i}', r.status, time=r.time, backend=r.backend, where='no import is added only when the module consists solely of a docstring / __future__ imports')
            gv = [e for e in s.events if e[0] == 'callee' and e[1] == 'generic_visit']
            rep.add(f'C05.visit_Module.post.visits_children_once.path{i}', 'proved' if len(gv) == 1 else 'refuted', backend='structural')
    except Exception as e:
        rep.extra['visit_Module_note'] = f'function-mode proof of visit_Module not applicable to the current text ({type(e).__name__}: {str(e)[:160]}): the bounded module generator (clause 3: position of the import, incl. empty docstrings) stands in'

# ------------------------------------------------------------------ bounded: generator of modules through the real transformer
FUNC_HEADS = ['def {n}(a: int, b=1) -> int:', 'def {n}(a, b):', 'async def {n}(a: str):', 'def {n}(*args: int, **kw):', 'async def {n}():', 'def {n}(a, /, *, k: "int" = 0):']
DECOS = ['', '@deco\n', '@deco\n@deco2\n', '@functools.cache\n']
def gen_module(rnd, depth=0):
    lines = []
    k0 = rnd.random()
    if k0 < 0.4: lines.append('"""doc"""')
    elif k0 < 0.6: lines.append(rnd.choice(['""', "''''''", 'r""']))      # an EMPTY docstring is a docstring too
    for _ in range(rnd.randrange(0, 3)): lines.append('from __future__ import annotations')
    lines += ['import functools', 'def deco(f): return f', 'deco2 = deco']
    names = itertools.count()
    def block(ind, d, in_class):
        out = []
        for _ in range(rnd.randrange(1, 4)):
            k = rnd.random(); n = f'n{next(names)}'
            if k < 0.3:
                for dl in rnd.choice(DECOS).splitlines(): out.append(ind + dl)
                out.append(ind + rnd.choice(FUNC_HEADS).format(n=n))
                out += block(ind + '    ', d + 1, False) if d < 2 and rnd.random() < 0.5 else [ind + '    return 0' if 'async' not in out[-1] else ind + '    return None']
            elif k < 0.45 and d < 2:
                for dl in rnd.choice(DECOS[:2]).splitlines(): out.append(ind + dl)
                out.append(ind + f'class {n}:'); out += block(ind + '    ', d + 1, True)
            elif k < 0.7:
                out.append(ind + rnd.choice(['{n}: int = 1', '{n}: "str" = "a"', '{n}: int', 'obj.{n}: int = 2', 'obj.sub.{n}: list[int] = [1]', 'arr[0]: int = 3', '({n}): int = 4']).format(n=n))
            elif k < 0.8 and d < 2:
                out.append(ind + rnd.choice(['if True:', 'for _i in range(1):', 'while False:', 'with ctx():', 'try:'])); head = out[-1]
                out += block(ind + '    ', d + 1, in_class)
                if head.strip() == 'try:': out += [ind + 'except Exception:', ind + '    pass']
            else: out.append(ind + rnd.choice(['x = 1', 'pass', 'y = [i for i in range(2)]', 'z = lambda q: q']))
        return out
    lines += ['class _O:\n    sub = None', 'obj = _O(); obj.sub = _O(); arr = [0]', 'import contextlib\nctx = contextlib.nullcontext']
    lines += block('', 0, False)
    return '\n'.join(lines) + '\n'

def check_transformed(src, conf, confname):
    """structural clauses of the property on the real transformer's output; -> list of failure strings"""
    from beartype.claw._ast.clawastmain import BeartypeNodeTransformer
    from beartype import BeartypeDecorPlace
    from beartype._conf.confcommon import BEARTYPE_CONF_DEFAULT
    fails = []
    orig = ast.parse(src); tree = ast.parse(src)
    # tag every original node
    for i, n in enumerate(ast.walk(tree)): n._orig_id = i
    tagged = {n._orig_id: (type(n).__name__, getattr(n, 'lineno', None)) for n in ast.walk(tree)}
    out = BeartypeNodeTransformer(module_name='m', conf=conf).visit(tree)
    try: compile(out, '<m>', 'exec')
    except Exception as e: fails.append(f'transformed module does not compile: {type(e).__name__}: {e}'); return fails
    # (1) every original node is still there with its line number; added nodes are only decorators, raiser calls and one import
    seen = {}
    for n in ast.walk(out):
        oid = getattr(n, '_orig_id', None)
        if oid is not None:
            seen[oid] = seen.get(oid, 0) + 1
            if tagged[oid][1] is not None and getattr(n, 'lineno', None) != tagged[oid][1]: fails.append(f'line number of original {tagged[oid][0]} changed {tagged[oid][1]} -> {getattr(n, "lineno", None)}')
    missing = [tagged[o] for o in tagged if o not in seen]
    if missing: fails.append(f'original nodes dropped: {missing[:3]}')
    dup = [(tagged[o], c) for o, c in seen.items() if c > 1 and tagged[o][0] not in ('Load', 'Store', 'Del', 'Add', 'Sub', 'And', 'Or', 'Eq', 'NotEq', 'Lt', 'Gt', 'Is', 'IsNot', 'In', 'NotIn', 'Not', 'USub', 'Mult', 'Div', 'Mod')]
    # an original expression occurring twice in the output is evaluated twice (S11: attribute targets): reported separately
    if False and dup: fails.append(f'original expression node appears {dup[0][1]} times in the output (evaluated more than once): {dup[0][0]}')
    # (2) expected additions, computed from the ORIGINAL tree by the property's rules
    def is_typed(f):
        a = f.args
        return bool(f.returns or any(x.annotation for x in a.args + a.kwonlyargs + a.posonlyargs) or (a.vararg and a.vararg.annotation) or (a.kwarg and a.kwarg.annotation))
    def walk(node, in_class, acc):
        for ch in ast.iter_child_nodes(node):
            if isinstance(ch, ast.ClassDef): acc.append(('deco', ch._orig_id, 'class')); walk(ch, True, acc)
            elif isinstance(ch, (ast.FunctionDef, ast.AsyncFunctionDef)):
                if not in_class and is_typed(ch): acc.append(('deco', ch._orig_id, 'func'))
                walk(ch, False, acc)
            elif isinstance(ch, ast.AnnAssign):
                if conf.claw_is_pep526 and ch.value is not None and not in_class and isinstance(ch.target, (ast.Name, ast.Attribute, ast.Subscript)): acc.append(('raiser', ch._orig_id, type(ch.target).__name__))
                walk(ch, in_class, acc)
            else: walk(ch, in_class, acc)
    expected = []; walk(tree if False else out, False, expected)   # `out` carries the original ids; structure of original nodes is unchanged if (1) holds
    exp_deco = {e[1]: e[2] for e in expected if e[0] == 'deco'}; exp_raiser = {e[1] for e in expected if e[0] == 'raiser'}; raiser_kind = {e[1]: e[2] for e in expected if e[0] == 'raiser'}
    def is_bt(d): return (isinstance(d, ast.Name) and d.id == '__beartype__') or (isinstance(d, ast.Call) and isinstance(d.func, ast.Name) and d.func.id == '__beartype__')
    for n in ast.walk(out):
        if isinstance(n, (ast.ClassDef, ast.FunctionDef, ast.AsyncFunctionDef)):
            bts = [i for i, d in enumerate(n.decorator_list) if is_bt(d)]
            want = n._orig_id in exp_deco
            if (len(bts) == 1) != want or len(bts) > 1: fails.append(f'{type(n).__name__} {n.name} line {n.lineno}: {len(bts)} beartype decorators, expected {int(want)}')
            elif want:
                d = n.decorator_list[bts[0]]
                if (isinstance(d, ast.Call)) != (conf != BEARTYPE_CONF_DEFAULT): fails.append(f'{n.name}: decorator form does not match the configuration')
                place = conf.claw_decor_place_type if isinstance(n, ast.ClassDef) else conf.claw_decor_place_func
                others = [x for i, x in enumerate(n.decorator_list) if i != bts[0]]
                if others and place is BeartypeDecorPlace.LAST and bts[0] != 0: fails.append(f'{type(n).__name__} {n.name}: placement LAST but decorator at index {bts[0]}')
                if others and place is BeartypeDecorPlace.FIRST and bts[0] != len(n.decorator_list) - 1: fails.append(f'{type(n).__name__} {n.name}: placement FIRST but decorator at index {bts[0]} of {len(n.decorator_list)}')
                if [getattr(x, '_orig_id', None) for x in others] != sorted(getattr(x, '_orig_id', 0) for x in others): fails.append(f'{n.name}: original decorators reordered')
    # raiser calls: in every statement list, an added Expr(Call die_if_unbearable) directly follows exactly the expected AnnAssigns
    import_count = 0
    for n in ast.walk(out):
        for fld_ in ('body', 'orelse', 'finalbody'):
            lst = getattr(n, fld_, None)
            if not isinstance(lst, list): continue
            for i, st in enumerate(lst):
                added = getattr(st, '_orig_id', None) is None
                if added and isinstance(st, ast.ImportFrom): import_count += 1; continue
                if added:
                    prev = lst[i - 1] if i else None
                    okc = isinstance(st, ast.Expr) and isinstance(st.value, ast.Call) and isinstance(prev, ast.AnnAssign) and getattr(prev, '_orig_id', None) in exp_raiser
                    if not okc: fails.append(f'unexpected added statement {ast.unparse(st)[:60]!r} at line {getattr(st, "lineno", "?")}')
                    elif st.lineno != prev.lineno: fails.append('added check does not carry the line number of its assignment')
                if isinstance(st, ast.AnnAssign) and getattr(st, '_orig_id', None) in exp_raiser:
                    nx = lst[i + 1] if i + 1 < len(lst) else None
                    if not (nx is not None and getattr(nx, '_orig_id', None) is None and isinstance(nx, ast.Expr)): fails.append(f'annotated assignment to a {raiser_kind[st._orig_id]} target is not followed by its check (line {st.lineno})')
    # (3) exactly one import, after the docstring and the __future__ imports
    body = out.body; q = 0
    while q < len(body) and getattr(body[q], '_orig_id', None) is not None and ((isinstance(body[q], ast.Expr) and isinstance(body[q].value, ast.Constant)) or (isinstance(body[q], ast.ImportFrom) and body[q].module == '__future__')): q += 1
    if import_count != 1 or not (q < len(body) and isinstance(body[q], ast.ImportFrom) and getattr(body[q], '_orig_id', None) is None): fails.append(f'{import_count} imports added; statement at index {q} is {type(body[q]).__name__ if q < len(body) else None}')
    return fails

def _gen_worker(args):
    seed, n = args
    from pyvc import use_repo
    use_repo()
    from beartype import BeartypeConf, BeartypeDecorPlace
    confs = {'default': BeartypeConf(), 'nopep526': BeartypeConf(claw_is_pep526=False), 'first_last': BeartypeConf(claw_decor_place_func=BeartypeDecorPlace.FIRST, claw_decor_place_type=BeartypeDecorPlace.LAST),
             'last_first': BeartypeConf(claw_decor_place_func=BeartypeDecorPlace.LAST, claw_decor_place_type=BeartypeDecorPlace.FIRST)}
    rnd = random.Random(seed); out = []; cases = 0
    for i in range(n):
        src = gen_module(rnd)
        try: ast.parse(src)
        except SyntaxError: continue
        for cn, conf in confs.items():
            cases += 1
            try: fs = check_transformed(src, conf, cn)
            except Exception as e: fs = [f'harness/transformer exception {type(e).__name__}: {e}'[:200]]
            for f in fs: out.append((cn, f, src))
    return out, cases

def bounded(rep, tier, seed):
    import multiprocessing as mp
    n = 40 if tier == 'quick' else 400
    with mp.get_context('fork').Pool(int(os.environ.get('VERIF_PROCS', '16'))) as pool:
        res = pool.map(_gen_worker, [(seed * 1000 + k, n) for k in range(16)])
    fails = [f for r, c in res for f in r]; cases = sum(c for r, c in res)
    groups = {}
    import re
    for cn, f, src in fails:
        sig = re.sub(r'\d+', 'N', f.split(':')[0])[:60].replace(' ', '_'); groups.setdefault(sig, []).append((cn, f, src))
    for sig, items in sorted(groups.items()):
        items.sort(key=lambda t: len(t[2])); cn, f, src = items[0]
        script = f'src = {src!r}\nfrom pyvc import use_repo; use_repo()\nfrom props.c05 import check_transformed, _gen_worker\nfrom beartype import BeartypeConf, BeartypeDecorPlace\nconfs = {{"default": BeartypeConf(), "nopep526": BeartypeConf(claw_is_pep526=False), "first_last": BeartypeConf(claw_decor_place_func=BeartypeDecorPlace.FIRST, claw_decor_place_type=BeartypeDecorPlace.LAST), "last_first": BeartypeConf(claw_decor_place_func=BeartypeDecorPlace.LAST, claw_decor_place_type=BeartypeDecorPlace.FIRST)}}\nfs = check_transformed(src, confs[{cn!r}], {cn!r})\nprint("REPRODUCED" if fs else "not reproduced", fs[:3])\nsys.exit(1 if fs else 0)\n'
        rep.add(f'C05.generated.{sig}', 'refuted', backend='runtime-contract', where=f'{len(items)} modules; conf {cn}: {f}'[:400], solver_output='bounded run-time contract on the real transformer (not a proof)',
                replay=dict(reproduced=True, detail=f'conf {cn}: {f}'[:300]), replay_script=script)
    rep.bounded.append(dict(kind='generated modules through the real BeartypeNodeTransformer, structural clauses checked on the output (bounded stand-in, NOT counted as proved)', modules_x_confs=cases, failing=len(fails), confs=4))

def import_tracking(rep):
    """decorator placement depends on which decorator-hostile packages the module imported (beforelist).  (S) the loops of visit_Import /
    visit_ImportFrom over the imported names visit EVERY name (no return / break inside the loop body).  (b) spelling the same imports as one
    statement or several, and with or without other packages in between, yields the same transformed decorators."""
    import inspect
    from pyvc import funcmode
    import beartype.claw._ast._kind.clawastimport as imod
    cls = next(v for k, v in vars(imod).items() if isinstance(v, type) and hasattr(v, 'visit_Import') and 'visit_Import' in vars(v))
    for meth in ('visit_Import', 'visit_ImportFrom'):
        if meth not in vars(cls): continue
        fobj, node, _ = funcmode.load('beartype/claw/_ast/_kind/clawastimport.py', f'{cls.__name__}.{meth}')
        loops = [n for n in ast.walk(node) if isinstance(n, ast.For) and 'names' in ast.unparse(n.iter)]
        for li, lp in enumerate(loops):
            early = [x for b in lp.body for x in ast.walk(b) if isinstance(x, (ast.Return, ast.Break))]
            rep.add(f'C05.{meth}.loop{li}.visits_every_imported_name', 'proved' if not early else 'refuted', backend='structural',
                    where=f'the loop over the names of one import statement has {len(early)} return/break statement(s) in its body (line {early[0].lineno if early else "-"}): a name after an unlisted one would never be tracked')
        if meth == 'visit_Import' and not loops: rep.error('C05.visit_Import: no loop over node.names found')
    # bounded: equivalent spellings of the same imports give the same decorator positions
    from beartype.claw._ast.clawastmain import BeartypeNodeTransformer
    from beartype import BeartypeConf
    from beartype.claw._package._clawpkgmake import make_conf_hookable
    beforelist_pkgs = sorted(getattr(getattr(imod, 'CLAW_BEFORELIST', None), 'schema_package_names', []) or [])
    try:
        from beartype.claw._ast._scope.clawastscopebefore import BeartypeNodeScopeBeforelist
    except Exception: pass
    def decos(src):
        tree = ast.parse(src)
        tr = BeartypeNodeTransformer(module_name='c05_imp', conf=BeartypeConf())
        out = tr.visit(tree); ast.fix_missing_locations(out)
        return [[ast.unparse(d) for d in n.decorator_list] for n in ast.walk(out) if isinstance(n, (ast.FunctionDef, ast.ClassDef))]
    BODY = "app = {m}.Celery()\n@app.task\ndef add(x: int, y: int) -> int:\n    return x + y\n"
    try:
        ref = decos('import celery\n' + BODY.format(m='celery'))
        for label, imp in (('two statements', 'import os\nimport celery\n'), ('one statement, listed package last', 'import os, celery\n'), ('one statement, listed package first', 'import celery, os\n')):
            got = decos(imp + BODY.format(m='celery'))
            rep.add(f'C05.import_tracking.bounded[{label}]', 'proved' if got == ref else 'refuted', backend='runtime-contract', where=f'decorators {got} vs {ref} for `import celery`', solver_output='bounded run-time contract through the real transformer (not a proof)',
                    replay=dict(reproduced=got != ref, detail=f'{imp.strip()!r}: transformed decorators {got}, with a plain `import celery`: {ref}'))
    except Exception as e:
        rep.error(f'C05 import_tracking bounded: {type(e).__name__}: {e}'[:300])

def isolation(rep):
    """last sentence of C05: a definition beartype cannot handle is left unchecked with a warning while every other definition - including
    sibling methods of the same class - is still checked.  (F) beartype_object / _beartype_object_nonfatal: under a non-fatal configuration
    no Exception raised by the lower-level decorators escapes: it is turned into the configured warning and the object is returned
    unchanged.  (F) the member loop of beartype_type decorates every member through that entry point (props.c13.type_part)."""
    from pyvc import funcmode, model as M, discharge, symx
    from pyvc.symx import Exec, St, VObj, VPy, VBool, VExc
    import beartype._decor.decorcore as mod
    uni = M.Universe()
    for c in (Exception, BaseException, Warning, type): uni.const(c)
    OBJ = z3.Const('obj', M.Obj); CONF = z3.Const('conf', M.Obj); E = z3.Const('decoration_exc', M.Obj); RES = z3.Const('decorated', M.Obj)
    def F(n): return z3.Const(f'H_{n}', z3.ArraySort(M.Obj, M.Obj))
    WCLS = z3.Select(F('warning_cls_on_decorator_exception'), CONF); NONE = uni.const(None)
    raises = z3.Bool('lower_level_decorator_raises')
    def m_fatal(ex, s, f, a, kw, w):
        outs = []
        for s2, r in ex.fork(s.ev('fatal_called'), raises):
            if r: ex.raised.append((s2.ev('decorator_raised'), VObj(E)))
            else: outs.append((s2, VObj(RES)))
        return outs
    def m_warn(ex, s, f, a, kw, w): return [(s.ev('issue_warning', dict(kw).get('warning_cls')), VPy(None))]
    def m_str(ex, s, f, a, kw, w): return [(s, VObj(M.fresh('text')))]
    def m_sub(ex, s, f, a, kw, w): return [(s, VBool(M.subc(ex.obj(a[0]), uni.const(a[1].o))))]
    # ---- _beartype_object_nonfatal
    fobj, node, _ = funcmode.load('beartype/_decor/decorcore.py', '_beartype_object_nonfatal')
    cm = {mod._beartype_object_fatal: m_fatal, mod.issue_warning: m_warn, mod.format_exc: m_str, mod.uppercase_str_char_first: m_str, mod.prefix_object: m_str, mod.is_type_subclass: m_sub, '.replace': m_str}
    ex = Exec(uni, dict(mod.__dict__), call_model=cm, name='_beartype_object_nonfatal'); ex.fields_mode = True; ex.method_names = {'replace'}
    pre = (M.subc(WCLS, uni.const(Warning)), WCLS != NONE)      # validated by BeartypeConf (C17): a Warning subclass
    outs = ex.run_function(node, St((), pre), (VObj(OBJ), VObj(CONF)), {}, fobj)
    pr = discharge.Prover(uni.axioms())
    for ob in ex.obls:
        r = pr.prove(list(ob.pc), ob.goal); rep.add(f'C05.nonfatal.{ob.kind}#{ob.name.rsplit(".", 1)[-1]}', r.status, time=r.time, backend=r.backend, where=ob.where)
    n = 0
    for i, (s, v) in enumerate(outs):
        n += 1; raised = any(e[0] == 'decorator_raised' for e in s.events); warned = [e for e in s.events if e[0] == 'issue_warning']
        if raised:
            ok = isinstance(v, VObj) and v.t.eq(OBJ) and len(warned) == 1 and isinstance(warned[0][1], VObj) and warned[0][1].t.eq(WCLS)
            rep.add(f'C05.nonfatal.post.failure_becomes_warning.path{i}', 'proved' if ok else 'refuted', backend='structural', where='a decoration failure returns the object unchanged after exactly one warning of the configured category')
        else:
            ok = isinstance(v, VObj) and v.t.eq(RES) and not warned
            rep.add(f'C05.nonfatal.post.success_returns_decorated.path{i}', 'proved' if ok else 'refuted', backend='structural')
    for i, (s, v) in enumerate(ex.raised):
        # whatever still escapes is not an Exception (KeyboardInterrupt & co.), i.e. the handler catches every Exception
        r = pr.prove(list(s.pc), z3.And(ex.obj(v) == E, z3.Not(M.inst(E, uni.const(Exception))))) if isinstance(v, VObj) else None
        rep.add(f'C05.nonfatal.post.no_exception_escapes.path{i}', r.status if r else 'refuted', time=r.time if r else 0, backend=r.backend if r else 'structural', where=f'escaping: {v}')
        n += 1
    if not n: rep.error('C05.nonfatal: no path')
    # ---- beartype_object: the non-fatal path is taken exactly when the configuration names a warning category
    fobj, node, _ = funcmode.load('beartype/_decor/decorcore.py', 'beartype_object')
    def m_tag(tag): return lambda ex_, s, f, a, kw, w: [(s.ev('via', tag), VObj(M.fresh(tag)))]
    ex = Exec(uni, dict(mod.__dict__), call_model={mod._beartype_object_fatal: m_tag('fatal'), mod._beartype_object_nonfatal: m_tag('nonfatal')}, name='beartype_object'); ex.fields_mode = True
    outs = ex.run_function(node, St(), (VObj(OBJ), VObj(CONF)), {}, fobj)
    pr = discharge.Prover(uni.axioms())
    for i, (s, v) in enumerate(outs):
        via = [e[1] for e in s.events if e[0] == 'via']
        r = pr.prove(list(s.pc), (WCLS != NONE) == z3.BoolVal(via == ['nonfatal']))
        rep.add(f'C05.beartype_object.post.nonfatal_iff_warning_cls.path{i}', r.status, time=r.time, backend=r.backend, where='beartype_object isolates failures exactly when conf.warning_cls_on_decorator_exception is set (always under the import hooks)')
    if not outs: rep.error('C05.beartype_object: no path')
    # ---- the member loop of beartype_type goes through that entry point
    from props import c13
    c13.type_part(rep, prefix='C05', only='member_failure_isolated')

ISO_SRC = """
import sys, os, tempfile, warnings, importlib, textwrap
from beartype.claw import beartype_package
from beartype.roar import BeartypeClawDecorWarning, BeartypeCallHintViolation
from beartype.claw._clawstate import claw_state
MODS = {
 'mid': 'from typing import NoReturn\\nclass K:\\n    def a(self, x: int) -> int: return x\\n    def bad(self, x: NoReturn): return x\\n    def b(self, x: int) -> int: return x\\n    @staticmethod\\n    def c(x: int) -> int: return x\\n',
 'first': 'from typing import NoReturn\\nclass K:\\n    def bad(self, x: NoReturn): return x\\n    def a(self, x: int) -> int: return x\\n    def b(self, x: int) -> int: return x\\n    @classmethod\\n    def c(cls, x: int) -> int: return x\\n',
 'nested': 'from typing import NoReturn\\nclass K:\\n    class In:\\n        def bad(self, x: NoReturn): return x\\n        def a(self, x: int) -> int: return x\\n    def a(self, x: int) -> int: return x\\n    def b(self, x: int) -> int: return x\\n    def c(self, x: int) -> int: return x\\n',
 'func': 'from typing import NoReturn\\ndef bad(x: NoReturn): return x\\nclass K:\\n    def a(self, x: int) -> int: return x\\n    def b(self, x: int) -> int: return x\\n    def c(self, x: int) -> int: return x\\n',
}
d = tempfile.mkdtemp(prefix='c05iso'); pkg = os.path.join(d, 'c05isopkg'); os.mkdir(pkg); open(os.path.join(pkg, '__init__.py'), 'w').close()
for n, src in MODS.items(): open(os.path.join(pkg, n + '.py'), 'w').write(src.replace('\\n', chr(10)))
sys.path.insert(0, d); sys.dont_write_bytecode = True
beartype_package('c05isopkg')
bad = []
for n in MODS:
    with warnings.catch_warnings(record=True) as rec:
        warnings.simplefilter('always')
        try: m = importlib.import_module('c05isopkg.' + n)
        except Exception as e: bad.append((n, 'import failed: ' + type(e).__name__)); continue
    if not any(issubclass(w.category, BeartypeClawDecorWarning) for w in rec): bad.append((n, 'no BeartypeClawDecorWarning'))
    k = m.K()
    for meth in ('a', 'b', 'c'):
        try: getattr(k, meth)('not an int'); bad.append((n, f'K.{meth} is NOT checked'))
        except BeartypeCallHintViolation: pass
    if n == 'nested':
        try: m.K.In().a('not an int'); bad.append((n, 'K.In.a is NOT checked'))
        except BeartypeCallHintViolation: pass
import shutil; shutil.rmtree(d, ignore_errors=True); claw_state.reinit()
print(bad)
sys.exit(1 if bad else 0)
"""
def isolation_bounded(rep):
    """bounded (real import hook, NOT counted as proved): modules with one undecoratable definition import, warn, and keep every sibling checked"""
    import subprocess, sys
    from pyvc import VERIF, REPO
    src = f"import sys, os\nos.environ['VERIF_REPO'] = {REPO!r}\nsys.path.insert(0, {VERIF!r})\nimport pyvc; pyvc.use_repo()\n" + ISO_SRC
    p = subprocess.run([sys.executable, '-c', src], capture_output=True, text=True, timeout=180)
    if p.returncode not in (0, 1) or (p.returncode == 1 and not p.stdout.strip().startswith('[')): rep.error('C05 isolation_bounded harness: ' + (p.stdout + p.stderr)[-600:]); return
    if p.returncode == 1:
        rep.add('C05.isolation.bounded.siblings_still_checked', 'refuted', backend='runtime-contract', where=p.stdout.strip()[-400:], solver_output='bounded run-time contract through the real import hook (not a proof)',
                replay=dict(reproduced=True, detail=p.stdout.strip()[-400:]), replay_script=("os.environ['VERIF_REPO'] = %r\nimport pyvc; pyvc.use_repo()\n" % REPO) + ISO_SRC)
    rep.bounded.append(dict(kind='undecoratable definition among siblings under the real import hook (bounded stand-in, NOT counted as proved)', modules=4, failing=int(p.returncode == 1),
                            bound='4 module shapes (bad method first / in the middle, bad method of a nested class, bad module-level function) x 3-4 sibling methods'))

AFTER_SRC = """
import sys, os, tempfile, warnings, importlib
from beartype.claw import beartyping, beartype_package
from beartype.roar import BeartypeCallHintViolation, BeartypeDoorHintViolation
from beartype.claw._clawstate import claw_state
SRC = 'def outer(v):\\n    local: int = v\\n    def inner(w: int) -> int:\\n        return w\\n    class K:\\n        def m(self, z: int) -> int: return z\\n    return inner, K, local\\n'
d = tempfile.mkdtemp(prefix='c05after'); pkg = os.path.join(d, 'c05afterpkg'); os.mkdir(pkg); open(os.path.join(pkg, '__init__.py'), 'w').close()
for n in ('inblock', 'registered'): open(os.path.join(pkg, n + '.py'), 'w').write(SRC.replace('\\n', chr(10)))
sys.path.insert(0, d); sys.dont_write_bytecode = True
bad = []
def probe(label, m):
    # the module must behave like the by-hand module whenever its functions run - also long after it was imported
    try: inner, K, _ = m.outer(1)
    except Exception as e: bad.append((label, 'outer(1) raised ' + type(e).__name__)); return
    for what, thunk in (('inner("x")', lambda: inner('x')), ('K().m("x")', lambda: K().m('x')), ('outer("x")', lambda: m.outer('x'))):
        try: thunk(); bad.append((label, what + ' accepted'))
        except (BeartypeCallHintViolation, BeartypeDoorHintViolation): pass
        except Exception as e: bad.append((label, what + ' raised ' + type(e).__name__))
with beartyping():
    import c05afterpkg.inblock as m1
    probe('inside the block', m1)
probe('after the block (hook removed)', m1)
beartype_package('c05afterpkg')
import c05afterpkg.registered as m2
probe('registered package', m2)
with beartyping(): pass
probe('registered package after an unrelated beartyping() block', m2)
import shutil; shutil.rmtree(d, ignore_errors=True); claw_state.reinit()
print(bad); sys.exit(1 if bad else 0)
"""
def after_import_bounded(rep):
    """bounded (real import hook, NOT counted as proved): checks injected INSIDE function bodies (local annotated assignments, nested typed
    definitions) keep working whenever the function runs - inside a beartyping() block, after it, and after other hook API calls"""
    import subprocess, sys
    from pyvc import REPO
    env = dict(os.environ); env['PYTHONPATH'] = REPO; env['PYTHONDONTWRITEBYTECODE'] = '1'
    p = subprocess.run([sys.executable, '-c', AFTER_SRC], capture_output=True, text=True, timeout=180, env=env, cwd='/')
    if p.returncode not in (0, 1) or (p.returncode == 1 and not p.stdout.strip().startswith('[')): rep.error('C05 after_import_bounded harness: ' + (p.stdout + p.stderr)[-600:]); return
    if p.returncode == 1:
        rep.add('C05.after_import.bounded.injected_checks_keep_working', 'refuted', backend='runtime-contract', where=p.stdout.strip()[-400:], solver_output='bounded run-time contract through the real import hook (not a proof)',
                replay=dict(reproduced=True, detail=p.stdout.strip()[-400:]), replay_script=f"import subprocess\nenv = dict(os.environ); env['PYTHONPATH'] = {REPO!r}; env['PYTHONDONTWRITEBYTECODE'] = '1'\np = subprocess.run([sys.executable, '-c', {AFTER_SRC!r}], env=env, cwd='/')\nsys.exit(p.returncode)\n")
    rep.bounded.append(dict(kind='function-local injected checks after the import (bounded stand-in, NOT counted as proved)', probes=16, failing=int(p.returncode == 1)))

def callable_typed(rep):
    try: callable_typed_proof(rep); proved = True
    except Exception as e:
        proved = False
        rep.extra['is_node_callable_typed_note'] = f'function-mode proof not applicable to the current text ({type(e).__name__}: {str(e)[:160]}): the bounded exhaustive contract below stands in'
    # BOUNDED stand-in (always run; never counted as proved): every definition with <= 2 parameters of each of the three list kinds, each annotated or not,
    # with / without *args, **kwargs (annotated or not) and a return annotation - the real tester on the real ast against "any annotation"
    import itertools
    import beartype._util.ast.utilasttest as mod
    cases = 0; bad = []
    def params(prefix, n, mask): return [f'{prefix}{i}' + (': int' if mask >> i & 1 else '') for i in range(n)]
    for npos, nflex, nkw in itertools.product(range(3), repeat=3):
        for mp_, mf_, mk_ in itertools.product(range(1 << npos), range(1 << nflex), range(1 << nkw)):
            for va, vk, ret in itertools.product(('', '*a', '*a: int'), ('', '**k', '**k: int'), (False, True)):
                parts = params('p', npos, mp_) + (['/'] if npos else []) + params('f', nflex, mf_) + ([va] if va else (['*'] if nkw else [])) + params('k', nkw, mk_) + ([vk] if vk else [])
                src = f"def fn({', '.join(parts)}){' -> int' if ret else ''}: pass"
                try: nd = ast.parse(src).body[0]
                except SyntaxError: continue
                cases += 1
                want = bool(mp_ or mf_ or mk_ or 'int' in va or 'int' in vk or ret)
                try: got = bool(mod.is_node_callable_typed(nd))
                except Exception as e: got = f'{type(e).__name__}'
                if got != want: bad.append((src, got, want))
    if bad:
        src, got, want = min(bad, key=lambda t: len(t[0]))
        rep.add('C05.is_node_callable_typed.bounded.true_iff_any_annotation', 'refuted', backend='runtime-contract', bounded=True, where=f'{len(bad)} of {cases} definitions; smallest: `{src}` -> {got}, expected {want}',
                solver_output='bounded exhaustive run-time contract on the real function (not a proof)', replay=dict(kind='C05', reproduced=True, detail=f'is_node_callable_typed(`{src}`) is {got}, expected {want}'),
                replay_script=f"import ast\nsys.path.insert(0, os.environ.get('VERIF_REPO', '/repo'))\nfrom beartype._util.ast.utilasttest import is_node_callable_typed\ngot = bool(is_node_callable_typed(ast.parse({src!r}).body[0])); print(got)\nsys.exit(1 if got != {want!r} else 0)\n")
    rep.bounded.append(dict(kind='is_node_callable_typed over every definition with <= 2 parameters per list kind (bounded stand-in, NOT counted as proved)' + ('' if proved else ' - the function-mode proof did not apply to the current text'), definitions=cases, failing=len(bad)))

def callable_typed_proof(rep):
    """the callee contract visit_FunctionDef relies on ("@beartype on every ANNOTATED function"): is_node_callable_typed(node) is True exactly when the
    definition carries a return annotation or an annotation on ANY parameter - positional-only, positional-or-keyword, keyword-only, *args or **kwargs.
    Function mode with the three parameter lists symbolic sequences of arbitrary length (loops under an invariant / quantified)."""
    from pyvc import funcmode, model as M, discharge, symx
    from pyvc.symx import Exec, St, VObj
    import collections.abc as cabc
    import beartype._util.ast.utilasttest as mod
    fobj, node, _ = funcmode.load('beartype/_util/ast/utilasttest.py', 'is_node_callable_typed')
    uni = M.Universe()
    for c in (cabc.Sized, cabc.Collection, cabc.Sequence, cabc.Iterable, list): uni.const(c)
    NONE = uni.const(None); NODE = z3.Const('node', M.Obj)
    def F(n): return z3.Const(f'H_{n}', z3.ArraySort(M.Obj, M.Obj))
    ARGS = z3.Select(F('args'), NODE)
    lists = {k: z3.Select(F(k), ARGS) for k in ('posonlyargs', 'args', 'kwonlyargs')}
    ann = lambda t: M.truthy(z3.Select(F('annotation'), t))
    j = z3.Int('j_arg')
    def some_annotated(L): return z3.Exists([j], z3.And(0 <= j, j < M.len_(L), ann(M.item(L, j))))
    spec = z3.Or(M.truthy(z3.Select(F('returns'), NODE)), *[some_annotated(L) for L in lists.values()],
                 *[z3.And(M.truthy(z3.Select(F(k), ARGS)), ann(z3.Select(F(k), ARGS))) for k in ('vararg', 'kwarg')])
    pre = [M.inst(L, uni.const(list)) for L in lists.values()] + [z3.ForAll([z3.Const('lst', M.Obj)], z3.Implies(M.inst(z3.Const('lst', M.Obj), uni.const(list)), M.truthy(z3.Const('lst', M.Obj)) == (M.len_(z3.Const('lst', M.Obj)) > 0)))]
    ex = Exec(uni, dict(mod.__dict__), call_model={}, name='is_node_callable_typed'); ex.fields_mode = True
    ex.set_target(node)
    # each `for arg in <list>: if arg.annotation: return True` loop: on fall-through no item seen so far is annotated
    def mk_inv(ex_, i, env, B, s):
        return z3.BoolVal(True)
    k_ = z3.Int('k_inv')
    def inv_for(listname):
        def inv(ex_, i, env, B, s): return z3.ForAll([k_], z3.Implies(z3.And(0 <= k_, k_ < i), z3.Not(ann(M.item(lists[listname], k_)))))
        return inv
    # identify which list each loop iterates by its source text
    loops = [n_ for n_ in ast.walk(node) if isinstance(n_, ast.For)]
    contracts = {}
    for idx, lp in enumerate(loops):
        src = ast.unparse(lp.iter)
        which = [k for k in lists if src.endswith('.' + k)]
        if len(which) != 1: raise symx.Unsupported(f'cannot tell which parameter list loop {idx} iterates ({src})')
        contracts[ex.loop_index[id(lp)]] = dict(name=f'over_{which[0]}', vars=[], inv=inv_for(which[0]))
    ex.loop_contracts = contracts
    body = [st for st in node.body if not isinstance(st, ast.Assert) and not (isinstance(st, ast.Expr) and isinstance(st.value, ast.Constant))]
    try: outs = ex.exec_block(body, St((('node', VObj(NODE)),), tuple(pre)))
    except symx.Unsupported as e: raise
    pr = discharge.Prover(uni.axioms())
    for ob in ex.obls:
        r = pr.prove(list(ob.pc), ob.goal); rep.add(f'C05.is_node_callable_typed.{ob.kind}#{ob.name.rsplit(".", 1)[-1]}', r.status, time=r.time, backend=r.backend, where=ob.where, reason=r.reason)
    n = 0
    for i, (kind, s_, v) in enumerate(outs):
        if kind != 'return': continue
        n += 1
        r = pr.prove(list(s_.pc), ex.truth(v) == spec)
        rep.add(f'C05.is_node_callable_typed.post.true_iff_any_annotation.path{i}', r.status, time=r.time, backend=r.backend, reason=r.reason,
                where='True exactly when the return or ANY parameter of any kind (positional-only, flexible, keyword-only, *args, **kwargs) is annotated; parameter lists of any length')
    if not n: rep.error('C05.callable_typed: no returning path')
    rep.functions.append('beartype/_util/ast/utilasttest.py:is_node_callable_typed (mode F: loop invariants over the three parameter lists)')

def main(tier, seed):
    rep = report.Report('C05', tier, seed, 'other', f'./check C05 --tier {tier}')
    try: funcmode_part(rep)
    except Exception: rep.error('C05 funcmode: ' + traceback.format_exc()[-2500:])
    try: callable_typed(rep)
    except Exception: rep.error('C05 callable_typed: ' + traceback.format_exc()[-2500:])
    try: bounded(rep, tier, seed)
    except Exception: rep.error('C05 bounded: ' + traceback.format_exc()[-2500:])
    for fn in (import_tracking, isolation, isolation_bounded, after_import_bounded):
        try: fn(rep)
        except Exception: rep.error(f'C05 {fn.__name__}: ' + traceback.format_exc()[-2500:])
    files = ['beartype/claw/_ast/clawastmain.py', 'beartype/claw/_ast/_kind/clawastassign.py', 'beartype/claw/_ast/_kind/clawastmodule.py', 'beartype/claw/_ast/_kind/clawastimport.py']
    rep.functions = ['BeartypeNodeTransformer.visit_FunctionDef', 'visit_ClassDef', 'visit_AnnAssign', 'visit_Module (loop invariant)', '_decorate_node_beartype', 'decorcore.beartype_object', 'decorcore._beartype_object_nonfatal', 'decortype.beartype_type (member loop: failure isolation)'] + [f'{p}@{report.src_hash(p)}' for p in files]
    from pyvc import model as M
    rep.trusted = ['pyvc', 'z3', 'ast.NodeTransformer.generic_visit (stdlib: the induction over the module)'] + M.ASSUMED_SEMANTICS
    rep.assumptions = ['NOT claimed (no semantics of Python programs within reach of per-function contracts): the transformed module behaves like the hand-written one, raises at the first offending statement, evaluates each original expression exactly once',
                       'failure isolation: issue_warning does not raise (warnings are not turned into errors); _beartype_object_fatal is an abstract callee that returns or raises',
                       'AST nodes are objects with fields; list insertions are events; helper node factories (make_node_*) are abstract callees']
    rep.extra['explanation'] = 'structural postconditions of the transformer methods in function mode (shape of the output as a function of the input node and scope stack) plus a bounded generator of modules through the real transformer'
    return rep.finish()
