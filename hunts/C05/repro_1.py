# PEP 695 "type" statements are rewritten into a for-loop over "_" plus a second
# copy of the statement: "_" becomes a local variable of the enclosing function.
import sys; sys.path.insert(0, '/tmp/wt/hunt_C05_scratch')
from _common import *

SRC = '''
def _(text):                 # gettext-style translation helper
    return text.upper()

def greet():
    type Name = str          # any PEP 695 alias, no forward reference needed
    return _("hello")
'''
plain = import_plain(SRC).greet()
print('unhooked:', plain)
try:
    hooked = import_hooked(SRC).greet()
    print('hooked  :', hooked)
except Exception as e:
    print('hooked  : raised', type(e).__name__, e)
    sys.exit(1)
sys.exit(0 if hooked == plain else 1)
