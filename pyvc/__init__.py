"""pyvc - verification-condition generator for (a subset of) the Python text that beartype runs.
See /verif/DESIGN.md."""
import os, sys
REPO = os.path.abspath(os.environ.get('VERIF_REPO', '/repo'))
VERIF = os.path.dirname(os.path.dirname(os.path.abspath(__file__)))
def use_repo():
    """Make `import beartype` resolve to $VERIF_REPO's working tree (never an installed copy)."""
    if sys.path[0] != REPO:
        sys.path.insert(0, REPO)
    import beartype
    assert os.path.abspath(beartype.__file__).startswith(REPO + os.sep), (beartype.__file__, REPO)
    return beartype
