#!/usr/bin/env python3
"""Re-run the mutant corpus (mutants/*.diff: one-line semantic changes of /repo used to validate the VC generator) against the checks that
are expected to report them.  Each mutant is applied to a scratch worktree of /repo HEAD outside /repo and /verif, which is removed afterwards.
Prints one line per mutant: detected (exit 1) / equivalent or invalid (recorded expectation) / MISSED."""
import json, os, subprocess, sys
V = os.path.dirname(os.path.dirname(os.path.abspath(__file__)))
EXPECT = {'M47': 'invalid mutant (the module no longer imports): exit 3 expected', 'M49': 'invalid mutant (the module no longer imports): exit 3 expected',
          'M62': 'equivalent mutant (tuples of different lengths are unequal anyway): exit 0 expected'}
rows = json.load(open(os.path.join(V, 'mutants', 'index.json'))); only = sys.argv[1:]
for r in rows:
    if only and r['name'] not in only: continue
    wt = f"/tmp/wt/mutrun_{r['name']}"; out = wt + '.out'; os.makedirs(out, exist_ok=True)
    subprocess.run(['git', '-C', '/repo', 'worktree', 'remove', '--force', wt], capture_output=True)
    subprocess.run(['git', '-C', '/repo', 'worktree', 'add', '--detach', wt, 'HEAD'], capture_output=True)
    ap = subprocess.run(['git', '-C', wt, 'apply', os.path.join(V, 'mutants', r['name'] + '.diff')], capture_output=True)
    if ap.returncode:
        print(r['name'], 'STALE (no longer applies)'); subprocess.run(['git', '-C', '/repo', 'worktree', 'remove', '--force', wt], capture_output=True); continue
    for chk in r['checks']:
        env = dict(os.environ, VERIF_REPO=wt, VERIF_EVIDENCE_DIR=out, VERIF_REPLAY_DIR=out + '/replays')
        rc = subprocess.run([os.path.join(V, 'check'), chk], capture_output=True, text=True, env=env).returncode
        verdict = 'detected' if rc == 1 else (EXPECT.get(r['name'], 'MISSED') if rc in (0, 3) else f'exit {rc}')
        print(r['name'], chk, f'exit={rc}', verdict)
    subprocess.run(['git', '-C', '/repo', 'worktree', 'remove', '--force', wt], capture_output=True)
