# The isinstance() result of beartype's caching Protocol is memoised per
# *type*, although data protocols depend on per-*instance* attributes.
# (a) through plain typing.TextIO / typing.BinaryIO / typing.IO hints,
# (b) through a user-defined beartype.typing.Protocol with a data member.
import io, sys, tempfile, typing
from beartype import beartype
from beartype.door import is_bearable

bad = 0
with tempfile.NamedTemporaryFile('w+') as real_text, \
     tempfile.NamedTemporaryFile('rb') as tmpb:
    real_text = open(real_text.name)          # genuine _io.TextIOWrapper from open()
    real_bin = open(tmpb.name, 'rb')          # genuine _io.BufferedReader from open()

    # An in-memory stream of the same *type* is checked first (result: False,
    # because it has no ".mode")...
    print('in-memory TextIOWrapper :', is_bearable(io.TextIOWrapper(io.BytesIO()), typing.TextIO))
    print('in-memory BufferedReader:', is_bearable(io.BufferedReader(io.BytesIO()), typing.BinaryIO))
    # ...which poisons the verdict for every later object of that type.
    for name, obj, hint in [
        ('open(..) as TextIO', real_text, typing.TextIO),
        ('open(..) as IO[str]', real_text, typing.IO[str]),
        ('open(..) as IO', real_text, typing.IO),
        ('open(.., "rb") as BinaryIO', real_bin, typing.BinaryIO),
        ('open(.., "rb") as IO[bytes]', real_bin, typing.IO[bytes]),
    ]:
        ok = is_bearable(obj, hint)
        print(name, '->', ok)
        bad += not ok

    @beartype
    def read(f: typing.TextIO) -> str:
        return f.read()
    try:
        read(real_text)
    except Exception as e:
        bad += 1
        print(type(e).__name__, str(e)[:200])

# (b) public beartype.typing.Protocol
from beartype.typing import Protocol, runtime_checkable
@runtime_checkable
class HasX(Protocol):
    x: int
class C: pass
without_x, with_x = C(), C()
with_x.x = 1
print('HasX without x:', is_bearable(without_x, HasX))
ok = is_bearable(with_x, HasX)
print('HasX with x   :', ok, '(hasattr:', hasattr(with_x, 'x'), ')')
bad += not ok
sys.exit(1 if bad else 0)
