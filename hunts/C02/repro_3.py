# A beartype validator in Annotated[...] is silently ignored whenever some
# non-beartype metadata precedes it (including via a nested/aliased Annotated,
# which typing flattens). The failed validator never rejects the object.
from typing import Annotated
from beartype import beartype
from beartype.door import is_bearable
from beartype.roar import BeartypeCallHintViolation
from beartype.vale import Is

Positive = Is[lambda x: x > 0]
UserId = Annotated[int, 'a user id']                # e.g. a documented alias

hints = {
    "Annotated[int, Positive]           (control)": Annotated[int, Positive],
    "Annotated[int, 'doc', Positive]":             Annotated[int, 'doc', Positive],
    "Annotated[UserId, Positive]":                 Annotated[UserId, Positive],
    "list[Annotated[int, 'doc', Positive]]":       list[Annotated[int, 'doc', Positive]],
}
bad = 0
for label, hint in hints.items():
    obj = [-1] if label.startswith('list') else -1
    accepted = is_bearable(obj, hint)
    print(f'{label:45} is_bearable({obj!r}) = {accepted}')
    bad += accepted

@beartype
def f(uid: Annotated[UserId, Positive]) -> None: pass
try:
    f(-1); print('decorated f(-1) accepted'); bad += 1
except BeartypeCallHintViolation:
    print('decorated f(-1) rejected')
raise SystemExit(1 if bad else 0)
