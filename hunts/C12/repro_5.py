# Finding 5: a left-nested chain of >= 200 validators (V0 | V1 | ... | V199, the
# natural result of functools.reduce(operator.or_, ...)) has a perfectly good
# is_valid() but beartype generates unparseable code for it ("too many nested
# parentheses"), so neither is_bearable() nor @beartype can check it.
import sys
from functools import reduce
from operator import or_
import beartype
assert beartype.__file__.startswith('/tmp/wt/hunt_C12'), beartype.__file__
from typing import Annotated
from beartype import beartype as bt
from beartype.door import is_bearable
from beartype.vale import IsEqual

N = 200
V = reduce(or_, (IsEqual[i] for i in range(N)))
print('is_valid(199) =', V.is_valid(N - 1), '| is_valid(200) =', V.is_valid(N))
bad = 0
try:
    print('is_bearable(199) =', is_bearable(N - 1, Annotated[int, V]))
except Exception as e:
    bad = 1
    print('is_bearable: BUG ->', type(e).__name__, '|', repr(e.__cause__))
try:
    @bt
    def f(x: Annotated[int, V]): return x
    f(N - 1)
except Exception as e:
    bad = 1
    print('@beartype: BUG ->', type(e).__name__, '|', str(e).splitlines()[0][:120], '|', str(e).splitlines()[1][:120])
sys.exit(bad)
