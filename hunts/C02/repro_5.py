# Collection[T] hints never sample sequences: only item 0 of a list/tuple is ever
# inspected, although the weaker Iterable[T]/Container[T] hints (and Sequence[T])
# do sample sequences randomly. A violation at index i > 0 is unreachable.
import beartype._check.code.codemain as codemain
DRAW = [0]
codemain.getrandbits = lambda nbits: DRAW[0]
import collections.abc as cabc, typing
from beartype.door import is_bearable

def rejected_by_some_draw(obj, hint):
    for DRAW[0] in range(1024):
        if not is_bearable(obj, hint): return True
    return False
bad = 0
for hint in (cabc.Iterable[int], cabc.Container[int], cabc.Sequence[int],
             cabc.Collection[int], typing.Collection[int]):
    for obj in ([1, 2, 'c'], (1, 'b', 3)):
        ok = rejected_by_some_draw(obj, hint)
        print(f'{hint!r:35} {obj!r:14} rejected by some draw: {ok}')
        bad += not ok
raise SystemExit(1 if bad else 0)
