# Duck-typed ("virtual") Sequence / Mapping / Set implementations are inferred
# as collections.abc.{Sequence,Mapping,Set}[...] although isinstance() against
# those ABCs is False (these ABCs define no __subclasshook__()).
import contextvars
from beartype.door import infer_hint, is_bearable

class DuckSeq:
    def __init__(self, *a): self.a = list(a)
    def __getitem__(self, i): return self.a[i]
    def __len__(self): return len(self.a)
    def __iter__(self): return iter(self.a)
    def __contains__(self, x): return x in self.a
    def __reversed__(self): return reversed(self.a)
    def count(self, x): return self.a.count(x)
    def index(self, x): return self.a.index(x)

class DuckMap:
    def __init__(self, d): self.d = d
    def __getitem__(self, k): return self.d[k]
    def __len__(self): return len(self.d)
    def __iter__(self): return iter(self.d)
    def __contains__(self, k): return k in self.d
    def __eq__(self, o): return self is o
    def __ne__(self, o): return self is not o
    __hash__ = object.__hash__
    def get(self, k, default=None): return self.d.get(k, default)
    def items(self): return self.d.items()
    def keys(self): return self.d.keys()
    def values(self): return self.d.values()

bad = 0
for name, obj in (('DuckSeq(1, 2)', DuckSeq(1, 2)), ('DuckMap({1: 2})', DuckMap({1: 2})),
                  ('DuckSeq()', DuckSeq()),
                  ('contextvars.copy_context()', contextvars.copy_context())):
    hint = infer_hint(obj)
    ok = is_bearable(obj, hint)
    print(f'{name}: hint={hint!r} -> is_bearable={ok}')
    bad += ok is not True
raise SystemExit(1 if bad else 0)
