"""C10 repro 3: beartype.typing.Protocol (and the typing.IO/TextIO/BinaryIO hints,
which beartype reduces to such protocols) are checked with hasattr()/getattr() on the
*instance*, which runs property getters and __getattr__ of the object being checked.
typing.Protocol on the same Python (3.12) uses inspect.getattr_static and runs nothing."""
import sys
import tempfile
import typing as T
from beartype.door import is_bearable
from beartype.typing import Protocol, runtime_checkable

@runtime_checkable
class HasTok(Protocol):
    tok: int
    def read(self) -> int: ...

@T.runtime_checkable
class HasTokStd(T.Protocol):
    tok: int
    def read(self) -> int: ...

class Lexer:
    def __init__(self):
        self._it = iter([1, 2, 3]); self.log = []
    @property
    def tok(self):                 # "current token": advances the stream
        self.log.append('tok'); return next(self._it)
    @property
    def read(self):                # lazily bound reader
        self.log.append('read'); return lambda: 0

bad = False
o = Lexer(); r = is_bearable(o, HasTokStd)
print('typing.Protocol         ->', r, o.log, 'next token:', next(o._it))
o = Lexer(); r = is_bearable(o, HasTok)
nxt = next(o._it)
print('beartype.typing.Protocol->', r, o.log, 'next token:', nxt)
bad |= nxt != 1 or bool(o.log)

with tempfile.NamedTemporaryFile('w') as f:
    before = set(vars(f)); r = is_bearable(f, T.TextIO); added = set(vars(f)) - before
    print('is_bearable(NamedTemporaryFile, TextIO) ->', r, '; instance __dict__ gained', sorted(added))
    bad |= bool(added)

sys.exit(1 if bad else 0)
