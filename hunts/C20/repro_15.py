# The module object beartype.typing (e.g. as a value of sys.modules).
import sys, beartype.typing
from beartype.door import infer_hint, is_bearable
bad = 0
for name, obj in (('beartype.typing', beartype.typing), ('sys.modules', sys.modules)):
    try:
        hint = infer_hint(obj)
        ok = is_bearable(obj, hint)
        print(f'{name}: -> {ok}'); bad += ok is not True
    except Exception as e:
        print(f'{name}: raised {type(e).__name__}: {e}'); bad += 1
raise SystemExit(1 if bad else 0)
