"""C10 repro 4: the beartype.claw import hook type-checks `obj_expr.attr: hint = value`
by appending `die_if_unbearable(obj_expr.attr, hint)`, i.e. it evaluates `obj_expr` a
second time (advancing iterators / popping stacks again) and reads the attribute back
through its property getter."""
import os, sys, tempfile, textwrap

tmp = tempfile.mkdtemp(prefix='c10claw_')
pkg = os.path.join(tmp, 'c10clawpkg'); os.mkdir(pkg)
open(os.path.join(pkg, '__init__.py'), 'w').close()
with open(os.path.join(pkg, 'mod.py'), 'w') as f:
    f.write(textwrap.dedent('''
        class Box:
            def __init__(self, name): self.name = name; self.value = 0
            def __repr__(self): return f'Box({self.name})'

        def run_iter():
            it = iter([Box('x'), Box('y'), Box('z')])
            next(it).value: int = 5            # touches exactly one box
            return list(it)                    # -> [Box(y), Box(z)]

        def run_pop():
            stack = [Box('only')]
            stack.pop().value: int = 5         # pops once
            return 'ok'

        class Lazy:
            reads = 0
            @property
            def v(self):
                type(self).reads += 1; return 1
            @v.setter
            def v(self, x): pass

        def run_prop():
            o = Lazy(); o.v: int = 3           # never reads o.v
            return Lazy.reads
    '''))
sys.path.insert(0, tmp)
from beartype.claw import beartype_package
beartype_package('c10clawpkg')
from c10clawpkg import mod

bad = False
rest = mod.run_iter(); print('remaining after one next():', rest); bad |= len(rest) != 2
try:
    print('run_pop:', mod.run_pop())
except IndexError as e:
    print('run_pop raised IndexError:', e); bad = True
reads = mod.run_prop(); print('property getter reads:', reads); bad |= reads != 0
sys.exit(1 if bad else 0)
