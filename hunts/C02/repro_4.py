# A forward reference that is unresolvable at decoration time and later resolves
# to a non-class hint (e.g. an alias "IntList = list[int]" defined below the
# function, the norm under "from __future__ import annotations") is checked
# through the forward-reference proxy with the hard-coded BEARTYPE_CONF_NONRANDOM
# configuration. Under the default is_random=True only item 0 of the sequence is
# ever inspected: a violation at any other index is unreachable for every draw.
from __future__ import annotations
from beartype import beartype, BeartypeConf
from beartype.door import is_bearable
from beartype.roar import BeartypeCallHintViolation

@beartype                                    # default conf: is_random=True
def f(x: IntList) -> None: pass

@beartype(conf=BeartypeConf(is_random=True))
def g(x: dict[str, IntList]) -> None: pass

IntList = list[int]                          # defined after its first use

def rejections(fn, arg, calls=1000):
    n = 0
    for _ in range(calls):
        try: fn(arg)
        except BeartypeCallHintViolation: n += 1
    return n

control = sum(not is_bearable([1, 'a'], list[int]) for _ in range(1000))
n_f = rejections(f, [1, 'a'])
n_g = rejections(g, {'k': [1, 2, 'a']})
print('control  is_bearable([1, "a"], list[int]) rejected', control, 'of 1000 calls')
print('f([1, "a"])            via forward ref   rejected', n_f, 'of 1000 calls')
print('g({"k": [1, 2, "a"]})  via forward ref   rejected', n_g, 'of 1000 calls')
print('f(["a", 1])  (item 0)                    rejected', rejections(f, ['a', 1], 50), 'of 50 calls')
raise SystemExit(1 if (n_f == 0 or n_g == 0) else 0)
