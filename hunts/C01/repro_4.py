# A generator function whose return annotation is a perfectly valid hint that a
# generator object satisfies is refused at decoration time unless the
# annotation is *syntactically* Generator[...]/Iterator[...]/Iterable[...].
import sys, typing, collections.abc as abc
from beartype import beartype
from beartype.door import is_bearable

def gen():
    yield 1
print('generator object satisfies collections.abc.Iterable:', is_bearable(gen(), abc.Iterable))

@typing.runtime_checkable
class SupportsIter(typing.Protocol):
    def __iter__(self): ...
type IntIter = abc.Iterator[int]

bad = 0
for name, hint in [
    ('collections.abc.Iterable (unsubscripted)', abc.Iterable),
    ('collections.abc.Iterator (unsubscripted)', abc.Iterator),
    ('Annotated[Iterator[int], "doc"]', typing.Annotated[abc.Iterator[int], 'doc']),
    ('PEP 695 alias of Iterator[int]', IntIter),
    ('Iterator[int] | None', abc.Iterator[int] | None),
    ('runtime-checkable protocol with __iter__', SupportsIter),
]:
    assert is_bearable(gen(), hint), name   # the object conforms to the hint
    def g():
        yield 1
    g.__annotations__['return'] = hint
    try:
        print(name, '->', list(beartype(g)()))
    except Exception as e:
        bad += 1
        print(name, '->', type(e).__name__, str(e)[:110])
sys.exit(1 if bad else 0)
