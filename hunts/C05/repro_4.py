# An annotated assignment whose hint beartype cannot handle breaks the program
# under the hook (no BeartypeClawDecorWarning, no "left unchecked").
import sys, warnings; sys.path.insert(0, '/tmp/wt/hunt_C05_scratch')
from _common import *

SRC = '''
from typing import Self, ClassVar

class Node:
    def clone(self) -> Self:
        other: Self = type(self)()       # perfectly valid, value satisfies the hint
        return other

class Registry: pass
def sibling(x: int) -> int:              # other definitions of the module
    return x
try:
    clone_result = type(Node().clone()).__name__
except Exception as e:
    clone_result = 'raised ' + type(e).__name__
'''
SRC2 = '''
from typing import ClassVar
class Registry: pass
Registry.count: ClassVar[int] = 0        # hint "currently unsupported by @beartype"
ok = True
'''
bad = 0
p = import_plain(SRC)
with warnings.catch_warnings(record=True) as w:
    warnings.simplefilter('always')
    h = import_hooked(SRC)
print('Node().clone(): unhooked =', p.clone_result, '| hooked =', h.clone_result,
      '| warnings =', [x.category.__name__ for x in w])
bad += p.clone_result != h.clone_result
print('unhooked import of SRC2: ok =', import_plain(SRC2).ok)
try:
    print('hooked import of SRC2: ok =', import_hooked(SRC2).ok)
except Exception as e:
    print('hooked import of SRC2 raised', type(e).__name__, '-', str(e).replace('\x1b', '')[:140])
    bad += 1
sys.exit(1 if bad else 0)
