# numpy.ndarray hints whose dtype is a type variable (which is how numpy >= 2.x
# itself defines numpy.typing.NDArray) are rejected: the NumPy reducer is handed
# the raw TypeVar instead of the hint it maps to.
import sys, typing
import numpy as np, numpy.typing as npt
from beartype import beartype
from beartype.door import is_bearable
print('numpy', np.__version__, '; NDArray is', type(npt.NDArray).__name__)
S = typing.TypeVar('S', bound=np.generic)
type Arr[D: np.generic] = np.ndarray[typing.Any, np.dtype[D]]
bad = 0
for name, hint in [
    ('npt.NDArray[np.float64]', npt.NDArray[np.float64]),
    ('npt.NDArray[typing.Any]', npt.NDArray[typing.Any]),
    ('PEP 695 alias Arr[np.float64]', Arr[np.float64]),
    ('np.ndarray[Any, np.dtype[S]]', np.ndarray[typing.Any, np.dtype[S]]),
]:
    try:
        print(name, '->', is_bearable(np.zeros(3), hint))
    except Exception as e:
        bad += 1
        print(name, '->', type(e).__name__, str(e)[:130])
try:
    @beartype
    def double(a: npt.NDArray[np.float64]) -> npt.NDArray[np.float64]:
        return a * 2
    double(np.zeros(3))
except Exception as e:
    bad += 1
    print('@beartype:', type(e).__name__, str(e)[:130])
sys.exit(1 if bad else 0)
