# In-memory streams are rejected by typing.TextIO / BinaryIO / IO[...].
import io, sys, typing
from beartype import beartype
from beartype.door import is_bearable
bad = 0
for name, obj, hint in [
    ('StringIO as TextIO', io.StringIO(), typing.TextIO),
    ('StringIO as IO[str]', io.StringIO(), typing.IO[str]),
    ('StringIO as IO', io.StringIO(), typing.IO),
    ('BytesIO as BinaryIO', io.BytesIO(), typing.BinaryIO),
    ('BytesIO as IO[bytes]', io.BytesIO(), typing.IO[bytes]),
    ('TextIOWrapper(BytesIO) as TextIO', io.TextIOWrapper(io.BytesIO()), typing.TextIO),
    ('BufferedReader(BytesIO) as BinaryIO', io.BufferedReader(io.BytesIO()), typing.BinaryIO),
]:
    ok = is_bearable(obj, hint)
    print(name, '->', ok)
    bad += not ok
@beartype
def dump(out: typing.TextIO) -> None:
    out.write('x')
try:
    dump(io.StringIO())
except Exception as e:
    bad += 1
    print(type(e).__name__, str(e)[:250])
sys.exit(1 if bad else 0)
