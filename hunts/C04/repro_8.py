# beartype stores per-function metadata ("__beartype_wrapper",
# "__beartype_args_lens") in the function's __dict__, which functools.wraps()
# copies onto *other* functions.
import functools
from beartype import beartype
from beartype.roar import BeartypeCallHintParamViolation

bugs = []

# (a) A method that merely borrows the metadata of a beartyped method via
#     functools.wraps() is considered "already beartyped" and left unchecked.
@beartype
class Base:
    def m(self, a: int) -> str:
        """Documented once."""
        return 'base'

@beartype
class Child(Base):
    @functools.wraps(Base.m)          # inherit docstring etc.
    def m(self, a: int) -> str:
        return ('child ran', a)

try:
    r = Child().m('not-int')
    bugs.append(f'(a) Child().m("not-int") returned {r!r}: neither parameter nor return checked')
except BeartypeCallHintParamViolation:
    pass

# (b) The cached argument counts of another function are copied as well, so the
#     wrapper's own signature is mis-introspected (here as "one flexible
#     parameter, no *args, no keyword-only, no **kwargs").
def base(a: int) -> int:
    """Doc."""
    return a
beartype(base)                        # any introspection caches the counts on "base"

@beartype
@functools.wraps(base, assigned=('__doc__',))
def w(a: int, b: str, *c: int, k: str = 'k', **kw: int):
    return ('ran', a, b, c, k, kw)

for label, call in (
    ('b',  lambda: w(1, 2)),
    ('c',  lambda: w(1, 's', 'x')),
    ('k',  lambda: w(1, 's', k=1)),
    ('kw', lambda: w(1, 's', z='s')),
):
    try:
        r = call()
        bugs.append(f'(b) parameter {label} unchecked: returned {r!r}')
    except BeartypeCallHintParamViolation:
        pass

for b in bugs: print('BUG', b)
raise SystemExit(1 if bugs else 0)
