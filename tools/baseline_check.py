#!/usr/bin/env python3
"""Run the pinned test suite of a beartype tree and compare with BASELINE.json's stable_pass list.

usage: baseline_check.py [repo_dir]   (default /repo)
exit 0 iff every test of stable_pass passed.
"""
import json, os, subprocess, sys, tempfile, xml.etree.ElementTree as ET
repo = os.path.abspath(sys.argv[1] if len(sys.argv) > 1 else '/repo')
base = json.load(open('/root/.vp/BASELINE.json'))
want = set(base['stable_pass'])
with tempfile.TemporaryDirectory() as td:
    xml = os.path.join(td, 'r.xml')
    env = dict(os.environ); env['PYTHONPATH'] = repo
    p = subprocess.run(['/venv/bin/python', '-m', 'pytest', '-ra', '-q', '-p', 'no:cacheprovider', '--timeout=900',
                        '--continue-on-collection-errors', '--junitxml=' + xml], cwd=repo, env=env,
                       stdout=subprocess.PIPE, stderr=subprocess.STDOUT, text=True)
    passed = set()
    for tc in ET.parse(xml).getroot().iter('testcase'):
        if not any(ch.tag in ('failure', 'error', 'skipped') for ch in tc):
            passed.add(tc.get('classname') + '::' + tc.get('name'))
missing = sorted(want - passed)
print(f'stable_pass={len(want)} passed_now={len(passed)} baseline_tests_not_passing={len(missing)}')
for m in missing[:50]: print('  NOT PASSING:', m)
if missing: print(p.stdout[-3000:])
sys.exit(1 if missing else 0)
