"""C18 - hint-rewriting options behave like rewriting the hints by hand: for every enumerated shape containing
float/complex/an overridden hint the checker generated under the rewriting configuration and the checker generated for
the hand-rewritten hint under the default configuration are proved logically equivalent for ALL objects and draws
(program equivalence on the captured real text); violation_*type options are proved not to change the verdict."""
import ast, os, re, sys, time, z3, traceback, multiprocessing as mp
from pyvc import report

REWRITES = [
  # (name, conf source, [(token regex, replacement)])
  ('tower', 'BeartypeConf(is_pep484_tower=True)', [(r'\bfloat\b', 'Union[float, int]'), (r'\bcomplex\b', 'Union[complex, float, int]')]),
  ('ov_cls', 'BeartypeConf(hint_overrides=FrozenDict({L0: Union[L1, int]}))', [(r'\bL0\b', 'Union[L1, int]')]),
  ('ov_cls_rec', 'BeartypeConf(hint_overrides=FrozenDict({L0: Union[L0, L1]}))', [(r'\bL0\b', 'Union[L0, L1]')]),
  ('ov_newtype', 'BeartypeConf(hint_overrides=FrozenDict({NT: Union[int, str]}))', [(r'\bNT\b', 'Union[int, str]')]),
  ('ov_sub', 'BeartypeConf(hint_overrides=FrozenDict({list[str]: tuple[str, ...]}))', [(r'list\[str\]', 'tuple[str, ...]')]),
  ('ov_tower', 'BeartypeConf(is_pep484_tower=True, hint_overrides=FrozenDict({L0: L1}))', [(r'\bfloat\b', 'Union[float, int]'), (r'\bcomplex\b', 'Union[complex, float, int]'), (r'\bL0\b', 'L1')]),
  # the tower together with an override that already spells out one of its own two entries: both readings of the property agree
  ('tower_ovfloat', 'BeartypeConf(is_pep484_tower=True, hint_overrides=FrozenDict({float: Union[float, int]}))', [(r'\bfloat\b', 'Union[float, int]'), (r'\bcomplex\b', 'Union[complex, float, int]')]),
  ('tower_ovcomplex', 'BeartypeConf(is_pep484_tower=True, hint_overrides=FrozenDict({complex: Union[complex, float, int]}))', [(r'\bfloat\b', 'Union[float, int]'), (r'\bcomplex\b', 'Union[complex, float, int]')]),
  # several overrides at once: one simultaneous pass ("each occurrence of A replaced by B": a replacement is not rewritten again)
  ('ov_chain', 'BeartypeConf(hint_overrides=FrozenDict({L0: L1, L1: str}))', [(r'\bL0\b', 'L1'), (r'\bL1\b', 'str')]),
  ('ov_swap', 'BeartypeConf(hint_overrides=FrozenDict({L0: L1, L1: L0}))', [(r'\bL0\b', 'L1'), (r'\bL1\b', 'L0')]),
  # an override whose key is the bare origin class of subscripted hints: only the bare class is an occurrence of the key
  ('ov_origin', 'BeartypeConf(hint_overrides=FrozenDict({list: tuple}))', [(r'\blist\b(?!\[)', 'tuple')]),
  # overriding a hint by itself rewrites nothing
  ('ov_self', 'BeartypeConf(hint_overrides=FrozenDict({L0: L0, list[str]: list[str]}))', []),
  # an override whose replacement is a union WIDER than any union the key occurs in (every member of the replacement must reach the check)
  ('ov_wide', 'BeartypeConf(hint_overrides=FrozenDict({L0: Union[L0, L1, int, bytes]}))', [(r'\bL0\b', 'Union[L0, L1, int, bytes]')]),
  ('ov_wide_float', 'BeartypeConf(hint_overrides=FrozenDict({float: Union[float, str, bytes, L1, NT]}))', [(r'\bfloat\b', 'Union[float, str, bytes, L1, NT]')]),
  # a replacement that CONTAINS its own key below a container ("a replacement is not rewritten again": L0 -> list[L0] means lists of L0, not lists of lists)
  ('ov_rec_item', 'BeartypeConf(hint_overrides=FrozenDict({L0: list[L0]}))', [(r'\bL0\b', 'list[L0]')]),
  ('ov_rec_value', 'BeartypeConf(hint_overrides=FrozenDict({float: dict[str, float]}))', [(r'\bfloat\b', 'dict[str, float]')]),
  # a replacement that accepts everything: wherever the key occurs - also inside a union - the hint behaves as the ignorable replacement
  ('ov_any', 'BeartypeConf(hint_overrides=FrozenDict({L0: Any}))', [(r'\bL0\b', 'Any')]),
  ('ov_object', 'BeartypeConf(hint_overrides=FrozenDict({float: object}))', [(r'\bfloat\b', 'object')]),
  ('viol_type', 'BeartypeConf(violation_type=ValueError)', []),
  ('viol_door_warn', 'BeartypeConf(violation_door_type=UserWarning, violation_param_type=UserWarning)', []),
]
def rewrite(src, rules):
    # single simultaneous pass, so that a replacement is never rewritten again ("each occurrence of A replaced by B")
    if not rules: return src
    rx = re.compile('|'.join(f'(?P<g{i}>{r})' for i, (r, _) in enumerate(rules)))
    return rx.sub(lambda m: rules[int(m.lastgroup[1:])][1], src)

def tasks(tier, seed):
    from pyvc import shapes
    NSX = shapes.NS
    from beartype import FrozenDict
    NSX['FrozenDict'] = FrozenDict
    leaves = ['float', 'complex', 'L0', 'NT', 'list[str]', 'int', 'L1', 'str', 'list']
    base = list(leaves)
    for f in shapes.UNARY:
        if 'GL[' in f or 'GS[' in f: continue
        for l in ('float', 'complex', 'L0', 'NT', 'list[str]'): base.append(f.format(l))
    for f in shapes.BINARY:
        if 'GD[' in f: continue
        for a, b in (('float', 'L0'), ('L0', 'complex'), ('NT', 'float'), ('str', 'list[str]'), ('L0', 'L0')): base.append(f.format(a, b))
    base += ['type[float]', 'type[L0]', 'type[Union[L0, str]]', 'tuple[float, complex, L0]', 'Optional[float]', "Literal[1, 'a']", 'TB', 'TC']
    n2, n3 = (120, 40) if tier == 'quick' else (900, 300)
    comp = [s for s in shapes.sample_shapes(2, n2, seed, leaves=leaves + ['TB', 'type[L0]', 'Annotated[float, IS(pos)]'])]
    comp += [s for s in shapes.sample_shapes(3, n3, seed + 1, leaves=leaves)]
    T = []; seen = set()
    for kind, lst in (('node', base), ('composed', comp)):
        for s in lst:
            if not shapes.valid(s) or 'GL[' in s or 'GD[' in s or 'GS[' in s: continue
            for name, conf, rules in REWRITES:
                s2 = rewrite(s, rules)
                if rules and s2 == s: continue
                # aliases that hide the overridden class (NewType / TypeVar bound or constraints over L0) are not textual occurrences
                if any('L0' in r for r, _ in rules) and re.search(r'\b(NT|TB|TC)\b', s): continue
                if not rules and kind != 'node': continue
                if not shapes.valid(s2) or (s, name) in seen: continue
                seen.add((s, name)); T.append((s, conf, s2, name, kind))
    return T

def _worker(task):
    s, conf_src, s2, name, kind = task
    rec = dict(shape=s, conf=conf_src, rewritten=s2, rule=name, kind=kind, obligations=[], error=None)
    try:
        from pyvc import shapes, capture, gencheck, model as M, discharge
        from pyvc.symx import Unsupported
        from beartype import FrozenDict
        shapes.NS['FrozenDict'] = FrozenDict
        from beartype.door import is_bearable
        import collections.abc as cabc
        capture.install()
        uni = M.Universe()
        for c in (cabc.Sized, cabc.Collection, cabc.Sequence, cabc.Mapping, cabc.Iterable, cabc.Set, tuple, type(None)): uni.const(c)
        progs = []; gen_exc = []
        for hs, cs in ((s, conf_src), (s2, 'BeartypeConf()')):
            capture.clear_beartype_caches(); capture.drain()
            hint = shapes.ev(hs); conf = shapes.ev(cs)
            try: is_bearable(None, hint, conf=conf)
            except Exception as e:
                gen_exc.append((hs, cs, e)); progs.append(None); continue
            gen_exc.append(None)
            caps = capture.drain()
            if not caps: progs.append(None); continue
            ex, x, r, outs = gencheck.run_tester(caps[-1].code, caps[-1].scope, uni, hs)
            progs.append((ex, outs, caps[-1].code))
        if any(g is not None for g in gen_exc):
            # the checker could not even be generated: equivalent only if generation fails the same way for the hand-rewritten hint
            a, b = gen_exc
            same = a is not None and b is not None and type(a[2]) is type(b[2])
            which = a or b
            detail = f'generating the checker for {which[0]} under {which[1]} raised {type(which[2]).__name__}: {str(which[2])[:160]}' + ('' if same else f'; for the other side: {"no exception" if (b if which is a else a) is None else type((b if which is a else a)[2]).__name__}')
            rec['obligations'].append(dict(name='generator_raises', status='proved' if same else 'refuted', time=0, backend='runtime', where=detail, solver_output='the real generator raised',
                                           replay=dict(kind='C18', reproduced=not same, detail=detail, gen=(which[0], which[1]))))
            return rec
        x = z3.Const('x', M.Obj); r = z3.Int('r'); axioms = uni.axioms(); prover = discharge.Prover(axioms)
        def paths(p):
            if p is None: return [((), z3.BoolVal(True))]     # ignorable hint: constant-true checker
            ex, outs, _ = p
            res = []
            for k, st, v in outs:
                if k != 'return': raise Unsupported('checker path ends with ' + k)
                res.append((st.pc, ex.truth(v)))
            return res
        P1, P2 = paths(progs[0]), paths(progs[1])
        for p in progs:
            if p is None: continue
            for ob in p[0].obls:
                rr = prover.prove(list(ob.pc), ob.goal)
                rec['obligations'].append(dict(name=f'{ob.kind}#{ob.name.rsplit(".", 1)[-1]}', status=rr.status, time=rr.time, backend=rr.backend, where=ob.where))
        # the paths of one program partition the input space (their definedness side conditions are separate obligations above),
        # so acceptance is the disjunction of (path condition and truth of the returned value)
        acc1 = z3.Or(*[z3.And(*pc, t) for pc, t in P1]); acc2 = z3.Or(*[z3.And(*pc, t) for pc, t in P2])
        cov1 = z3.Or(*[z3.And(*pc) for pc, t in P1]); cov2 = z3.Or(*[z3.And(*pc) for pc, t in P2])
        rng = z3.And(0 <= r, r < 2 ** 32)
        rr = discharge.prove(axioms, [rng, cov1, cov2], acc1 == acc2)
        o = dict(name='equiv', status=rr.status, time=rr.time, backend=rr.backend, solver_output=f'{rr.backend}: {rr.status}', where=f'{len(P1)}x{len(P2)} paths')
        if rr.status == 'refuted': o['replay'] = replay(rr, uni, x, r, s, conf_src, s2)
        rec['obligations'].append(o)
    except Exception:
        rec['error'] = 'crash: ' + traceback.format_exc()[-1200:]
    return rec

def replay(res, uni, x, r, s, conf_src, s2):
    from pyvc import concretise
    out = dict(kind='C18', reproduced=False, tried=[])
    try:
        for b, m in concretise.resolve_small(res, bounds=(1, 2, 3, None)):
            obj_src = concretise.Concretiser(m, uni).build(x); rv = concretise._int(m, r)
            ok, detail = replay_c18(s, conf_src, s2, obj_src, rv)
            out['tried'].append(dict(obj=obj_src, r=rv, reproduced=ok, detail=detail))
            if ok: out.update(reproduced=True, obj=obj_src, r=rv, detail=detail); break
    except Exception as e: out['error'] = str(e)[:200]
    return out

def replay_c18(s, conf_src, s2, obj_src, r):
    from pyvc import shapes, replaylib
    from beartype import FrozenDict
    shapes.NS['FrozenDict'] = FrozenDict
    o = eval(obj_src, shapes.NS)
    v1, e1 = replaylib.real_verdict(o, shapes.ev(s), shapes.ev(conf_src), r)
    v2, e2 = replaylib.real_verdict(o, shapes.ev(s2), shapes.ev('BeartypeConf()'), r)
    if v1 != v2: return True, f'obj={obj_src} draw={r}: {s} under {conf_src} -> {v1}; hand-rewritten {s2} under default -> {v2}'
    return False, f'both {v1}'

def sanify_tower(rep):
    """(F) sanify_conf_kwargs_is_pep484_tower: on normal return the configuration's hint_overrides maps float and complex to the tower's
    unions and every other key exactly as the user passed it; it raises only when the user overrides float / complex differently."""
    from pyvc import funcmode, model as M, discharge, symx
    from pyvc.symx import Exec, St, VObj, VPy, VBool
    import collections.abc as cabc
    import beartype._conf._confoverrides as mod
    from beartype.roar import BeartypeConfParamException
    fobj, node, _ = funcmode.load('beartype/_conf/_confoverrides.py', 'sanify_conf_kwargs_is_pep484_tower')
    uni = M.Universe()
    for c in (cabc.Mapping, dict, float, complex, BeartypeConfParamException): uni.const(c)
    OLD = z3.Const('hint_overrides_in', M.Obj); T = z3.Const('TOWER', M.Obj); TF = z3.Const('tower_float', M.Obj); TC = z3.Const('tower_complex', M.Obj)
    Fl, Cx = uni.const(float), uni.const(complex); k = z3.Const('k_', M.Obj); NONE = uni.const(None)
    def m_tower(ex, s, f, a, kw, w): return [(s, VObj(T))]
    from beartype._data.kind.datakindiota import SENTINEL as _SENTINEL
    SENT = uni.const(_SENTINEL)      # trusted (DESIGN 8): no user value is beartype's private sentinel
    ex = Exec(uni, dict(mod.__dict__), call_model={mod._hint_overrides_pep484_tower: m_tower}, name='sanify_tower'); ex.bitor_is_dict_union = True
    s0, ref = ex.new_dict(St(), [('hint_overrides', VObj(OLD)), ('is_pep484_tower', VPy(True))])
    tower_ax = [M.inst(T, uni.const(cabc.Mapping)), M.inst(OLD, uni.const(cabc.Mapping)), z3.ForAll([k], M.mem(T, k) == z3.Or(k == Fl, k == Cx)), M.mget(T, Fl) == TF, M.mget(T, Cx) == TC,
                TF != NONE, TC != NONE, M.truthy(TF), M.truthy(TC), z3.Not(M.truthy(NONE)), z3.ForAll([k], z3.Implies(M.mem(OLD, k), M.mget(OLD, k) != SENT)),      # NO assumption about the user's override values: None (a valid hint) and other falsy hints included
                # == on hints: an object equals itself (the tower's unions are typing objects with a reflexive __eq__)
                M.eq(TF, TF), M.eq(TC, TC)]
    outs = ex.exec_block([st for st in node.body if not isinstance(st, ast.Assert) and not (isinstance(st, ast.Expr) and isinstance(st.value, ast.Constant))], s0.set('conf_kwargs', ref))
    pr = discharge.Prover(uni.axioms() + tower_ax)
    for ob in ex.obls:
        r = pr.prove(list(ob.pc), ob.goal); rep.add(f'C18.sanify_tower.{ob.kind}#{ob.name.rsplit(".", 1)[-1]}', r.status, time=r.time, backend=r.backend, where=ob.where)
    n = 0
    for i, (kind, s_, v) in enumerate(list(outs) + [('raise', s2, v2) for s2, v2 in ex.raised]):
        pc = list(s_.pc); n += 1
        if kind == 'raise':
            conflict = z3.Or(z3.And(M.mem(OLD, Fl), z3.Not(M.eq(M.mget(OLD, Fl), TF))), z3.And(M.mem(OLD, Cx), z3.Not(M.eq(M.mget(OLD, Cx), TC))))
            ok = isinstance(v, symx.VExc) and v.cls is BeartypeConfParamException
            r = pr.prove(pc, conflict)
            rep.add(f'C18.sanify_tower.post.raises_only_on_conflict.path{i}', r.status if ok else 'refuted', time=r.time, backend=r.backend, where='BeartypeConfParamException only when the user overrides float / complex with something else')
            continue
        conflict = z3.Or(z3.And(M.mem(OLD, Fl), z3.Not(M.eq(M.mget(OLD, Fl), TF))), z3.And(M.mem(OLD, Cx), z3.Not(M.eq(M.mget(OLD, Cx), TC))))
        r = pr.prove(pc, z3.Not(conflict))
        extra = {}
        if r.status == 'refuted':
            src = ("from beartype import BeartypeConf, FrozenDict\nfrom beartype.roar import BeartypeConfParamException\nbad = []\nfor k, v in ((float, None), (complex, None), (float, str)):\n"
                   "    try: c = BeartypeConf(is_pep484_tower=True, hint_overrides=FrozenDict({k: v})); bad.append(f'{k.__name__}: {v!r} accepted; reads back {c.hint_overrides[k]!r}')\n    except BeartypeConfParamException: pass\n"
                   "from typing import Union\nfor ov in ({float: Union[float, int], complex: str}, {complex: Union[complex, float, int], float: str}):\n    try: c = BeartypeConf(is_pep484_tower=True, hint_overrides=FrozenDict(ov)); bad.append(f'{ov!r} accepted; reads back {dict(c.hint_overrides)!r}')\n    except BeartypeConfParamException: pass\nprint(bad); sys.exit(1 if bad else 0)\n")
            import subprocess
            from pyvc import REPO
            p_ = subprocess.run([sys.executable, '-c', f'import sys; sys.path.insert(0, {REPO!r})\n' + src], capture_output=True, text=True)
            extra = dict(replay=dict(kind='C18', reproduced=p_.returncode == 1, detail=p_.stdout.strip()[-300:]), replay_script=(f"sys.path.insert(0, os.environ.get('VERIF_REPO', {REPO!r}))\n" + src) if p_.returncode == 1 else None)
        rep.add(f'C18.sanify_tower.post.returns_only_without_conflict.path{i}', r.status, time=r.time, backend=r.backend, reason=r.reason, **extra,
                where='normal return only if the user did not override float / complex with something other than the tower entry - whatever the override value is (None and other falsy hints included)')
        cur = dict(s_.hget(('dict', ref.rid), ())).get('hint_overrides')
        if cur is None: rep.add(f'C18.sanify_tower.post.path{i}', 'refuted', backend='structural', where='hint_overrides entry missing'); continue
        NEW = ex.obj(cur)
        goal = z3.And(M.mem(NEW, Fl), M.mget(NEW, Fl) == TF, M.mem(NEW, Cx), M.mget(NEW, Cx) == TC,
                      z3.ForAll([k], z3.Implies(z3.And(k != Fl, k != Cx), z3.And(M.mem(NEW, k) == M.mem(OLD, k), z3.Implies(M.mem(OLD, k), M.mget(NEW, k) == M.mget(OLD, k))))))
        r = pr.prove(pc, goal)
        rep.add(f'C18.sanify_tower.post.tower_entries_installed_others_kept.path{i}', r.status, time=r.time, backend=r.backend, reason=r.reason,
                where='after sanification hint_overrides maps float -> float | int and complex -> complex | float | int and leaves every other override as passed')
    if not n: rep.error('C18.sanify_tower: no path')

def zip_pairs_every_member(rep):
    """the union code generator flattens nested unions (a replacement that is itself a union) through a work list filled by
    `extend(zip(members, (parent,) * n))`: zip() silently truncates, so EVERY member of the replacement reaches the check only if n is the
    length of that very sequence.  Structural obligation, decided by resolving n on the real AST (single-assignment names, len() calls)."""
    import ast
    from pyvc import REPO
    rel = 'beartype/_check/code/_pep/pep484/codepep484604union.py'
    tree = ast.parse(open(os.path.join(REPO, rel)).read()); n_sites = 0
    for fn in [x for x in ast.walk(tree) if isinstance(x, ast.FunctionDef)]:
        assigns = {}
        for a in ast.walk(fn):
            if isinstance(a, ast.Assign) and len(a.targets) == 1 and isinstance(a.targets[0], ast.Name): assigns.setdefault(a.targets[0].id, []).append(a.value)
        def length_of(e):
            """the expression whose len() e denotes, or None"""
            if isinstance(e, ast.Call) and isinstance(e.func, ast.Name) and e.func.id == 'len' and len(e.args) == 1: return ast.dump(e.args[0])
            if isinstance(e, ast.Name) and len(assigns.get(e.id, [])) == 1: return length_of(assigns[e.id][0])
        for c in ast.walk(fn):
            if not (isinstance(c, ast.Call) and isinstance(c.func, ast.Name) and c.func.id == 'zip' and len(c.args) == 2): continue
            rep_arg = c.args[1]
            if not (isinstance(rep_arg, ast.BinOp) and isinstance(rep_arg.op, ast.Mult)): continue
            count = rep_arg.right if isinstance(rep_arg.left, ast.Tuple) else rep_arg.left
            n_sites += 1
            ok = length_of(count) == ast.dump(c.args[0]) and (not isinstance(c.args[0], ast.Name) or len(assigns.get(c.args[0].id, [])) <= 1)
            rep.add(f'C18.flatten.zip_pairs_every_member.{fn.name}@{c.lineno}', 'proved' if ok else 'refuted', backend='structural',
                    where=f'{rel}:{c.lineno} zip({ast.unparse(c.args[0])}, (...) * {ast.unparse(count)}): the repeat count ' + ('is' if ok else 'is NOT') + ' the length of the zipped sequence, so ' + ('no' if ok else 'a') + ' member of a nested union is dropped')
    if not n_sites: rep.error('C18: no zip(members, (parent,) * n) site found in the union code generator (extraction key no longer resolves)')

def main(tier, seed):
    rep = report.Report('C18', tier, seed, 'proof', f'./check C18 --tier {tier}')
    try: sanify_tower(rep)
    except Exception: rep.error('C18 sanify_tower: ' + traceback.format_exc()[-2000:])
    try: zip_pairs_every_member(rep)
    except Exception: rep.error('C18 zip_pairs_every_member: ' + traceback.format_exc()[-2000:])
    T = tasks(tier, seed)
    with mp.get_context('fork').Pool(int(os.environ.get('VERIF_PROCS', '16')), maxtasksperchild=30) as pool:
        recs = pool.map(_worker, T, chunksize=2)
    by = {}
    for rec in recs:
        by[rec['rule']] = by.get(rec['rule'], 0) + 1
        tag = f'C18.equiv[{rec["shape"]}|{rec["rule"]}]'
        if rec['error']:
            rep.error(f'{tag}: {rec["error"]}'); continue
        for o in rec['obligations']:
            rp = o.get('replay'); script = None
            if rp and rp.get('reproduced') and rp.get('gen'):
                script = (f'from pyvc import shapes\nfrom beartype import FrozenDict, BeartypeConf\nfrom beartype.door import is_bearable\nshapes.NS["FrozenDict"] = FrozenDict\n'
                          f'try: is_bearable(None, shapes.ev({rp["gen"][0]!r}), conf=shapes.ev({rp["gen"][1]!r})); print("no exception"); sys.exit(0)\n'
                          'except Exception as e: print("REPRODUCED", type(e).__name__, e); sys.exit(1)\n')
            elif rp and rp.get('reproduced'):
                script = (f'from props.c18 import replay_c18\nok, d = replay_c18({rec["shape"]!r}, {rec["conf"]!r}, {rec["rewritten"]!r}, {rp["obj"]!r}, {rp["r"]!r})\n'
                          'print("REPRODUCED" if ok else "not reproduced", d)\nsys.exit(1 if ok else 0)\n')
            rep.add(f'{tag}.{o["name"]}', o['status'], time=o.get('time'), backend=o.get('backend'), where=o.get('where'), replay=rp,
                    solver_output=o.get('solver_output'), replay_script=script, bounded=True)
        if len(rep.samples) < 5: rep.samples.append(dict(shape=rec['shape'], conf=rec['conf'], hand_rewritten=rec['rewritten'], obligations=[f"{o['name']}:{o['status']}" for o in rec['obligations'][:8]]))
    # ---- violation_*_type: "change only the class of the raised or warned signal, never the verdict" - for EACH entry point from ITS OWN option:
    #      the frame obligations of the entry-point agreement proof (C03's worker on the captured tester / raiser / wrapper texts) under
    #      configurations where the parameter, return and door classes differ in being a Warning
    try:
        from props import c03
        from pyvc import shapes as _sh
        vshapes = [h for h in _sh.node_shapes()][:: (6 if tier == 'quick' else 2)][:12 if tier == 'quick' else 60]
        vconfs = ['BeartypeConf(violation_param_type=MyW)', 'BeartypeConf(violation_return_type=MyW)', 'BeartypeConf(violation_door_type=MyW)', 'BeartypeConf(violation_param_type=MyW, violation_door_type=MyW)',
                  'BeartypeConf(violation_type=MyW, violation_return_type=ValueError)']
        class MyW(UserWarning): pass
        _sh.NS['MyW'] = MyW
        VT = [(h, c) for h in vshapes for c in vconfs]
        with mp.get_context('fork').Pool(int(os.environ.get('VERIF_PROCS', '16')), maxtasksperchild=20) as pool:
            vrecs = pool.map(c03._agree_worker, VT, chunksize=2)
        nv = 0
        for rec in vrecs:
            tag = f'C18.violation_type[{rec["shape"]}|{rec["conf"]}]'
            if rec['error']: rep.error(f'{tag}: {rec["error"]}'); continue
            if rec.get('ignorable'): continue
            for o in rec['obligations']:
                nv += 1; rp = o.get('replay'); script = None
                if rp and rp.get('reproduced'):
                    script = f'from props.c03 import entrypoints_agree\nok, d = entrypoints_agree({rec["shape"]!r}, {rec["conf"]!r}, {rp["obj"]!r}, {rp["r"]!r})\nprint("REPRODUCED" if ok else "not reproduced", d)\nsys.exit(1 if ok else 0)\n'
                rep.add(f'{tag}.{o["name"]}', o['status'], time=o.get('time'), backend=o.get('backend'), where=o.get('where'), replay=rp, solver_output=o.get('solver_output'), replay_script=script, bounded=True)
        if not nv: rep.error('C18 violation_type: no obligation')
    except Exception: rep.error('C18 violation_type: ' + traceback.format_exc()[-2000:])
    files = ['beartype/_check/convert/_reduce/redmain.py', 'beartype/_check/convert/_reduce/_redrecurse.py', 'beartype/_conf/_confoverrides.py', 'beartype/_conf/conftest.py',
             'beartype/_check/code/codemain.py', 'beartype/_check/checkmake.py']
    rep.functions = ['beartype/_conf/_confoverrides.py:sanify_conf_kwargs_is_pep484_tower (mode F, PEP 584 dict-union law)'] + [f'{p}@{report.src_hash(p)} (exercised through the real generator; generated text under contract)' for p in files]
    from pyvc import model as M
    rep.trusted = ['pyvc', 'z3 5.1 / cvc5'] + M.ASSUMED_SEMANTICS
    rep.assumptions = ['the hand rewrite is a single simultaneous textual substitution of the overridden tokens in the shape source',
                       'equivalence is proved per enumerated shape (bounded in shape, depth <= 3); beyond it by the reducer being applied at every sanified child',
                       'explanation path (violation message) equivalence is not covered here']
    rep.bounded = [dict(kind='per-shape program equivalence proofs (each for all objects and draws)', pairs=len(T), by_rule=by, depth='<=3')]
    rep.extra['explanation'] = 'program equivalence of two captured real checkers per (shape, rewriting configuration)'
    return rep.finish()
