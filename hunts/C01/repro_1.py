# PEP 585 generic whose declared type-parameter order (PEP 695 syntax or an
# explicit Generic[...] base) differs from the order in which the parameters
# first appear in its PEP 585 base: the parameters are bound in the wrong order.
import sys
from typing import Generic, TypeVar
from beartype import beartype
from beartype.door import is_bearable, die_if_unbearable

class Inverse[K, V](dict[V, K]):      # Inverse[K, V] is a dict mapping V -> K
    pass
class Tagged[Tag, Item](list[Item]):  # first parameter unused by the base
    pass
T1 = TypeVar('T1'); S = TypeVar('S')
class Old(dict[S, T1], Generic[T1, S]):  # pre-PEP 695 spelling of Inverse
    pass

assert Inverse.__parameters__[0].__name__ == 'K'   # Python itself agrees: (K, V)
bad = 0
for name, obj, hint in [
    ('Inverse[str, int] <- {1: "a"}', Inverse({1: 'a'}), Inverse[str, int]),  # dict[int, str]
    ('Tagged[str, int]  <- [1]',      Tagged([1]),       Tagged[str, int]),   # list[int]
    ('Old[str, int]     <- {1: "a"}', Old({1: 'a'}),     Old[str, int]),      # dict[int, str]
]:
    ok = is_bearable(obj, hint)
    print(name, '->', ok)
    bad += not ok
try:
    die_if_unbearable(Inverse({1: 'a'}), Inverse[str, int])
except Exception as e:
    print(type(e).__name__, e)

@beartype
def f(x: Tagged[str, int]) -> Tagged[str, int]:
    return x
try:
    f(Tagged([1]))
except Exception as e:
    bad += 1
    print(type(e).__name__, e)
sys.exit(1 if bad else 0)
