"""Shape namespace and enumerators (DESIGN 2.7(1), 3).  A *shape* is a source string evaluated in NS - so that replay
scripts can rebuild exactly the same hint (and configuration) in a fresh interpreter."""
from . import use_repo
use_repo()
import typing as t, collections, collections.abc as cabc, itertools, random
from typing import (Any, Union, Optional, Literal, Annotated, TypeVar, NewType, Generic, Protocol, runtime_checkable)
from beartype import BeartypeConf, BeartypeStrategy
from beartype.vale import Is, IsAttr, IsEqual, IsInstance, IsSubclass
from .spec import VDESC

class L0: pass
class L1: pass
class L2(L0): pass          # subclass of L0
class LA:                   # class with attributes for IsAttr
    x = 1
    def __init__(self, x=1): self.x = x
def pos(v): return isinstance(v, int) and v > 0
def nonempty(v): return bool(v)
def even(v): return isinstance(v, int) and v % 2 == 0
def firstpos(v): return isinstance(v[0], int) and v[0] > 0          # raises IndexError on an empty sequence: only safe behind a non-emptiness validator
NAN = float('nan')         # an object that is not equal to itself (IsEqual[NAN] means `== NAN`, which NAN itself does not satisfy)
class NeverEq:
    __hash__ = object.__hash__
    def __eq__(self, other): return False
NEQ = NeverEq()

T = TypeVar('T'); TB = TypeVar('TB', bound=L0); TC = TypeVar('TC', L0, L1); NT = NewType('NT', L0)
@runtime_checkable
class Proto(Protocol):
    def meth(self) -> int: ...
class HasMeth:
    def meth(self) -> int: return 1
class G(Generic[T]): pass
class GL(list[T]): pass
S = TypeVar('S')
class GD(dict[T, S]): pass
class GS(set[T]): pass
class GLI(GL[int]): pass                 # two-level hierarchies: the intermediate level binds ...
class GL2(GL[S]): pass                  # ... or forwards the type variable
class GLI3(GL2[int]): pass              # three levels
class GDI(GD[str, T]): pass             # partially bound
class GI(dict[S, T], Generic[T, S]): pass      # declared parameter order (T, S) differs from the order in its base: GI[A, B] is a dict[B, A]

def _reg(v, d): VDESC[id(v)] = (d, v); return v
def _d(v): return VDESC[id(v)][0]
def IS(f): return _reg(Is[f], ('is', f))
def ISEQ(o): return _reg(IsEqual[o], ('eq', o))
def ISINST(*c): return _reg(IsInstance[c if len(c) > 1 else c[0]], ('inst', c))
def ISSUB(*c): return _reg(IsSubclass[c if len(c) > 1 else c[0]], ('sub', c))
def ISATTR(n, v): return _reg(IsAttr[n, v], ('attr', n, _d(v)))
def AND(a, b): return _reg(a & b, ('and', _d(a), _d(b)))
def OR(a, b): return _reg(a | b, ('or', _d(a), _d(b)))
def NOT(a): return _reg(~a, ('not', _d(a)))

Sequence, MutableSequence, Collection, Iterable, Container, Reversible = cabc.Sequence, cabc.MutableSequence, cabc.Collection, cabc.Iterable, cabc.Container, cabc.Reversible
Set, MutableSet, KeysView, ValuesView, ItemsView = cabc.Set, cabc.MutableSet, cabc.KeysView, cabc.ValuesView, cabc.ItemsView
Mapping, MutableMapping, Iterator, Generator, Callable, Sized, Hashable = cabc.Mapping, cabc.MutableMapping, cabc.Iterator, cabc.Generator, cabc.Callable, cabc.Sized, cabc.Hashable
deque, defaultdict, OrderedDict, Counter, ChainMap = collections.deque, collections.defaultdict, collections.OrderedDict, collections.Counter, collections.ChainMap
NoneType = type(None)
NS = dict(globals())

def ev(src): return eval(src, NS)

CONFS = {
    'default': 'BeartypeConf()',
    'nonrandom': 'BeartypeConf(is_random=False)',
    'tower': 'BeartypeConf(is_pep484_tower=True)',
    'On': 'BeartypeConf(strategy=BeartypeStrategy.On)',
    'nonrandom_tower': 'BeartypeConf(is_random=False, is_pep484_tower=True)',
}

# ---------------------------------------------------------------- enumeration
LEAVES_CORE = ['L0', 'L1', 'int', 'str']
LEAVES_EXT = ['L0', 'L1', 'L2', 'int', 'str', 'float', 'bool', 'None', 'object', 'Any', "Literal[1, 'a']", 'type[L0]', 'TB', 'TC', 'NT', 'T',
              'Annotated[int, IS(pos)]', 'Annotated[L0, ISINST(L2)]', 'Proto', 'G[int]', 'Iterator[int]', 'Callable[[int], str]']
UNARY = ['list[{0}]', 'tuple[{0}, ...]', 'Sequence[{0}]', 'MutableSequence[{0}]', 'set[{0}]', 'frozenset[{0}]', 'deque[{0}]',
         'Collection[{0}]', 'Set[{0}]', 'MutableSet[{0}]', 'KeysView[{0}]', 'ValuesView[{0}]', 'Iterable[{0}]', 'Container[{0}]',
         'Reversible[{0}]', 'Optional[{0}]', 'tuple[{0}]', 'Counter[{0}]', 'Iterator[{0}]', 'Generator[{0}, None, None]',
         'Annotated[{0}, IS(pos)]', 'Annotated[{0}, ISEQ(5), IS(pos)]', "Annotated[{0}, ISATTR('x', ISEQ(1))]", 'GL[{0}]']
BINARY = ['dict[{0}, {1}]', 'Mapping[{0}, {1}]', 'MutableMapping[{0}, {1}]', 'defaultdict[{0}, {1}]', 'OrderedDict[{0}, {1}]',
          'ChainMap[{0}, {1}]', 'ItemsView[{0}, {1}]', 'Union[{0}, {1}]', 'tuple[{0}, {1}]', 'GD[{0}, {1}]']
NULLARY = ['tuple[()]', "Literal[1, 'a', None]", 'Literal[True]', 'type[Any]', 'type[Union[L0, L1]]', 'Optional[L0]', 'Union[L0, L1, None]',
           'tuple[L0, L1, int]', 'Annotated[object, IS(pos)]', 'Annotated[L0, AND(ISINST(L2), NOT(ISEQ(5)))]',
           "Annotated[object, OR(ISATTR('x', ISEQ(1)), ISSUB(L0))]", 'Annotated[Any, ISSUB(L0, L1)]']

def valid(src):
    try: ev(src); return True
    except Exception: return False

def node_shapes():
    """every node family x child kinds: opaque leaf class (abstract predicate), universal child, builtin"""
    out = list(NULLARY) + list(LEAVES_EXT)
    for f in UNARY:
        for c in ('L0', 'object', 'Any', 'int'):
            out.append(f.format(c))
    for f in BINARY:
        for a, b in (('L0', 'L1'), ('object', 'L1'), ('L0', 'Any'), ('object', 'object'), ('str', 'int')):
            out.append(f.format(a, b))
    seen = set(); res = []
    for s in out:
        if s not in seen and valid(s): seen.add(s); res.append(s)
    return res

def depth_shapes(depth, leaves=LEAVES_CORE, unary=UNARY, binary=BINARY):
    if depth == 0: return list(leaves)
    sub = depth_shapes(depth - 1, leaves, unary, binary)
    out = []
    for f in unary:
        for c in sub: out.append(f.format(c))
    for f in binary:
        for a, b in itertools.product(sub, repeat=2): out.append(f.format(a, b))
    return out

def gt3(v): return isinstance(v, int) and v > 3
NS['gt3'] = gt3
NULLARY += ['type[L0]', 'type[int]', 'type[Union[L0, int]]', 'type[TB]', 'tuple[Annotated[object, ISEQ(5), IS(gt3)]]',
            "list[Annotated[object, ISATTR('x', ISEQ(1))]]", 'Annotated[int, ISEQ(5), IS(gt3)]']
LEAVES_EXT += ['type[L1]', 'Annotated[object, ISEQ(5), IS(gt3)]']
# negated / nested validator algebra inside hints; validators over an ignorable metahint as the FIRST member of an all-PEP union nested in a
# container (the position where the generator hands the validator an assignment expression instead of a name)
NS.setdefault('even', even)
# an alias naming a union WIDER than the unions it is used in (nested unions are flattened member by member)
exec("type AU = L0 | L1 | int | bytes", NS)
NULLARY += ['AU', 'Optional[AU]', 'Union[AU, str]', 'list[Optional[AU]]', 'dict[str, Union[AU, None]]']
NULLARY += ['Annotated[int, NOT(AND(IS(pos), IS(even)))]', 'Annotated[object, NOT(AND(ISINST(L0), ISEQ(5)))]', 'list[Annotated[int, NOT(OR(IS(pos), ISEQ(5)))]]',
            'Annotated[int, OR(NOT(AND(IS(pos), IS(gt3))), ISEQ(7))]', 'list[Union[Annotated[object, AND(ISINST(L0), ISEQ(5))], tuple[int, ...]]]',
            'list[Union[Annotated[object, ISEQ(5), IS(gt3)], list[str]]]', 'tuple[Union[Annotated[Any, OR(IS(pos), ISEQ(5))], list[str]], ...]',
            "dict[str, Union[Annotated[object, ISATTR('x', ISEQ(1))], list[int]]]", 'list[Union[list[str], Annotated[object, AND(IS(pos), IS(gt3))]]]']
NULLARY += ['GLI', 'GL2[int]', 'GLI3', 'GDI[L0]', 'list[GLI]', 'GL2[L0]']
NULLARY += ['GI[L0, int]', 'GI[str, L1]', 'list[GI[int, str]]']
NULLARY += ['GD[L0, T]', 'GD[L0, GS[L1]]', 'GD[GL[L1], GS[int]]', 'GL[GL[L0]]', 'GD[str, GD[int, L0]]', 'list[GD[L0, GL[L1]]]']
UNARY += ['GS[{0}]']
# further families: PEP 695 aliases, typing's deprecated aliases, enum literals, Never as an item hint, str as a sequence of str
import enum as _enum, typing as _t
class Color(_enum.Enum): R = 1; G = 2
CR = Color.R
NS.update(Color=Color, CR=CR, List=_t.List, Dict=_t.Dict, Tuple=_t.Tuple, Type=_t.Type, AnyStr=_t.AnyStr, LiteralString=_t.LiteralString, Final=_t.Final, Never=_t.Never,
          Hashable=cabc.Hashable, SupportsInt=_t.SupportsInt, Pattern=_t.Pattern)
exec("type AL = list[L0]\ntype AG[X] = dict[str, X]\ntype AN = tuple[AL, int]", NS)
NULLARY += ['AL', 'list[AL]', 'AG[L0]', 'AN', 'dict[str, AG[L1]]', 'LiteralString', 'List[L0]', 'Dict[str, L0]', 'Tuple[L0, int]', 'Type[L0]', 'AnyStr', 'Literal[CR, 1]', 'Literal[CR]',
            'Sequence[str]', 'Collection[str]', 'Optional[list[L0]]', 'tuple[L0, ...] | list[L1]', 'Hashable', 'SupportsInt', 'Pattern[str]',
            'list[L0] | None', 'Mapping[str, Optional[Sequence[L0]]]', 'tuple[L0, ...] | None']
# validators after / around metadata that is not a beartype validator (PEP 593 allows arbitrary metadata; typing flattens nested Annotated)
NULLARY += ["Annotated[int, 'doc', IS(pos)]", "Annotated[Annotated[int, 'unit'], IS(pos)]", "list[Annotated[L0, 'doc', ISINST(L2)]]"]
# PEP 646 fixed-length unpacking inside tuple hints (first / middle / last / nested): still fixed-length tuples
NS['Unpack'] = __import__('typing').Unpack
NULLARY += ['tuple[*tuple[L0, L1], int]', 'tuple[int, *tuple[L0, L1]]', 'tuple[L0, *tuple[L1], int]', 'tuple[Unpack[tuple[L0, L1]], int]', 'tuple[*tuple[L0, *tuple[L1, int]], str]',
            'list[tuple[*tuple[L0, L1], int]]']
# unions whose members are all container hints (no plain class), at the root and nested inside each kind of container: the walrus that
# localises the sampled item is shared by all alternatives
NULLARY += ['Union[list[L0], tuple[L1, ...]]', 'list[Union[list[L0], tuple[L1, ...]]]', 'list[Union[list[L0], Sequence[L1], frozenset[int]]]',
            'dict[str, Union[list[L0], frozenset[L1]]]', 'tuple[Union[list[L0], Sequence[L1]], int]', 'set[Union[tuple[L0, ...], frozenset[L1]]]',
            'Mapping[Union[tuple[L0, ...], frozenset[L1]], Union[list[L0], dict[str, L1]]]']
def sample_shapes(depth, n, seed, leaves=LEAVES_EXT):
    """seeded random shapes of exactly the given depth"""
    rnd = random.Random(seed)
    def gen(d):
        if d == 0: return rnd.choice(leaves)
        if rnd.random() < 0.6:
            return rnd.choice(UNARY).format(gen(d - 1))
        a, b = gen(d - 1), gen(rnd.randrange(d))
        if rnd.random() < 0.5: a, b = b, a
        return rnd.choice(BINARY).format(a, b)
    out = []; seen = set(); tries = 0
    while len(out) < n and tries < 50 * n:
        tries += 1; s = gen(depth)
        if s not in seen and valid(s): seen.add(s); out.append(s)
    return out

class EmptySized:
    """a user object that is weakly referenceable and falsy (len 0)"""
    def __len__(self): return 0
NS['EmptySized'] = EmptySized
import collections as _c2
NS.setdefault('OrderedDict', _c2.OrderedDict); NS.setdefault('Counter', _c2.Counter)
