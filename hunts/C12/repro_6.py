# Finding 6: IsAttr embeds repr(attr_name) into the generated code. Attribute
# names that are legal "str" instances whose repr() is not a plain string
# literal (e.g. enum.StrEnum members, the idiomatic way of naming fields) yield
# a validator whose is_valid() works but whose generated code is unparseable
# (or, for a str subclass with a custom repr, tests a *different* attribute).
import sys, enum
import beartype
assert beartype.__file__.startswith('/tmp/wt/hunt_C12'), beartype.__file__
from typing import Annotated
from beartype import beartype as bt
from beartype.door import is_bearable
from beartype.vale import IsAttr, IsEqual

class Field(enum.StrEnum):
    X = 'x'

class Point:
    x = 1

V = IsAttr[Field.X, IsEqual[1]]
print('isinstance(Field.X, str) =', isinstance(Field.X, str), '| getattr(Point(), Field.X) =', getattr(Point(), Field.X))
print('is_valid(Point()) =', V.is_valid(Point()), '| is_valid(3) =', V.is_valid(3))
bad = 0
try:
    print('is_bearable(Point()) =', is_bearable(Point(), Annotated[object, V]))
except Exception as e:
    bad = 1
    print('is_bearable: BUG ->', type(e).__name__, '|', ' '.join(str(e).split())[:160])
try:
    @bt
    def f(p: Annotated[Point, V]): return p
    f(Point())
except Exception as e:
    bad = 1
    print('@beartype: BUG ->', type(e).__name__, '|', ' '.join(str(e).split())[:160])

# Verdict disagreement (no exception at all) with a str subclass whose repr differs:
class Name(str):
    def __repr__(self): return "'real'"
V2 = IsAttr[Name('imag'), IsEqual[0]]          # means: obj.imag == 0
a, b = V2.is_valid(5), is_bearable(5, Annotated[object, V2])
print('(5).imag == 0 ->', (5).imag == 0, '| is_valid(5) =', a, '| is_bearable(5) =', b)
if a != b: bad = 1
sys.exit(bad)
