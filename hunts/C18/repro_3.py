# hint_overrides are re-applied to the *products* of beartype's own internal
# reductions and to hints beartype synthesises itself, i.e. to hints that do
# not occur anywhere in what the user wrote. Rewriting the hints by hand would
# change nothing in any of the cases below, yet the verdict changes.
import sys, collections
from typing import LiteralString, Self, TypeGuard
from beartype import beartype, BeartypeConf, FrozenDict
from beartype.door import is_bearable
from beartype.roar import BeartypeCallHintViolation

def OV(d): return BeartypeConf(hint_overrides=FrozenDict(d))
bad = 0
def check(label, under_conf, by_hand):
    global bad
    flag = '' if under_conf == by_hand else '   <-- differs'
    bad += under_conf != by_hand
    print(f'{label:62} conf={under_conf!s:6} default/hand={by_hand!s:6}{flag}')

# 1. Counter[str] contains no "int", but its implicit value hint is overridden.
c = collections.Counter({'a': 1})
check('Counter({"a":1}) vs Counter[str]   {int: str}',
      is_bearable(c, collections.Counter[str], conf=OV({int: str})),
      is_bearable(c, collections.Counter[str]))
c2 = collections.Counter({'a': 1.5})
check('Counter({"a":1.5}) vs Counter[str] {int: int|float}',
      is_bearable(c2, collections.Counter[str], conf=OV({int: int | float})),
      is_bearable(c2, collections.Counter[str]))

# 2. LiteralString is not "str", but reduces to it and is then overridden.
check('"abc" vs LiteralString             {str: bytes}',
      is_bearable('abc', LiteralString, conf=OV({str: bytes})),
      is_bearable('abc', LiteralString))

# 3. TypeGuard[int] return is not "bool", but reduces to it.
def tg(conf):
    @beartype(conf=conf)
    def is_int(x) -> TypeGuard[int]: return isinstance(x, int)
    try: is_int(1); return True
    except BeartypeCallHintViolation: return False
check('-> TypeGuard[int] returning True   {bool: str}', tg(OV({bool: str})), tg(BeartypeConf()))

# 4. Self is not "Cls", but reduces to it.
class B: pass
class Cls2:
    def me(self) -> Self: return self
Cls2d = beartype(conf=OV({Cls2: B}))(Cls2)
def call(f):
    try: f(); return True
    except BeartypeCallHintViolation: return False
class Cls3:
    def me(self) -> Self: return self
Cls3d = beartype(Cls3)
check('def me(self) -> Self: return self  {Cls: B}', call(Cls2d().me), call(Cls3d().me))

sys.exit(1 if bad else 0)
