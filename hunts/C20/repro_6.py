# collections.UserString (a user-defined Sequence): unbounded recursion.
import collections, warnings
from beartype.door import infer_hint, is_bearable

obj = collections.UserString('ab')
try:
    with warnings.catch_warnings(record=True) as w:
        warnings.simplefilter('always')
        hint = infer_hint(obj)
    print('hint', hint, is_bearable(obj, hint))
    raise SystemExit(0 if is_bearable(obj, hint) else 1)
except RecursionError as e:
    print(f'infer_hint(UserString("ab")) raised RecursionError: {e}; recursion warnings emitted: {len(w)}')
    raise SystemExit(1)
