"""C13 - decorating a class equals decorating its methods; no-op cases are identities.
 (F) beartype_func: returns the very callable it was given for the O0 strategy / unbeartypeable callables / empty generated
     code; otherwise the object built by make_func with the original as `func_wrapped` (so __wrapped__, name, docstring and
     signature are those of functools.update_wrapper), marked as beartyped.
 (F) beartype_type: every return returns the class itself; an already decorated class returns before touching anything;
     the member loop hands beartype_object exactly the beartypeable attributes DEFINED in the class body (for class-valued
     attributes: classes nested in it), rebinding an attribute iff the result is another object.
 bounded: class decoration vs member-wise decoration over a small class grammar (run-time contract)."""
import ast, os, sys, traceback, itertools, z3
from pyvc import report

def func_part(rep):
    from pyvc import funcmode, model as M, discharge, symx
    from pyvc.symx import Exec, St, VObj, VPy, VBool
    import beartype._decor._nontype.decornontype as mod
    from beartype import BeartypeStrategy, BeartypeConf
    fobj, node, _ = funcmode.load('beartype/_decor/_nontype/decornontype.py', 'beartype_func')
    uni = M.Universe()
    import collections.abc as cabc
    for c in (cabc.Callable, BeartypeConf): uni.const(c)
    FUNC = z3.Const('func', M.Obj); CONF = z3.Const('conf', M.Obj)
    unb = z3.Function('unbeartypeable', M.Obj, z3.BoolSort())    # unannotated / @no_type_check / already a beartype wrapper / python -O (contract of is_func_unbeartypeable)
    code_empty = z3.Bool('generated_code_empty')
    def m_ntc(ex, s, f, a, kw, w): return [(s.ev('no_type_check', ex.obj(a[0])), a[0])]
    def m_unb(ex, s, f, a, kw, w):
        t = ex.obj(a[0]); marked = z3.Or(*[t == e[1] for e in s.events if e[0] == 'no_type_check']) if any(e[0] == 'no_type_check' for e in s.events) else z3.BoolVal(False)
        return [(s, VBool(z3.Or(unb(t), marked)))]
    DECOR = z3.Const('decor_func', M.Obj); CHECKED = z3.Const('func_checked', M.Obj)
    def m_mkdecor(ex, s, f, a, kw, w): return [(s.ev('make_decor_func', dict(kw)), VObj(DECOR))]
    def m_gen(ex, s, f, a, kw, w):
        outs = []
        for s2, e in ex.fork(s, code_empty): outs.append((s2, VPy('') if e else VObj(M.fresh('code'))))
        return outs
    def m_make_func(ex, s, f, a, kw, w): return [(s.ev('make_func', dict(kw)), VObj(CHECKED))]
    def ev(name): return lambda ex, s, f, a, kw, w: [(s.ev(name, tuple(ex.obj(x) for x in a)), VObj(M.fresh(name)))]
    cm = {mod.no_type_check: m_ntc, mod.is_func_unbeartypeable: m_unb, mod.make_decor_func: m_mkdecor, mod.generate_code: m_gen, mod.make_func: m_make_func,
          mod.set_func_beartyped: ev('set_func_beartyped'), mod.cull_decor_func: ev('cull'), mod.get_func_globals: ev('globals'), '.set_func_annotations_if_dirty': ev('dirty'), '.get': ev('get'), '.copy': ev('copy')}
    ex = Exec(uni, dict(mod.__dict__), call_model=cm, name='beartype_func'); ex.fields_mode = True; ex.method_names = {'set_func_annotations_if_dirty', 'get', 'copy'}
    pre = (M.inst(FUNC, uni.const(cabc.Callable)), M.inst(CONF, uni.const(BeartypeConf)))
    outs = ex.run_function(node, St((), pre), (VObj(FUNC), VObj(CONF)), {}, fobj)
    pr = discharge.Prover(uni.axioms())
    for ob in ex.obls:
        r = pr.prove(list(ob.pc), ob.goal); rep.add(f'C13.beartype_func.{ob.kind}#{ob.name.rsplit(".", 1)[-1]}', r.status, time=r.time, backend=r.backend, where=ob.where)
    STRAT = z3.Select(z3.Const('H_strategy', z3.ArraySort(M.Obj, M.Obj)), CONF); O0 = uni.const(BeartypeStrategy.O0)
    for i, (s, v) in enumerate(outs):
        pc = list(s.pc); res = ex.obj(v)
        r = pr.prove(pc + [STRAT == O0], res == FUNC); rep.add(f'C13.beartype_func.post.identity_O0.path{i}', r.status, time=r.time, backend=r.backend, where='the O0 strategy returns the callable itself')
        r = pr.prove(pc + [unb(FUNC)], res == FUNC); rep.add(f'C13.beartype_func.post.identity_unbeartypeable.path{i}', r.status, time=r.time, backend=r.backend, where='unannotated / @no_type_check / already-wrapped callables (and python -O) are returned unchanged')
        r = pr.prove(pc + [code_empty], res == FUNC); rep.add(f'C13.beartype_func.post.identity_no_code.path{i}', r.status, time=r.time, backend=r.backend, where='nothing to check => returned unchanged')
        mf = [e for e in s.events if e[0] == 'make_func']
        r = pr.prove(pc + [res != FUNC], z3.BoolVal(len(mf) == 1 and isinstance(v, VObj) and v.t.eq(CHECKED)))
        rep.add(f'C13.beartype_func.post.new_wrapper_from_make_func.path{i}', r.status, time=r.time, backend=r.backend, where='otherwise the result is the function built by make_func')
        if mf:
            kw = mf[0][1]
            wrapped_ok = 'func_wrapped' in kw and ex.obj(kw['func_wrapped']).eq(z3.Select(ex.field(s, 'func_wrapper'), DECOR))
            mk = [e for e in s.events if e[0] == 'make_decor_func']
            src_ok = len(mk) == 1 and ex.obj(mk[0][1]['func_wrappee']).eq(FUNC) and ex.obj(mk[0][1]['func_wrapper']).eq(FUNC)
            marked = any(e[0] == 'set_func_beartyped' and e[1][0].eq(CHECKED) for e in s.events)
            rep.add(f'C13.beartype_func.post.wraps_original_and_marked.path{i}', 'proved' if (wrapped_ok and src_ok and marked) else 'refuted', backend='structural',
                    where='make_func(func_wrapped=<the wrapper recorded for the original callable>) - so __wrapped__/name/doc/signature follow functools.update_wrapper - and the result is marked as beartyped (idempotence)')

def type_part(rep, prefix='C13', only=None):
    """`only`: restrict the reported obligations to those whose kind contains this text (C05 reuses the member-loop obligation on failure isolation)"""
    from pyvc import funcmode, model as M, discharge, symx
    from pyvc.symx import Exec, St, VObj, VPy, VBool, VTup
    import beartype._decor._type.decortype as mod
    from beartype import BeartypeConf
    fobj, node, _ = funcmode.load('beartype/_decor/_type/decortype.py', 'beartype_type')
    uni = M.Universe()
    import collections.abc as cabc
    for c in (cabc.Mapping, cabc.Sized, cabc.Collection, tuple, type, BeartypeConf): uni.const(c)
    for c in mod.TYPES_BEARTYPEABLE: uni.const(c)
    CLS = z3.Const('cls', M.Obj); CONF = z3.Const('conf', M.Obj)
    already = z3.Bool('already_beartyped')
    nested = z3.Function('defined_in_body_of', M.Obj, M.Obj, z3.BoolSort())      # class v is nested in (defined in the body of) class c
    sw = z3.Function('startswith', M.Obj, M.Obj, z3.BoolSort())
    def F(n): return z3.Const(f'H_{n}', z3.ArraySort(M.Obj, M.Obj))
    def m_cached(ex, s, f, a, kw, w): return [(s2, VPy(True) if b else VPy(None)) for s2, b in ex.fork(s, already)]
    def ev(name): return lambda ex, s, f, a, kw, w: [(s.ev(name, tuple(a), dict(kw) if isinstance(kw, dict) else kw), VObj(M.fresh(name)))]
    BO = z3.Function('beartyped_of', M.Obj, M.Obj)
    def m_bo(ex, s, f, a, kw, w):
        # obligations at the call site (the member loop is summarised: per-iteration events exist only here)
        kw = dict(kw)
        if 'obj' not in kw and a: kw['obj'] = a[0]
        o = ex.obj(kw['obj']); DICT = z3.Select(F('__dict__'), CLS); kk = z3.Const('kk', M.Obj)
        ex.obl(s, 'loop.post.own_beartypeable_member', z3.And(z3.Or(*[M.inst(o, uni.const(c)) for c in mod.TYPES_BEARTYPEABLE]), z3.Exists([kk], z3.And(M.mem(DICT, kk), o == M.mget(DICT, kk)))),
               'only values of cls.__dict__ (members the class itself defines - not inherited ones) of a beartypeable kind are decorated')
        ex.obl(s.assume(M.inst(o, uni.const(type))), 'loop.post.nested_only', nested(o, CLS), 'a class-valued attribute is decorated only if that class is nested in (defined in the body of) the decorated class')
        stack = kw.get('cls_stack')
        okstack = isinstance(stack, VTup) and len(stack.items) == 1 and isinstance(stack.items[0], VObj) and stack.items[0].t.eq(CLS)
        ex.obl(s, 'loop.post.class_stack_ends_with_cls', z3.BoolVal(okstack), 'members are decorated with the class stack (..., cls): the decorated class LAST (what Self / class-scope references resolve against)')
        okconf = isinstance(kw.get('conf'), VObj) and kw['conf'].t.eq(CONF)
        ex.obl(s, 'loop.post.same_conf', z3.BoolVal(okconf), 'members are decorated under the configuration of the class decoration')
        return [(s.ev('beartype_object', o, kw), VObj(BO(o)))]
    def m_direct(ex, s, f, a, kw, w):
        # a member decorated by calling the lower-level decorators DIRECTLY: their failures propagate.  Under a non-fatal configuration
        # (conf.warning_cls_on_decorator_exception is not None: always the case under the import hooks) one undecoratable member must
        # not keep its siblings from being decorated, so such a call is only acceptable under a fatal configuration.
        ex.obl(s, 'loop.post.member_failure_isolated', z3.Select(F('warning_cls_on_decorator_exception'), CONF) == uni.const(None),
               'a member is decorated through the failure-isolating entry point (beartype_object: proved below) unless the configuration is fatal; otherwise the first undecoratable member leaves all later siblings unchecked')
        return m_bo(ex, s, f, a, kw, w)
    def m_set(ex, s, f, a, kw, w):
        newv = ex.obj(a[2]); kk = z3.Const('kk2', M.Obj); DICT = z3.Select(F('__dict__'), CLS)
        ex.obl(s, 'loop.post.rebinds_only_changed', z3.And(ex.obj(a[0]) == CLS, z3.Exists([kk], z3.And(M.mem(DICT, kk), newv == BO(M.mget(DICT, kk)), newv != M.mget(DICT, kk), ex.obj(a[1]) == kk))),
               'an attribute of cls is rebound only to the decoration result of that very attribute, and only when it is another object')
        return [(s.ev('set_type_attr'), VPy(None))]
    def m_sw(ex, s, f, a, kw, w): return [(s, VBool(sw(ex.obj(f.self_), ex.obj(a[0]))))]
    from beartype._decor import decorcore
    cm = {mod.get_type_attr_cached_or_sentinel: m_cached, mod._uncache_beartype_if_type_redefined: ev('uncache'), decorcore.beartype_object: m_bo, mod.set_type_attr: m_set,
          mod.set_type_attr_cached: ev('set_cached'), mod.is_type_pep557_dataclass: lambda ex, s, f, a, kw, w: [(s, VBool(z3.Bool('is_dataclass')))], mod.beartype_pep557_dataclass: ev('dataclass'), '.startswith': m_sw}
    cm[mod.beartype_type] = m_direct
    import beartype._decor._nontype.decornontype as _nt
    cm[_nt.beartype_nontype] = m_direct
    scope = dict(mod.__dict__); scope['beartype_object'] = VPy(decorcore.beartype_object)
    ex = Exec(uni, scope, call_model=cm, name='beartype_type'); ex.fields_mode = True; ex.method_names = {'startswith', 'items'}
    pre = (M.inst(CLS, uni.const(type)), M.inst(CONF, uni.const(BeartypeConf)), M.inst(z3.Select(F('__dict__'), CLS), uni.const(cabc.Mapping)))
    outs = ex.run_function(node, St((), pre), (VObj(CLS), VObj(CONF)), {'cls_stack': VPy(None)}, fobj)
    all_outs = [('return', s, v) for s, v in outs] + [('raise', s, v) for s, v in ex.raised]
    # a nested class's qualified name starts with its outer class's (the converse does NOT hold: `AB` starts with `A`)
    a_, b_ = z3.Consts('a_q b_q', M.Obj)
    # "nested in c" (defined, directly or transitively, in the body of c) is what the qualified names say: qualname(v) starts with qualname(c) + "."
    # (a bare prefix test is weaker: "AB" starts with "A")
    cat = z3.Function('concat', M.Obj, M.Obj, M.Obj); Q = lambda t: z3.Select(F('__qualname__'), t)
    axioms = uni.axioms() + [z3.ForAll([a_, b_], nested(a_, b_) == sw(Q(a_), cat(Q(b_), uni.const('.')))),
                             z3.ForAll([a_, b_], z3.Implies(sw(Q(a_), cat(Q(b_), uni.const('.'))), sw(Q(a_), Q(b_))))]
    pr = discharge.Prover(axioms)
    for ob in ex.obls:
        r = pr.prove(list(ob.pc), ob.goal)
        if only and only not in ob.kind: continue
        extra = replay_prefix() if (r.status == 'refuted' and 'nested_only' in ob.kind) else {}
        rep.add(f'{prefix}.beartype_type.{ob.kind}#{ob.name.rsplit(".", 1)[-1]}', r.status, time=r.time, backend=r.backend, where=ob.where, **extra)
    if only:
        nsites = sum(1 for kind, s_, v_ in all_outs for e in s_.events if e[0] == 'beartype_object')
        rep.add(f'{prefix}.beartype_type.member_call_sites', 'proved' if (nsites or any('loop.post' in ob.kind for ob in ex.obls)) else 'refuted', backend='structural',
                where='the member loop decorates members through call sites the contract saw (zero would make the isolation clause vacuous)')
        all_outs = []
    for i, (kind, s, v) in enumerate(all_outs):
        pc = list(s.pc)
        if kind == 'return':
            rep.add(f'C13.beartype_type.post.returns_same_class.path{i}', 'proved' if (isinstance(v, VObj) and v.t.eq(CLS)) else 'refuted', backend='structural', where='decorating a class returns that class object')
            touched = [e for e in s.events if e[0] in ('beartype_object', 'set_type_attr', 'uncache', 'set_cached', 'dataclass')] + [e for e in s.effects if e[0].startswith('iterate')]
            r = pr.prove(pc + [already], z3.BoolVal(not touched)); rep.add(f'C13.beartype_type.post.idempotent.path{i}', r.status, time=r.time, backend=r.backend, where='an already decorated class is returned before anything is touched')

_RP = {}
def replay_prefix():
    if 'r' in _RP: return _RP['r']
    import subprocess
    from pyvc import REPO
    src = f'''
import sys; sys.path.insert(0, {REPO!r})
from beartype import beartype
from beartype.roar import BeartypeCallHintViolation
class AB:
    def f(self, x: int): return x
@beartype
class A:
    ref = AB            # a class-valued attribute that is NOT nested in A; its name merely starts with "A"
try: AB().f("bad"); print("AB left alone"); sys.exit(0)
except BeartypeCallHintViolation: print("AB was decorated in place by decorating A"); sys.exit(1)
'''
    p = subprocess.run([sys.executable, '-c', src], capture_output=True, text=True, timeout=60)
    _RP['r'] = dict(replay=dict(kind='C13', reproduced=p.returncode == 1, tried=[dict(out=(p.stdout + p.stderr)[-200:])], detail=p.stdout.strip()), replay_script=src if p.returncode == 1 else None)
    return _RP['r']

_CNT = [0]
def bounded(rep, tier):
    """class decoration vs member-wise decoration, descriptor kinds, __wrapped__, idempotence and the documented identities on real classes"""
    from pyvc import use_repo
    use_repo()
    from beartype import beartype, BeartypeConf, BeartypeStrategy
    from beartype.roar import BeartypeCallHintViolation
    import typing, inspect
    MEMBERS = {
        'plain': 'def m(self, x: int) -> int:\n        """doc m"""\n        return x',
        'cls': '@classmethod\n    def c(cls, x: int) -> int:\n        return x',
        'static': '@staticmethod\n    def s(x: int) -> int:\n        return x',
        'prop': '@property\n    def p(self) -> int:\n        return self._p',
        'selfret': 'def me(self, other: Self) -> Self:\n        return other',
        'unann': 'def u(self, x):\n        return x',
        'ntc': '@no_type_check\n    def n(self, x: int) -> int:\n        return x',
        'strattr': 'K = int\n    def k(self, x: "K") -> "K":\n        return x',
        'ustatic': '@staticmethod\n    def us(x):\n        return x',                     # unannotated descriptors: decoration is the identity
        'uclass': '@classmethod\n    def uc(cls, x):\n        return x',
        'uprop': '@property\n    def up(self):\n        return 1',
        'setonly': 'def _set_w(self, v: int) -> None:\n        self._w = v\n    w = property(None, _set_w)',      # a write-only property (no getter) is legal
        'wrapsdeco': '@passthru\n    def wd(self, x: int) -> int:\n        """orig doc"""\n        return x\n    @staticmethod\n    @passthru\n    def wds(x: int) -> int:\n        return x',   # members that are themselves pass-through wrappers built by another decorator
        'docprop': 'def _get_t(self) -> int:\n        """(internal getter doc)"""\n        return 1\n    def _set_t(self, v: int) -> None:\n        pass\n    t = property(_get_t, _set_t, None, "Public doc of t")\n    wo = property(None, _set_t, doc="Public doc of wo")',   # explicit docstrings
    }
    def meta(v):
        """what the property says every member keeps: descriptor kind, name, docstring, signature"""
        if isinstance(v, property): return ('property', v.__doc__, tuple(meta(x) if x is not None else None for x in (v.fget, v.fset, v.fdel)))
        if isinstance(v, (classmethod, staticmethod)): return (type(v).__name__, meta(v.__func__))
        if isinstance(v, type(lambda: 0)):
            # parameters by name, kind and default (annotations are compared as present/absent: beartype resolves stringified ones in place)
            try: sig = tuple((q.name, q.kind.name, repr(q.default), q.annotation is not q.empty) for q in inspect.signature(v).parameters.values())
            except Exception as e: sig = type(e).__name__
            return ('function', v.__name__, v.__qualname__, v.__doc__, sig)
        return None
    cases = 0; fails = []
    combos = []
    names = list(MEMBERS)
    for r in (1, 2, 3): combos += list(itertools.combinations(names, r))
    if tier == 'quick': combos = combos[::3]
    import warnings as _w
    DECOS = [('default', beartype), ('nonfatal', beartype(conf=BeartypeConf(warning_cls_on_decorator_exception=UserWarning))), ('O0', beartype(conf=BeartypeConf(strategy=BeartypeStrategy.O0)))]
    _w.simplefilter('ignore', UserWarning)
    for combo, (dname, deco) in itertools.product(combos, DECOS):
        body = '\n    '.join(MEMBERS[k] for k in combo)
        if dname != 'default': combo = combo + ('conf=' + dname,)
        for nested_mode in (False, True):
            src = ('from typing import Self, no_type_check\nimport functools\ndef passthru(fn):\n    @functools.wraps(fn)\n    def inner(*a, **k):\n        return fn(*a, **k)\n'
                   '    inner.__doc__ = "doc edited by the decorator"; inner.tag = 1\n    return inner\n') + (f'class Outer:\n    class C:\n        _p = 1\n        ' + body.replace('\n', '\n    ') + '\n' if nested_mode else f'class C:\n    _p = 1\n    {body}\n')
            def build():
                import types as _t
                _CNT[0] += 1; m = _t.ModuleType(f'c13mod{_CNT[0]}'); sys.modules[m.__name__] = m
                exec(src, m.__dict__); return m.__dict__['Outer'] if nested_mode else m.__dict__['C']
            try:
                A = build(); B = build()
                before_keys = set(vars(A.C if nested_mode else A)); before_members = dict(vars(A.C if nested_mode else A))
                A2 = deco(A)
                for extra in sorted(set(vars(A.C if nested_mode else A)) - before_keys):
                    fails.append((combo, nested_mode, f'extra_member {extra}: decorating the class defined a member the class itself does not define (decorating its members one by one adds none)'))
                if A2 is not A: fails.append((combo, nested_mode, 'decorating the class returned another object'))
                snap = dict(vars(A.C if nested_mode else A))
                # identity for unannotated members (all members under the O0 strategy)
                for nm_, old_ in before_members.items():
                    if nm_.startswith('__') or (dname != 'O0' and nm_ not in ('us', 'uc', 'up', 'u')): continue
                    if snap.get(nm_) is not old_: fails.append((combo, nested_mode, f'identity_{"O0" if dname == "O0" else "unannotated"} {type(old_).__name__}: member {nm_} was replaced by another object although nothing is checked'))
                if deco(A) is not A: fails.append((combo, nested_mode, 'second decoration did not return the same class'))
                # "decorating an already decorated class returns it unchanged": no member is replaced or added by the second decoration
                snap2 = dict(vars(A.C if nested_mode else A))
                changed = sorted(k for k in set(snap) | set(snap2) if snap.get(k) is not snap2.get(k))
                if changed: fails.append((combo, nested_mode, f'idempotence: second decoration replaced members {changed}'))
                # member-wise decoration of B (descriptors via beartype itself, innermost class first for nesting)
                CB = B.C if nested_mode else B; CA = A.C if nested_mode else A
                for nm, val in list(vars(CB).items()):
                    if isinstance(val, (type(lambda: 0), classmethod, staticmethod, property)):
                        # equivalent per-member decoration needs the class for Self / class-scope names: beartype's documented way is decorating the class; here members are decorated through the public decorator on the owning class chain
                        pass
                deco(CB)
                if nested_mode: deco(B)
                for nm in vars(CA):
                    va, vb = vars(CA)[nm], vars(CB)[nm]
                    if type(va) is not type(vb): fails.append((combo, nested_mode, f'{nm}: descriptor kind {type(va).__name__} vs {type(vb).__name__}'))
                ia, ib = CA(), CB()
                probes = [('m', (1,), True), ('m', ('bad',), False), ('c', (1,), True), ('c', ('bad',), False), ('s', (1,), True), ('s', ('bad',), False), ('u', ('any',), True), ('n', ('bad',), True), ('k', (1,), True), ('k', ('bad',), False)]
                for nm, args, should_pass in probes:
                    if not hasattr(ia, nm): continue
                    if dname == 'O0': should_pass = True
                    cases += 1
                    res = []
                    for inst in (ia, ib):
                        try: getattr(inst, nm)(*args); res.append('ok')
                        except BeartypeCallHintViolation: res.append('violation')
                        except Exception as e: res.append(type(e).__name__)
                    if res[0] != res[1]: fails.append((combo, nested_mode, f'{nm}{args}: class-decorated {res[0]} vs inner-class-decorated {res[1]}'))
                    if (res[0] == 'ok') != should_pass: fails.append((combo, nested_mode, f'{nm}{args}: {res[0]}, expected {"ok" if should_pass else "violation"}'))
                if 'setonly' in combo and dname != 'O0':
                    for inst, lab in ((ia, 'outer-decorated'), (ib, 'inner-decorated')):
                        cases += 1
                        try: inst.w = 5
                        except Exception as e: fails.append((combo, nested_mode, f'write-only property w = 5 {lab}: {type(e).__name__}'))
                        try: inst.w = 'bad'; fails.append((combo, nested_mode, f'write-only property w = "bad" {lab}: accepted'))
                        except BeartypeCallHintViolation: pass
                        except Exception as e: fails.append((combo, nested_mode, f'write-only property w = "bad" {lab}: {type(e).__name__}'))
                if hasattr(ia, 'me') and dname != 'O0':
                    cases += 1
                    for inst, lab in ((ia, 'outer-decorated'), (ib, 'inner-decorated')):
                        try: inst.me(type(inst)())
                        except Exception as e: fails.append((combo, nested_mode, f'me(Self) {lab}: {type(e).__name__}'))
                        try: inst.me(object()); fails.append((combo, nested_mode, f'me(object()) {lab}: accepted'))
                        except BeartypeCallHintViolation: pass
                        except Exception as e: fails.append((combo, nested_mode, f'me(object()) {lab}: {type(e).__name__}'))
                # "exposes the original as __wrapped__": the member the class defined, not something further down its own __wrapped__ chain
                def inner_func(v): return v.__func__ if isinstance(v, (classmethod, staticmethod)) else v
                for nm_, old_ in before_members.items():
                    new_ = vars(CA).get(nm_)
                    if new_ is old_ or not isinstance(inner_func(old_), type(lambda: 0)) or isinstance(old_, property): continue
                    cases += 1
                    if getattr(inner_func(new_), '__wrapped__', None) is not inner_func(old_): fails.append((combo, nested_mode, f'wrapped {type(old_).__name__}: member {nm_}: __wrapped__ of the decorated member is not the member the class defined'))
                    for attr in ('tag',):
                        if hasattr(inner_func(old_), attr) and getattr(inner_func(new_), attr, None) != getattr(inner_func(old_), attr): fails.append((combo, nested_mode, f'wrapped {type(old_).__name__}: member {nm_}: function attribute {attr} lost'))
                U = build(); CU = U.C if nested_mode else U
                for nm_, vu in vars(CU).items():
                    mu = meta(vu)
                    if mu is None: continue
                    cases += 1
                    for lab, Cx in (('class-decorated', CA), ('inner-class-decorated', CB)):
                        mx = meta(vars(Cx).get(nm_))
                        if mx != mu: fails.append((combo, nested_mode, f'metadata {type(vu).__name__}: member {nm_} {lab}: kind/name/docstring/signature {mx} differ from the undecorated {mu}'))
                if 'plain' in combo and dname != 'O0':
                    f = vars(CA)['m']
                    if getattr(f, '__wrapped__', None) is None or f.__name__ != 'm' or f.__doc__ != 'doc m' or str(inspect.signature(f)) != '(self, x: int) -> int': fails.append((combo, nested_mode, 'm: __wrapped__/name/doc/signature not preserved'))
                if 'unann' in combo and vars(CA)['u'] is not vars(build().C if nested_mode else build())['u'].__class__ and getattr(vars(CA)['u'], '__wrapped__', None) is not None: fails.append((combo, nested_mode, 'unannotated member was wrapped'))
            except Exception as e:
                fails.append((combo, nested_mode, f'harness: {type(e).__name__}: {e}'[:200]))
    # metadata beartype stores in a function's __dict__ must not make ANOTHER function look decorated / introspected: functools.wraps()
    # copies __dict__ (a method overriding a decorated base method and borrowing its docstring is the common case)
    import functools
    try:
        @beartype
        class WBase:
            def m(self, a: int) -> str:
                """Documented once."""
                return 'base'
        @beartype
        class WChild(WBase):
            @functools.wraps(WBase.m)
            def m(self, a: int) -> str: return 'child'
        cases += 1
        try: WChild().m('not-int'); fails.append(('wraps', None, 'wraps_marker_leak: a method decorated with functools.wraps(<beartype wrapper>) is taken for an existing beartype wrapper and left unchecked'))
        except BeartypeCallHintViolation: pass
        def wbase(a: int) -> int:
            """Doc."""
            return a
        beartype(wbase)
        @beartype
        @functools.wraps(wbase, assigned=('__doc__',))
        def ww(a: int, b: str, *c: int, k: str = 'k', **kw: int): return (a, b, c, k, kw)
        for label, call in (('b', lambda: ww(1, 2)), ('*c', lambda: ww(1, 's', 'x')), ('k', lambda: ww(1, 's', k=1)), ('**kw', lambda: ww(1, 's', z='s'))):
            cases += 1
            try: call(); fails.append(('wraps', None, f'wraps_argslens_leak: parameter {label} of a function that borrowed another function\'s __dict__ through functools.wraps() is unchecked'))
            except BeartypeCallHintViolation: pass
    except Exception as e: fails.append(('wraps', None, f'wraps_harness: {type(e).__name__}: {e}'[:200]))
    # @no_type_check on a BASE class is not inherited by the classes derived from it (typing marks the base's own functions; the class attribute
    # __no_type_check__ it also sets is visible on subclasses, which define their own, unmarked members)
    try:
        import typing as _t
        @_t.no_type_check
        class NtcBase:
            def base_m(self, x: int) -> int: return x
        class NtcSub(NtcBase):
            def m(self, x: int) -> int: return x
            @staticmethod
            def s(x: int) -> int: return x
        beartype(NtcSub)
        for label, call in (('method', lambda: NtcSub().m('bad')), ('staticmethod', lambda: NtcSub.s('bad'))):
            cases += 1
            try: call(); fails.append(('ntc_inherited', None, f'ntc_inherited {label}: a class derived from a @no_type_check class was left undecorated (its own {label} accepts a bad argument)'))
            except BeartypeCallHintViolation: pass
        cases += 1
        try: NtcSub().base_m('anything')
        except BeartypeCallHintViolation: fails.append(('ntc_inherited', None, 'ntc_inherited base: the inherited @no_type_check member was decorated'))
    except Exception as e: fails.append(('ntc_inherited', None, f'ntc_harness: {type(e).__name__}: {e}'[:200]))
    # decoratees that are FALSY (a class whose metaclass defines __len__ and is empty, a callable object with __len__() == 0) are decoratees all the same:
    # beartype(obj) returns the decorated object (the same class), not the configuration closure meant for beartype(conf=...)
    try:
        class _EmptyMeta(type):
            def __len__(cls): return 0
        class FalsyCls(metaclass=_EmptyMeta):
            def m(self, x: int) -> int: return x
        class FalsyCallable:
            def __len__(self): return 0
            def __call__(self, x: int) -> int: return x
        for label, deco in (('beartype(obj)', beartype), ('beartype(conf=...)(obj)', beartype(conf=BeartypeConf(is_debug=False)))):
            cases += 1
            if deco(FalsyCls) is not FalsyCls: fails.append(('falsy', None, f'falsy_decoratee class: {label} of a falsy class did not return that class'))
        cases += 1
        try: FalsyCls().m('bad'); fails.append(('falsy', None, 'falsy_decoratee class: members of a falsy class were left undecorated'))
        except BeartypeCallHintViolation: pass
        fo = FalsyCallable(); go = beartype(fo); cases += 1
        try:
            go('bad'); fails.append(('falsy', None, 'falsy_decoratee callable: a falsy callable object was left undecorated'))
        except BeartypeCallHintViolation: pass
        except TypeError as e: fails.append(('falsy', None, f'falsy_decoratee callable: beartype(obj) did not return a decorated callable ({e})'[:160]))
    except Exception as e: fails.append(('falsy', None, f'falsy_harness: {type(e).__name__}: {e}'[:200]))
    # a class that is merely REFERENCED by a decorated class (here through a staticmethod / classmethod descriptor) is not nested in it
    try:
        class ExtS:
            def f(self, x: int): return x
        class ExtC:
            def f(self, x: int): return x
        @beartype
        class Holder:
            make_s = staticmethod(ExtS)
            make_c = classmethod(ExtC) if False else staticmethod(ExtC)
        for nm, E in (('staticmethod', ExtS),):
            cases += 1
            try: E().f('not an int')
            except BeartypeCallHintViolation: fails.append(('external', None, f'external_class_via_{nm}: decorating a class whose attribute is {nm}(ExternalClass) decorated ExternalClass in place'))
            if '__sizeof__' in vars(E): fails.append(('external', None, f'external_class_via_{nm}: ExternalClass gained members'))
    except Exception as e: fails.append(('external', None, f'external_harness: {type(e).__name__}: {e}'[:200]))
    # identities on plain callables
    def fa(x: int) -> int: return x
    def fu(x): return x
    for label, f, conf in (('unannotated', fu, BeartypeConf()), ('O0', fa, BeartypeConf(strategy=BeartypeStrategy.O0)), ('already wrapped', beartype(fa), BeartypeConf())):
        cases += 1
        if beartype(conf=conf)(f) is not f: fails.append((label, None, 'not an identity'))
    groups = {}
    for c, n, msg in fails: groups.setdefault(msg.split(':')[0][:50].replace(' ', '_'), []).append((c, n, msg))
    for sig, items in sorted(groups.items()):
        c, n, msg = items[0]
        rep.add(f'C13.classes.{sig}', 'refuted', backend='runtime-contract', where=f'{len(items)} cases; members {c} nested={n}: {msg}'[:400], solver_output='bounded run-time contract (not a proof)',
                replay=dict(reproduced=True, detail=f'members {c} nested={n}: {msg}'[:300]), replay_script=f'print({(c, n, msg)!r}); sys.exit(1)\n')
    rep.bounded.append(dict(kind='class decoration vs decoration of the inner class / members over a small class grammar (bounded stand-in, NOT counted as proved)', classes=len(combos) * 2, probes=cases, failing=len(fails)))

def decorcore_part(rep):
    """the dispatchers between @beartype and the class / callable decorators forward EXACTLY what they were given: the object, the
    configuration and every keyword (the class stack of a member) - whichever failure handling the configuration selects.  Function mode on
    decorcore.beartype_object, _beartype_object_fatal and _beartype_object_nonfatal."""
    from pyvc import funcmode, model as M, discharge
    from pyvc.symx import Exec, St, VObj, VPy, VBool
    import beartype._decor.decorcore as mod
    uni = M.Universe()
    for c in (Exception, Warning, type): uni.const(c)
    OBJ = z3.Const('obj', M.Obj); CONF = z3.Const('conf', M.Obj); STACK = z3.Const('cls_stack', M.Obj); EXTRA = z3.Const('extra_kw', M.Obj)
    def forwards(a, kw, with_conf=True):
        kw = dict(kw) if not isinstance(kw, dict) else kw
        okobj = (len(a) >= 1 and isinstance(a[0], VObj) and a[0].t.eq(OBJ)) or (isinstance(kw.get('obj'), VObj) and kw['obj'].t.eq(OBJ))
        okconf = isinstance(kw.get('conf'), VObj) and kw['conf'].t.eq(CONF)
        okkw = all(isinstance(kw.get(k), VObj) and kw[k].t.eq(t_) for k, t_ in (('cls_stack', STACK), ('other_kw', EXTRA)))
        return okobj and okconf and okkw and set(kw) <= {'obj', 'conf', 'cls_stack', 'other_kw'}
    def callee(tag):
        def m(ex, s, f, a, kw, w): return [(s.ev('callee', tag, forwards(a, kw)), VObj(M.fresh(tag)))]
        return m
    def m_any(ex, s, f, a, kw, w): return [(s, VObj(M.fresh('text')))]
    import beartype._decor._type.decortype as _dt, beartype._decor._nontype.decornontype as _nt
    targets = {'beartype_object': {mod._beartype_object_fatal: callee('fatal'), mod._beartype_object_nonfatal: callee('nonfatal')},
               '_beartype_object_fatal': {_dt.beartype_type: callee('type'), _nt.beartype_nontype: callee('nontype')},
               '_beartype_object_nonfatal': {mod._beartype_object_fatal: callee('fatal'), mod.issue_warning: m_any, mod.format_exc: m_any, mod.uppercase_str_char_first: m_any, mod.prefix_object: m_any,
                                             mod.is_type_subclass: (lambda ex, s, f, a, kw, w: [(s, VBool(z3.BoolVal(True)))]), '.replace': m_any}}
    for qual, cm in targets.items():
        fobj, node, _ = funcmode.load('beartype/_decor/decorcore.py', qual)
        ex = Exec(uni, dict(mod.__dict__), call_model=cm, name=qual); ex.fields_mode = True; ex.method_names = {'replace'}
        kwargs = {'conf': VObj(CONF), 'cls_stack': VObj(STACK), 'other_kw': VObj(EXTRA)}
        outs = ex.run_function(node, St(), (VObj(OBJ),), kwargs, fobj)
        n = 0
        for i, (s, v) in enumerate(outs):
            if qual == '_beartype_object_fatal':
                # dispatch is total: a class ALWAYS reaches the class decorator and anything else the callable decorator - no object is handed back
                # undecorated by the dispatcher itself (the documented no-op cases are decided further down, per member)
                tags = [e[1] for e in s.events if e[0] == 'callee']
                isclass = M.inst(OBJ, uni.const(type))
                pr_ = discharge.Prover(uni.axioms())
                r_ = pr_.prove(list(s.pc), z3.BoolVal(tags == ['type']) == isclass) if len(tags) == 1 else None
                ok_ret = isinstance(v, VObj) and len(tags) == 1 and str(v.t).startswith(tags[0])
                rep.add(f'C13.decorcore.{qual}.post.dispatch_is_total.path{i}', (r_.status if (r_ and ok_ret) else 'refuted'), backend='z3+structural',
                        where=f'decorators reached on this path: {tags}; returned {v}: a class goes to beartype_type, everything else to beartype_nontype, and the result of that decorator is what is returned')
            for e in s.events:
                if e[0] != 'callee': continue
                n += 1
                rep.add(f'C13.decorcore.{qual}.post.forwards_object_conf_keywords.path{i}.{e[1]}', 'proved' if e[2] else 'refuted', backend='structural',
                        where=f'{qual} calls the {e[1]} decorator with the very object, configuration and every keyword it was given (a member keeps its class stack under every configuration)')
        if not n: rep.error(f'C13.decorcore.{qual}: no callee call seen (vacuous)')

def unbeartypeable_part(rep):
    """the predicates the identity clauses rest on (so far an ASSUMED callee contract of beartype_func):
      is_func_unbeartypeable(f): True whenever Python runs optimised, f has no annotations, f is @no_type_check'ed or f is a beartype wrapper
        (each documented no-op case is a disjunct: none can be lost), and False when none of its own disjuncts holds;
      is_func_beartyped / set_func_beartyped: the marker is the function's OWN code object - after set(f), is(f) holds; a function g with another
        code object that merely carries a COPY of f's attributes (functools.wraps) is not taken for a wrapper."""
    from pyvc import funcmode, model as M, discharge
    from pyvc.symx import Exec, St, VObj, VPy, VBool
    import beartype._util.bear.utilbearfunc as mod
    uni = M.Universe(); NONE = uni.const(None)
    Fn = z3.Const('func', M.Obj)
    preds = {}
    def m_pred(name):
        b = z3.Function('pred_' + name, M.Obj, z3.BoolSort()); preds[name] = b
        return lambda ex, s, f, a, kw, w: [(s.ev('pred', name), VBool(b(ex.obj(a[0])) if a else b(NONE)))]
    def m_ann(ex, s, f, a, kw, w):
        outs = []
        for s2, none in ex.fork(s, z3.Bool('annotations_is_none')):
            ann = M.fresh('annotations')
            outs.append((s2.ev('pred', 'annotations'), VPy(None)) if none else (s2.assume(ann != NONE).ev('pred', 'annotations'), VObj(ann)))
        return outs
    fobj, node, _ = funcmode.load('beartype/_util/bear/utilbearfunc.py', 'is_func_unbeartypeable')
    cm = {}
    for nm in ('is_python_optimized', 'is_func_pep484_notypechecked', 'is_func_beartyped', 'is_object_blacklisted', 'is_func_jaxtyped', 'is_sphinx_autodocing'):
        if hasattr(mod, nm): cm[getattr(mod, nm)] = m_pred(nm)
    if hasattr(mod, 'get_hintable_pep649749_annotations_or_none'): cm[mod.get_hintable_pep649749_annotations_or_none] = m_ann
    ex = Exec(uni, dict(mod.__dict__), call_model=cm, name='is_func_unbeartypeable'); ex.fields_mode = True
    outs = ex.run_function(node, St(), (VObj(Fn),), {}, fobj)
    pr = discharge.Prover(uni.axioms())
    required = {'python -O': lambda: preds['is_python_optimized'](NONE), 'unannotated': lambda: z3.Bool('annotations_is_none'), '@no_type_check': lambda: preds['is_func_pep484_notypechecked'](Fn),
                'already a beartype wrapper': lambda: preds['is_func_beartyped'](Fn)}
    for nm_ in ('is_python_optimized', 'is_func_pep484_notypechecked', 'is_func_beartyped'):
        if nm_ not in preds: rep.add(f'C13.unbeartypeable.calls.{nm_}', 'refuted', backend='structural', where=f'is_func_unbeartypeable no longer consults {nm_}')
    if not outs: rep.error('C13.unbeartypeable: no returning path')
    alld = z3.Or(*[p_(Fn) if n_ != 'is_python_optimized' and n_ != 'is_sphinx_autodocing' else p_(NONE) for n_, p_ in preds.items()] + [z3.Bool('annotations_is_none')])
    for i, (s_, v) in enumerate(outs):
        for label, cond in required.items():
            try: c = cond()
            except KeyError: continue
            r = pr.prove(list(s_.pc) + [c], ex.truth(v))
            rep.add(f'C13.unbeartypeable.post.true_for[{label}].path{i}', r.status, time=r.time, backend=r.backend, reason=r.reason, where=f'decoration is the identity for: {label}')
        r = pr.prove(list(s_.pc) + [ex.truth(v)], alld)
        rep.add(f'C13.unbeartypeable.post.true_only_for_a_listed_reason.path{i}', r.status, time=r.time, backend=r.backend, reason=r.reason, where='True only if one of the consulted predicates holds (no callable is silently left unchecked for another reason)')
    # marker protocol
    G = z3.Const('other_func', M.Obj)
    fobj, node, _ = funcmode.load('beartype/_util/bear/utilbearfunc.py', 'set_func_beartyped')
    ex = Exec(uni, dict(mod.__dict__), call_model={}, name='set_func_beartyped'); ex.fields_mode = True
    souts = ex.run_function(node, St(), (VObj(Fn),), {}, fobj)
    fobj2, node2, _ = funcmode.load('beartype/_util/bear/utilbearfunc.py', 'is_func_beartyped')
    n = 0
    for i, (s1, _) in enumerate(souts):
        H = lambda name, st_=s1: ex.field(st_, name)
        for target, label, want in ((Fn, 'the marked function itself', True), (G, 'a function with ANOTHER code object carrying a copy of the marker attribute (functools.wraps)', False)):
            pre = []
            if target is G:
                marker = [k for k in s1.heap_fields() if 'beartype' in k] if hasattr(s1, 'heap_fields') else []
                # g's attributes are a copy of f's (every field of g equals the field of f, except __code__ which is g's own)
                for fld in ('__beartype_wrapper', '_BeartypeWrapper__beartype_wrapper'):
                    pre.append(z3.Select(ex.field(s1, fld), G) == z3.Select(ex.field(s1, fld), Fn))
                pre += [z3.Select(ex.field(s1, '__code__'), G) != z3.Select(ex.field(s1, '__code__'), Fn), z3.Select(ex.field(s1, '__code__'), G) != NONE]
            pre.append(z3.Select(ex.field(s1, '__code__'), Fn) != NONE)
            ex2 = Exec(uni, dict(mod.__dict__), call_model={}, name='is_func_beartyped'); ex2.fields_mode = True
            for j, (s2, v2) in enumerate(ex2.run_function(node2, s1.with_env(()).assume(z3.And(*pre)), (VObj(target),), {}, fobj2)):
                n += 1
                r = pr.prove(list(s2.pc), ex2.truth(v2) == z3.BoolVal(want))
                rep.add(f'C13.beartyped_marker.post.{"set_then_is" if want else "copied_marker_is_not_a_wrapper"}.path{i}_{j}', r.status, time=r.time, backend=r.backend, reason=r.reason,
                        where=f'after set_func_beartyped(f): is_func_beartyped of {label} is {want}')
    if not n: rep.error('C13.beartyped_marker: no path')

def type_attr_cache(rep):
    """"decorating an already decorated class returns it unchanged" is decided from a per-class entry of the cache beartype keeps on the hierarchy's
    __sizeof__; an entry must belong to the CLASS it was made for, for as long as it can be found: (S) the table is keyed by the class object itself - never
    by id(cls) or another value that outlives or can be shared between classes (a collected class's id is reused by the next class allocated there);
    (b) history: decorated stub subclasses are created and dropped, then new subclasses of the same decorated base are decorated - their members are checked"""
    import subprocess
    from pyvc import REPO
    rel = 'beartype/_util/cache/utilcacheobjattr.py'
    tree = ast.parse(open(os.path.join(REPO, rel)).read()); n = 0
    for fn in [x for x in ast.walk(tree) if isinstance(x, ast.FunctionDef) and x.name in ('get_type_attr_cached_or_sentinel', 'set_type_attr_cached')]:
        keys = []
        for c in ast.walk(fn):
            if isinstance(c, ast.Call) and isinstance(c.func, ast.Attribute) and c.func.attr in ('get', 'setdefault', 'pop') and isinstance(c.func.value, ast.Name) and c.func.value.id == 'type_to_attr_name_to_value' and c.args: keys.append(c.args[0])
            if isinstance(c, ast.Subscript) and isinstance(c.value, ast.Name) and c.value.id == 'type_to_attr_name_to_value': keys.append(c.slice)
        n += 1
        ok = bool(keys) and all(isinstance(k, ast.Name) and k.id == 'cls' for k in keys)
        rep.add(f'C13.type_attr_cache.keyed_by_the_class_itself.{fn.name}', 'proved' if ok else 'refuted', backend='structural',
                where=f'{rel}:{fn.name}: the per-class table is accessed under {[ast.unparse(k) for k in keys]}' + ('' if ok else ' - not the class object itself: the entry can be found for ANOTHER class'))
    if n != 2: rep.error(f'C13 type_attr_cache: {n} of 2 functions found (extraction key no longer resolves)')
    src = """
import gc, sys
from beartype import beartype
from beartype.roar import BeartypeCallHintViolation
@beartype
class Base:
    def base_m(self, x: int) -> int: return x
bad = 0; total = 0
for round_ in range(40):
    for _ in range(3):
        class Stub(Base): pass          # nothing in it pins the class: it is collected as soon as the name is rebound
        beartype(Stub)
    del Stub; gc.collect()
    class Plugin(Base):
        def m(self, x: int) -> int: return x
    beartype(Plugin); total += 1
    try: Plugin().m('not an int'); bad += 1
    except BeartypeCallHintViolation: pass
    del Plugin
print(f'{bad} of {total} freshly decorated subclasses accept a bad argument'); sys.exit(1 if bad else 0)
"""
    env = dict(os.environ); env['PYTHONPATH'] = REPO
    p = subprocess.run([sys.executable, '-c', src], capture_output=True, text=True, timeout=180, env=env, cwd='/')
    if p.returncode not in (0, 1): rep.error('C13 type_attr_cache harness: ' + (p.stdout + p.stderr)[-600:]); return
    if p.returncode == 1:
        rep.add('C13.history.decorated_after_collected_siblings', 'refuted', backend='runtime-contract', bounded=True, where=p.stdout.strip()[-300:], solver_output='bounded run-time contract in a fresh interpreter (not a proof)',
                replay=dict(reproduced=True, detail=p.stdout.strip()[-300:]), replay_script=f"import subprocess\nenv = dict(os.environ); env['PYTHONPATH'] = os.environ.get('VERIF_REPO', {REPO!r})\np = subprocess.run([sys.executable, '-c', {src!r}], env=env, cwd='/')\nsys.exit(p.returncode)\n")
    rep.bounded.append(dict(kind='subclasses decorated after decorated siblings were garbage-collected (bounded stand-in, NOT counted as proved)', rounds=40, failing=int(p.returncode == 1)))

def descriptor_part(rep):
    """function mode on the two descriptor decorators.  Contract (from the property statement):
      property: the result is the SAME descriptor when no accessor changed; otherwise a property whose getter/setter/deleter are the decorated
        accessors of the original (an absent accessor stays absent), whose docstring is the ORIGINAL descriptor's docstring, built with every
        keyword forwarded to the accessor decorator;
      classmethod/staticmethod: the same descriptor when the wrappee is a class or is returned unchanged; otherwise a descriptor of the SAME
        kind (descriptor.__class__) around the decorated wrappee."""
    from pyvc import funcmode, model as M, discharge
    from pyvc.symx import Exec, St, VObj, VPy, VBool
    import beartype._decor._nontype._builtin.decorbuiltindescriptor as mod
    import beartype._decor._nontype.decornontype as _nt, beartype._decor.decorcore as _dc
    uni = M.Universe(); uni.const(type); NONE = uni.const(None)
    D = z3.Const('descriptor', M.Obj); KW = z3.Const('extra_kw', M.Obj)
    DEC = z3.Function('decorated', M.Obj, M.Obj)
    def F(n): return z3.Const(f'H_{n}', z3.ArraySort(M.Obj, M.Obj))
    def m_dec(ex, s, f, a, kw, w):
        kw = dict(kw) if not isinstance(kw, dict) else kw
        x = a[0] if a else kw.get('func', kw.get('obj'))
        fw = isinstance(kw.get('other_kw'), VObj) and kw['other_kw'].t.eq(KW) and set(kw) <= {'func', 'obj', 'other_kw'}
        return [(s.ev('decorate', ex.obj(x), fw), VObj(DEC(ex.obj(x))))]
    def m_property(ex, s, f, a, kw, w):
        kw = dict(kw) if not isinstance(kw, dict) else kw
        names = ('fget', 'fset', 'fdel', 'doc'); got = {}
        for i, x in enumerate(a): got[names[i]] = x
        got.update({k: v for k, v in kw.items() if k in names})
        return [(s.ev('property', {k: ex.obj(v) for k, v in got.items()}, set(kw) - set(names)), VObj(M.fresh('new_property')))]
    # ---- property
    fobj, node, _ = funcmode.load('beartype/_decor/_nontype/_builtin/decorbuiltindescriptor.py', 'beartype_descriptor_decorator_builtin_property')
    ex = Exec(uni, dict(mod.__dict__, beartype_func=_nt.beartype_func), call_model={_nt.beartype_func: m_dec, property: m_property}, name='decorate_property'); ex.fields_mode = True
    outs = ex.run_function(node, St(), (VObj(D),), {'other_kw': VObj(KW)}, fobj)
    pr = discharge.Prover(uni.axioms()); n = 0
    acc = {k: z3.Select(F(k), D) for k in ('fget', 'fset', 'fdel')}; DOC = z3.Select(F('__doc__'), D)
    want = {k: z3.If(acc[k] == NONE, NONE, DEC(acc[k])) for k in acc}
    unchanged = z3.And(*[want[k] == acc[k] for k in acc])
    for i, (s_, v) in enumerate(outs):
        n += 1; props = [e for e in s_.events if e[0] == 'property']; decs = [e for e in s_.events if e[0] == 'decorate']
        for e in decs:
            rep.add(f'C13.descriptor.property.post.forwards_keywords.path{i}', 'proved' if e[2] else 'refuted', backend='structural', where='every keyword (configuration, class stack) reaches the accessor decorator')
        if not props:
            r = pr.prove(list(s_.pc), z3.And(ex.obj(v) == D, unchanged))
            rep.add(f'C13.descriptor.property.post.identity_only_if_unchanged.path{i}', r.status, time=r.time, backend=r.backend, reason=r.reason, where='the descriptor itself is returned only when no accessor was replaced')
            continue
        got = props[-1][1]
        r = pr.prove(list(s_.pc), z3.And(*[got.get(k, NONE) == want[k] for k in acc]))
        rep.add(f'C13.descriptor.property.post.accessors.path{i}', r.status, time=r.time, backend=r.backend, reason=r.reason, where='getter, setter and deleter of the new property are the decorated accessors of the original; an absent accessor stays absent')
        r = pr.prove(list(s_.pc), got.get('doc', NONE) == DOC)
        rep.add(f'C13.descriptor.property.post.docstring.path{i}', r.status, time=r.time, backend=r.backend, reason=r.reason, where="the new property is built with the original descriptor's docstring (not the getter's)")
        rep.add(f'C13.descriptor.property.post.returns_new_property.path{i}', 'proved' if (isinstance(v, VObj) and len(props) == 1 and not props[-1][2]) else 'refuted', backend='structural')
    if n < 2: rep.error('C13.descriptor.property: fewer than 2 completing paths (vacuous)')
    # ---- classmethod / staticmethod
    fobj, node, _ = funcmode.load('beartype/_decor/_nontype/_builtin/decorbuiltindescriptor.py', 'beartype_descriptor_decorator_builtin_class_or_static_method')
    W = z3.Const('wrappee', M.Obj)
    def m_unwrap(ex, s, f, a, kw, w): return [(s.ev('unwrap', ex.obj(a[0])), VObj(W))]
    def m_kind(ex, s, f, a, kw, w): return [(s.ev('rebuild', ex.obj(f.self_) if hasattr(f, 'self_') else None, tuple(ex.obj(x) for x in a)), VObj(M.fresh('new_descriptor')))]
    ex = Exec(uni, dict(mod.__dict__, beartype_object=_dc.beartype_object), call_model={_dc.beartype_object: m_dec, mod.unwrap_func_class_or_static_method_once: m_unwrap, '.__class__': m_kind}, name='decorate_cls_static'); ex.fields_mode = True
    ex.method_names = {'__class__'}
    outs = ex.run_function(node, St(), (VObj(D),), {'other_kw': VObj(KW)}, fobj)
    n = 0
    for i, (s_, v) in enumerate(outs):
        n += 1; reb = [e for e in s_.events if e[0] == 'rebuild']; unw = [e for e in s_.events if e[0] == 'unwrap']
        ok_unw = len(unw) == 1
        rep.add(f'C13.descriptor.cls_static.post.unwraps_the_descriptor.path{i}', 'proved' if ok_unw else 'refuted', backend='structural')
        if not reb:
            r = pr.prove(list(s_.pc), z3.And(ex.obj(v) == D, z3.Or(M.inst(W, uni.const(type)), DEC(W) == W)))
            rep.add(f'C13.descriptor.cls_static.post.identity_only_if_unchanged.path{i}', r.status, time=r.time, backend=r.backend, reason=r.reason, where='the descriptor itself is returned only when it wraps a class or its wrappee was returned unchanged')
        else:
            for e in [e for e in s_.events if e[0] == 'decorate']:
                rep.add(f'C13.descriptor.cls_static.post.forwards_keywords.path{i}', 'proved' if e[2] else 'refuted', backend='structural')
            r = pr.prove(list(s_.pc), z3.And(len(reb[-1][2]) == 1, reb[-1][2][0] == DEC(W)) if len(reb[-1][2]) == 1 else z3.BoolVal(False))
            rep.add(f'C13.descriptor.cls_static.post.same_kind_around_decorated_wrappee.path{i}', r.status, time=r.time, backend=r.backend, reason=r.reason, where='descriptor.__class__(decorated wrappee): the descriptor kind is kept')
    if n < 2: rep.error('C13.descriptor.cls_static: fewer than 2 completing paths (vacuous)')

def main(tier, seed):
    rep = report.Report('C13', tier, seed, 'other', f'./check C13 --tier {tier}')
    for fn in (func_part, type_part, decorcore_part, descriptor_part, unbeartypeable_part, type_attr_cache):
        try: fn(rep)
        except Exception: rep.error(f'C13 {fn.__name__}: ' + traceback.format_exc()[-2500:])
    try: bounded(rep, tier)
    except Exception: rep.error('C13 bounded: ' + traceback.format_exc()[-2500:])
    files = ['beartype/_decor/_nontype/decornontype.py', 'beartype/_decor/_type/decortype.py', 'beartype/_decor/decorcore.py']
    rep.functions = ['decornontype.beartype_func (mode F)', 'decortype.beartype_type (mode F, member loop by summarisation)', 'decorcore.beartype_object / _beartype_object_fatal / _beartype_object_nonfatal (mode F: forwarding)', 'decorbuiltindescriptor: property and classmethod/staticmethod decorators (mode F)', 'utilbearfunc.is_func_unbeartypeable / is_func_beartyped / set_func_beartyped (mode F)'] + [f'{p}@{report.src_hash(p)}' for p in files]
    from pyvc import model as M
    rep.trusted = ['pyvc', 'z3', 'functools.update_wrapper / make_func set __wrapped__, __name__, __doc__ and the signature from func_wrapped'] + M.ASSUMED_SEMANTICS
    rep.assumptions = ['callee contracts assumed: generate_code, make_func, beartype_object on a member behaves as @beartype on that member given the class stack (forward-scope resolution: C07 territory)',
                       'descriptor re-wrapping (classmethod/staticmethod/property) and the call-for-call equivalence clause are covered by the bounded run-time contract only']
    rep.extra['explanation'] = 'identity / idempotence / member-loop postconditions in function mode; call-for-call equivalence bounded'
    return rep.finish()
