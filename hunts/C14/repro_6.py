# Finding 6: several caches are keyed by ==/hash of user objects and hand back
# the *first* equal object ever seen, so later answers (TypeHint attributes,
# indexing, reprs, violation messages) describe an object the caller never
# passed.
import sys
import beartype
assert beartype.__file__.startswith('/tmp/wt/hunt_C14'), beartype.__file__
from typing import Annotated, Union, Literal
from beartype.door import TypeHint, die_if_unbearable, is_bearable
from beartype.vale import IsEqual

def message(thunk):
    try:
        thunk(); return 'no exception'
    except Exception as e:
        return str(e).splitlines()[0]

bad = False

# (a) TypeHint wrapper cache keyed by hint equality.
h_early, h_late = Union[int, str], Union[str, int]
assert h_early == h_late and h_early is not h_late
TypeHint(h_early)                                   # history
th = TypeHint(h_late)
print('(a) TypeHint(Union[str, int])      ->', th)
print('(a) TypeHint(Union[str, int]).hint ->', th.hint, '| args ->', th.args, '| [0] ->', th[0])
bad |= th.hint is not h_late or th.args != h_late.__args__

TypeHint(Literal[2, 1])
print('(a) TypeHint(Literal[1, 2]).args   ->', TypeHint(Literal[1, 2]).args)
bad |= TypeHint(Literal[1, 2]).args != (1, 2)

TypeHint(Annotated[int, 1.0])
print('(a) TypeHint(Annotated[int, True]).hint ->', TypeHint(Annotated[int, True]).hint)
bad |= repr(TypeHint(Annotated[int, True]).hint) != repr(Annotated[int, True])

# (b) die_if_unbearable() checker cache keyed by hint equality.
is_bearable(1, int | str)                           # history
die_if_unbearable(1, int | str)
m = message(lambda: die_if_unbearable(1.5, Union[str, int]))
print('(b) die_if_unbearable(1.5, Union[str, int]) ->', m)
die_if_unbearable(1, Literal[2, 1])
m2 = message(lambda: die_if_unbearable(3, Literal[1, 2]))
print('(b) die_if_unbearable(3, Literal[1, 2])     ->', m2)
bad |= 'Literal[2, 1]' in m2

# (c) IsEqual[...] validator factory keyed by argument equality.
IsEqual[1.0]                                        # history
m3 = message(lambda: die_if_unbearable([], Annotated[object, IsEqual[True]]))
print('(c) die_if_unbearable([], Annotated[object, IsEqual[True]]) ->', m3)
bad |= 'IsEqual[1.0]' in m3

# (d) the memoised NumPy reducer overwrites the repr of a memoised, shared
#     IsAttr[...] validator, renaming the caller's own, unrelated hint.
import numpy as np
from typing import Any
from beartype.vale import IsAttr
mine = Annotated[np.ndarray, IsAttr['dtype', IsEqual[np.dtype(np.float64)]]]
arr = np.zeros(3, dtype=np.int32)
m4 = message(lambda: die_if_unbearable(arr, mine))
is_bearable(arr, np.ndarray[tuple[int, int], np.dtype[np.float64]])   # history
m5 = message(lambda: die_if_unbearable(arr, mine))
print('(d) before:', m4[:150])
print('(d) after :', m5[:150])
bad |= m4 != m5

sys.exit(1 if bad else 0)
