# The generated wrapper resolves builtins (len, isinstance, iter, next, int, ...)
# through the *decorated function's module globals*, so any module-level name
# that shadows a builtin silently corrupts argument checking.
import builtins
from beartype import beartype
from beartype.roar import BeartypeCallHintParamViolation

bugs = []

# (a) a module-level "iter" loop counter makes a valid call crash before the
#     original runs.
iter = 0
ran = []
@beartype
def f(a: set[int]):
    ran.append(a); return 'ran'
try:
    f({1})
except TypeError as e:
    bugs.append(f'(a) valid call f({{1}}) raised TypeError({e}); original ran {len(ran)} times')
del iter

# (b) a module-level helper called "len" disables *all* positional checks.
def len(x):            # e.g. a domain-specific "len" helper
    return 0
@beartype
def g(a: int, b: str):
    return ('ran', a, b)
try:
    r = g('not-int', 42)
    bugs.append(f'(b) g("not-int", 42) returned {r!r}; neither parameter checked')
except BeartypeCallHintParamViolation:
    pass
del len

# (c) a module-level alias "int = float" makes "builtins.int" accept floats and
#     reject ints.
int = float
@beartype
def h(a: builtins.int):
    return ('ran', a)
try:
    r = h(1.5)
    bugs.append(f'(c) h(1.5) returned {r!r} although a: builtins.int')
except BeartypeCallHintParamViolation:
    pass
try:
    h(1)
except Exception as e:
    bugs.append(f'(c2) valid call h(1) raised {e.__class__.__name__}')

for b in bugs: print('BUG', b)
raise SystemExit(1 if bugs else 0)
