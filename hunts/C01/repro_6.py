# len() of a huge range overflows inside the generated checker.
import sys
from collections.abc import Sequence, Collection, Iterable, Reversible
from beartype import beartype
from beartype.door import is_bearable
r = range(2**63)             # a perfectly valid Sequence[int]; r[0], 5 in r, iter(r) all work
bad = 0
for hint in (Sequence[int], Collection[int], Iterable[int], Reversible[int], Sequence[int] | None):
    try:
        print(hint, '->', is_bearable(r, hint))
    except Exception as e:
        bad += 1
        print(hint, '->', type(e).__name__, e)
@beartype
def f(xs: Sequence[int]) -> int:
    return xs[0]
try:
    f(r)
except Exception as e:
    bad += 1
    print('@beartype:', type(e).__name__, e)
sys.exit(1 if bad else 0)
