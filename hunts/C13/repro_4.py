# Subclasses of the builtin descriptors (including the stdlib abc.abstract*
# ones) lose their descriptor kind or make the whole class undecoratable.
import abc, sys
from beartype import beartype

bad = False

# (a) staticmethod subclass -> silently replaced by a *plain function*.
class Base(abc.ABC):
    @abc.abstractstaticmethod
    def f(x: int) -> int: return x
class Impl(Base):
    @staticmethod
    def f(x: int) -> int: return x
beartype(Base)
kind = type(Base.__dict__['f']).__name__
print('(a) abstractstaticmethod became:', kind)
try:
    print('    super().f(1) ->', super(Impl, Impl()).f(1))
except Exception as e:
    print('    super().f(1) raised', type(e).__name__, str(e)[:120]); bad = True
bad |= kind != 'abstractstaticmethod'

# (b) classmethod / property subclasses -> decoration of the class raises.
class MyProp(property): pass
def mk_cm():
    class K(abc.ABC):
        @abc.abstractclassmethod
        def g(cls, x: int) -> int: return x
    return K
def mk_ap():
    class K(abc.ABC):
        @abc.abstractproperty
        def p(self) -> int: return 1
    return K
def mk_mp():
    class K:
        @MyProp
        def p(self) -> int: return 1
    return K
for label, mk in (('abstractclassmethod', mk_cm), ('abstractproperty', mk_ap), ('property subclass', mk_mp)):
    try:
        beartype(mk()); print('(b)', label, 'ok')
    except Exception as e:
        print('(b)', label, '->', type(e).__name__, str(e)[:90]); bad = True
sys.exit(1 if bad else 0)
