# Under the O0 strategy a dataclass is still monkey-patched and its fields are
# still type-checked (violations are raised) when is_pep557_fields=True.
import sys
from dataclasses import dataclass
from beartype import beartype, BeartypeConf, BeartypeStrategy
from beartype.door import is_bearable

conf = BeartypeConf(strategy=BeartypeStrategy.O0, is_pep557_fields=True)

@dataclass
class D:
    x: int

keys = set(D.__dict__)
assert beartype(conf=conf)(D) is D
print('members added under O0:', set(D.__dict__) - keys)
print('is_bearable("a", int, conf=O0) ->', is_bearable('a', int, conf=conf))
try:
    D('not an int')
    print('ok: no checking under O0'); sys.exit(0)
except Exception as e:
    print('BUG: O0 dataclass raised', type(e).__name__, str(e)[:100]); sys.exit(1)
