# hint_overrides keyed on a container origin type (e.g. {dict: Mapping}) is NOT
# applied by the generated checker to subscripted hints (dict[str, int]) but IS
# applied by the violation reporter to the origin type of the same hint. The
# two disagree, so instead of the configured violation (exception or warning)
# the caller gets a private _BeartypeCallHintPepRaiseDesynchronizationException.
import sys, types, warnings
from collections.abc import Mapping, Sequence
from beartype import beartype, BeartypeConf, FrozenDict
from beartype.door import is_bearable, die_if_unbearable
from beartype.roar import BeartypeDoorHintViolation, BeartypeCallHintViolation

overrides = FrozenDict({dict: Mapping, list: Sequence})
conf      = BeartypeConf(hint_overrides=overrides)
conf_warn = BeartypeConf(hint_overrides=overrides, violation_type=UserWarning)
proxy = types.MappingProxyType({'a': 1})

def signal(f, *a, **k):
    with warnings.catch_warnings(record=True) as w:
        warnings.simplefilter('always')
        try:
            f(*a, **k)
        except Exception as e:
            return 'raised ' + type(e).__name__
        return 'warned ' + w[0].category.__name__ if w else 'accepted'

results = []
print('is_bearable(proxy, dict[str, int])       ->', is_bearable(proxy, dict[str, int], conf=conf))
results.append(signal(die_if_unbearable, proxy, dict[str, int], conf=conf))
print('die_if_unbearable(proxy, dict[str, int]) ->', results[-1], ' (expected: raised BeartypeDoorHintViolation, or accepted if rewritten to Mapping[str, int])')
results.append(signal(die_if_unbearable, (1,), list[int], conf=conf))
print('die_if_unbearable((1,), list[int])       ->', results[-1])
results.append(signal(die_if_unbearable, proxy, dict[str, int], conf=conf_warn))
print('same, violation_type=UserWarning         ->', results[-1], ' (expected: warned UserWarning)')

@beartype(conf=conf_warn)
def f(x: list[int]) -> dict[str, int]:
    return proxy
results.append(signal(f, (1,)))
print('@beartype(conf_warn) f((1,))             ->', results[-1], ' (expected: warned UserWarning)')

# Unsubscripted typing alias of the origin: same desynchronization.
import typing
results.append(signal(die_if_unbearable, 1, typing.List, conf=BeartypeConf(hint_overrides=FrozenDict({list: int}))))
print('die_if_unbearable(1, typing.List) {list:int} ->', results[-1])

sys.exit(1 if any('Desynchronization' in r or '_Beartype' in r for r in results) else 0)
