import sys, os, argparse, importlib, traceback
sys.path.insert(0, os.path.dirname(os.path.dirname(os.path.abspath(__file__))))
DRIVERS = {'C01': ('props.gensweep', 'C01'), 'C02': ('props.gensweep', 'C02'), 'C09': ('props.gensweep', 'C09'), 'C10': ('props.gensweep', 'C10'), 'C12': ('props.c12', None), 'C18': ('props.c18', None), 'C04': ('props.c04', None), 'C17': ('props.c17', None), 'C14': ('props.c14', None), 'C06': ('props.c06', None), 'C03': ('props.c03', None), 'C08': ('props.c08', None), 'C15': ('props.c15', None), 'C16': ('props.c16', None), 'C11': ('props.c11', None), 'C05': ('props.c05', None), 'C13': ('props.c13', None), 'C19': ('props.c19', None), 'C20': ('props.c20', None)}
def main():
    ap = argparse.ArgumentParser(); ap.add_argument('prop'); ap.add_argument('--tier', default=os.environ.get('VERIF_TIER', 'quick'))
    a = ap.parse_args()
    seed = int(os.environ.get('VERIF_SEED', '0') or 0)
    os.environ.pop('PYTHONDONTWRITEBYTECODE', None) if False else None
    if a.prop not in DRIVERS:
        print(f'CHECKER-ERROR: no check for {a.prop}'); return 3
    mod, arg = DRIVERS[a.prop]
    import pyvc; pyvc.use_repo()      # `import beartype` must resolve to $VERIF_REPO before anything else imports it
    try:
        m = importlib.import_module(mod)
        return m.main(arg, a.tier, seed) if arg else m.main(a.tier, seed)
    except SystemExit: raise
    except Exception:
        print('CHECKER-ERROR: ' + traceback.format_exc()[-3000:]); return 3
if __name__ == '__main__': sys.exit(main())
