# Deeply (but finitely, non-recursively) nested containers.
from beartype.door import infer_hint, is_bearable

def nest(depth):
    x = [1]
    for _ in range(depth): x = [x]
    return x

bad = 0
for depth in (90, 100, 150, 300):
    obj = nest(depth)
    try:
        hint = infer_hint(obj)
    except RecursionError as e:
        print(f'depth={depth}: infer_hint raised RecursionError: {e}'); bad += 1; continue
    try:
        ok = is_bearable(obj, hint)
        print(f'depth={depth}: is_bearable -> {ok}'); bad += ok is not True
    except Exception as e:
        print(f'depth={depth}: is_bearable raised {type(e).__name__}: {str(e)[:160]!r}'); bad += 1
raise SystemExit(1 if bad else 0)
