# typing_extensions.TypeAliasType (the documented backport of PEP 695 aliases,
# a distinct class from typing.TypeAliasType on Python 3.12/3.13).
import sys, typing
import typing_extensions as te
from beartype.door import is_bearable
print('te.TypeAliasType is typing.TypeAliasType:', te.TypeAliasType is typing.TypeAliasType)
IntList = te.TypeAliasType('IntList', list[int])
X = typing.TypeVar('X')
StrMap = te.TypeAliasType('StrMap', dict[str, X], type_params=(X,))
bad = 0
for obj, hint in (([1], IntList), ({'a': 1}, StrMap[int])):
    try:
        print(hint, '->', is_bearable(obj, hint))
    except BaseException as e:
        bad += 1
        print(hint, '->', type(e).__name__, str(e)[:150])
sys.exit(1 if bad else 0)
