# is_pep484_tower=True combined with a *falsy* conflicting override for float
# or complex (e.g. {float: None}, None being a perfectly valid hint) is neither
# rejected (as every other conflicting override is) nor honoured: the user's
# override is silently thrown away.
import sys
from beartype import BeartypeConf, FrozenDict
from beartype.door import is_bearable
from beartype.roar import BeartypeConfParamException

try:
    BeartypeConf(is_pep484_tower=True, hint_overrides=FrozenDict({float: str}))
    print('{float: str} + tower: accepted (unexpected)')
except BeartypeConfParamException:
    print('{float: str}  + tower: BeartypeConfParamException (conflict detected, fine)')

try:
    conf = BeartypeConf(is_pep484_tower=True, hint_overrides=FrozenDict({float: None}))
except BeartypeConfParamException:
    print('{float: None} + tower: BeartypeConfParamException (conflict detected, fine)')
    sys.exit(0)
print('{float: None} + tower: silently accepted; conf.hint_overrides =', dict(conf.hint_overrides))
only_override = BeartypeConf(hint_overrides=FrozenDict({float: None}))
print('is_bearable(None, float): override only ->', is_bearable(None, float, conf=only_override),
      '| override + tower ->', is_bearable(None, float, conf=conf))
print('is_bearable(1.5, float):  override only ->', is_bearable(1.5, float, conf=only_override),
      '| override + tower ->', is_bearable(1.5, float, conf=conf))
sys.exit(1)
