# Finding 4: tuple-union root hints containing a forward reference (documented as supported) are
# accepted/rejected correctly by is_bearable() and by @beartype, but a *rejection* through
# die_if_unbearable() raises BeartypeDecorHintNonpepException instead of the violation, because the
# door raiser hands the un-coerced tuple to the violation explainer.
import sys
import beartype
assert beartype.__file__.startswith('/tmp/wt/hunt_C03'), beartype.__file__
from beartype import beartype as bt
from beartype.door import is_bearable, die_if_unbearable
from beartype.roar import BeartypeDoorHintViolation, BeartypeCallHintParamViolation

class Foo: pass
HINT = (int, 'Foo')          # "int or Foo", old-style tuple union with a forward reference

print('is_bearable(Foo(), HINT) ->', is_bearable(Foo(), HINT))   # True
print('is_bearable(1.5,   HINT) ->', is_bearable(1.5, HINT))     # False
die_if_unbearable(Foo(), HINT)                                    # accepted, fine

@bt
def f(x: HINT): pass
bad = 0
try:
    f(1.5)
except BeartypeCallHintParamViolation as e:
    print('@beartype param   OK violation:', e)
for hint in (HINT, (int, list[int])):
    try:
        die_if_unbearable(1.5, hint)
        print('die_if_unbearable accepted?!')
    except BeartypeDoorHintViolation as e:
        print('die_if_unbearable OK violation')
    except Exception as e:
        bad += 1
        print('die_if_unbearable BUG:', type(e).__name__, str(e)[:200])
sys.exit(1 if bad else 0)
