# Finding 1: a @beartype-decorated closure annotated by a forward reference to a
# local class remembers whatever its *first* call resolved that reference to.
# Twin closures that differ only in their call history give different answers.
import sys
import beartype
assert beartype.__file__.startswith('/tmp/wt/hunt_C14'), beartype.__file__
from beartype import beartype as bt
from beartype.roar import BeartypeCallHintViolation

def factory(prev=None, call_inside=False):
    @bt
    def closure(x: 'T') -> int:
        return 1
    class T: pass
    if prev is not None:
        # An earlier closure (created by an earlier factory() call) is called
        # once, with a perfectly valid argument, while *this* factory() frame
        # happens to be on the call stack.
        prev_closure, prev_T = prev
        try:
            prev_closure(prev_T())
        except Exception as e:
            print('  (call made during 2nd factory():', type(e).__name__, ')')
    if call_inside:
        closure(T())
    return closure, T

def ask(closure, arg):
    try:
        return closure(arg)
    except BeartypeCallHintViolation:
        return 'VIOLATION'

bad = False

# --- (a) own instance permanently rejected after one earlier call -----------
cA, TA = factory()
cB, TB = factory()              # twin of cA with no history
factory(prev=(cA, TA))          # history: one earlier call of cA
a, b = ask(cA, TA()), ask(cB, TB())
print('(a) twin without history: closure(T()) ->', b)
print('(a) twin with    history: closure(T()) ->', a)
bad |= (a != b)

# --- (b) foreign same-named class accepted or rejected depending on history -
def other():
    class T: pass
    return T
T_foreign = other()
cC, TC = factory(call_inside=True)    # first call happened inside factory()
cD, TD = factory(call_inside=False)   # first call happens later
c, d = ask(cC, T_foreign()), ask(cD, T_foreign())
print('(b) first called inside  factory(): closure(foreign T()) ->', c)
print('(b) first called outside factory(): closure(foreign T()) ->', d)
bad |= (c != d)

sys.exit(1 if bad else 0)
