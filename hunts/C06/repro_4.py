# The beartype-specific bytecode cache file is keyed by (source file, configuration)
# but the cached code embeds the *module name* under which it was first compiled and
# looks the configuration up by that name at run time. A source file reachable under
# two module names therefore gets the configuration of the *other* name.
import hashlib
import os, sys, tempfile
import beartype
assert beartype.__file__.startswith('/tmp/wt/hunt_C06'), beartype.__file__
from beartype import BeartypeConf
from beartype.claw import beartype_all, beartype_package
# Bytecode caching is Python's default; this sandbox merely sets PYTHONDONTWRITEBYTECODE=1.
# Re-enable it, redirecting all *.pyc files to a scratch directory so that neither the
# beartype worktree nor the stdlib is polluted.
sys.pycache_prefix = tempfile.mkdtemp()
sys.dont_write_bytecode = False

class ViolA(Exception): pass
class ViolB(Exception): pass
CONF_ALL = BeartypeConf(violation_param_type=ViolA)   # for everything ...
CONF_PKG = BeartypeConf(violation_param_type=ViolB)   # ... except package "c06p"

root = tempfile.mkdtemp()
pkg = os.path.join(root, 'c06p'); os.mkdir(pkg)
open(os.path.join(pkg, '__init__.py'), 'w').close()
open(os.path.join(pkg, 'c06m.py'), 'w').write('def f(x: int) -> int:\n    return x\n')
sys.path[:0] = [root, pkg]      # "c06p/c06m.py" importable as "c06p.c06m" and as "c06m"

def violation_of(mod):
    try: mod.f('not an int')
    except Exception as e: return type(e).__name__
    return None

beartype_all(conf=CONF_ALL)
import c06p.c06m                                  # compiled+cached under CONF_ALL
print('c06p.c06m under beartype_all        ->', violation_of(c06p.c06m))

beartype_package('c06p', conf=CONF_PKG)           # nearer registration for "c06p"
del sys.modules['c06p.c06m'], sys.modules['c06p']
import c06p.c06m
print('c06p.c06m after beartype_package    ->', violation_of(c06p.c06m))

import c06m   # top-level module "c06m": no registered ancestor => beartype_all's CONF_ALL
got = violation_of(c06m)
print('c06m (no registered ancestor)       ->', got, '(expected ViolA)')
sys.exit(0 if got == 'ViolA' else 1)
