# Nested sequences share ONE random draw per call, so many (outer, inner) index
# pairs are unreachable: the violating item is never inspected, whatever the draw.
import beartype._check.code.codemain as codemain
DRAW = [0]
codemain.getrandbits = lambda nbits: DRAW[0]      # force the sampler draw

from beartype import beartype
from beartype.door import is_bearable
from beartype.roar import BeartypeCallHintViolation

def rejected_by_some_draw(obj, hint, draws=range(4096)):
    for DRAW[0] in draws:
        if not is_bearable(obj, hint):
            return True
    return False

bad = 0
# Only item [0][1] violates list[list[int]]. Outer index = r % 2, inner index = r % 2
# with the SAME r, so (0, 1) and (1, 0) can never be selected.
for obj, hint in [
    ([[1, 'a'], [3, 4]],              list[list[int]]),
    ([[1, 2], ['a', 4]],              list[list[int]]),
    (((1, 'a'), (3, 4)),              tuple[tuple[int, ...], ...]),
    ([{'k': [1, 'a']}, {'k': [3, 4]}], list[dict[str, list[int]]]),
    ([[0, 0, 0, 'a'], [0]*4, [0]*4, [0]*4], list[list[int]]),   # (0, 3) unreachable
]:
    ok = rejected_by_some_draw(obj, hint)
    print(f'{hint!r:40} {obj!r:45} rejected by some draw in 0..4095: {ok}')
    bad += not ok

# Sanity: the "diagonal" positions are reachable.
assert rejected_by_some_draw([['a', 2], [3, 4]], list[list[int]])
assert rejected_by_some_draw([[1, 2], [3, 'a']], list[list[int]])

# Same with the decorator.
@beartype
def f(x: list[list[int]]) -> None: pass
n = 0
for DRAW[0] in range(4096):
    try: f([[1, 'a'], [3, 4]])
    except BeartypeCallHintViolation: n += 1
print('decorated f([[1, "a"], [3, 4]]) rejected in', n, 'of 4096 draws')
bad += (n == 0)

raise SystemExit(1 if bad else 0)
