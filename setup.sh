#!/bin/sh
# Builds /verif/.venv (python 3.12, offline) with z3-solver, cvc5, jsonschema from the wheelhouse.
# beartype itself is always imported from $VERIF_REPO (default /repo) by the checks, never installed here.
set -e
cd "$(dirname "$0")"
if [ -x .venv/bin/python ] && .venv/bin/python -c "import z3, cvc5, jsonschema" 2>/dev/null; then
  echo "setup: .venv already complete"; exit 0
fi
rm -rf .venv
/venv/bin/python -m venv --without-pip .venv 2>/dev/null || python3.12 -m venv --without-pip .venv
PY=.venv/bin/python
SP=$($PY -c "import sysconfig; print(sysconfig.get_paths()['purelib'])")
# bootstrap pip from the wheelhouse (no network)
PIPWHL=$(ls /opt/veriftools/wheels/pip-*.whl | head -1)
PYTHONPATH="$PIPWHL" $PY -m pip install --no-index --find-links /opt/veriftools/wheels --quiet pip setuptools wheel
$PY -m pip install --no-index --find-links /opt/veriftools/wheels --quiet z3-solver cvc5 jsonschema
# beartype's own third-party test deps (typing_extensions, numpy, ...) come from /venv when present
echo "import site; site.addsitedir('/venv/lib/python3.12/site-packages')" > "$SP/zz_repo_venv.pth"
$PY -c "import z3, cvc5, jsonschema; print('setup: ok z3', z3.get_version_string())"
