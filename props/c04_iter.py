"""C04 (function mode): iter_func_args yields, for ANY numbers of positional-only / flexible / keyword-only parameters, defaults and
variadics, exactly the parameter list of the code object in declaration order with the right kind, name and default - the
sequence the wrapper generator relies on to decide which passed value belongs to which parameter.

Spec (CPython data model, trusted): co_varnames starts with the positional-only + flexible parameters, then the keyword-only ones,
then *args, then **kwargs; __defaults__ is aligned with the END of the positional-only + flexible block; __kwdefaults__ maps names.
The m-th yielded triple must be spec(m); the number of yields must be the number of parameters.  Five loops, each under the
invariant `yields so far == index reached (+ 1 after *args)`; the yield counter is ghost state."""
import ast, z3, traceback


def add(rep, prefix='C04.iter_func_args'):
    from pyvc import funcmode, model as M, discharge, symx
    from pyvc.symx import Exec, St, VObj, VPy, VBool, VInt, VTup
    import collections.abc as cabc
    import beartype._util.func.arg.utilfuncargiter as mod
    import beartype._util.func.utilfunccodeobj as comod, beartype._util.func.utilfunctest as tmod, beartype._util.func.utilfuncwrap as wmod
    fobj, node, _ = funcmode.load('beartype/_util/func/arg/utilfuncargiter.py', 'iter_func_args')
    uni = M.Universe()
    for c in (cabc.Sized, cabc.Collection, cabc.Sequence, cabc.Mapping, cabc.Iterable, tuple, dict): uni.const(c)
    C = uni.const
    FUNC = z3.Const('func', M.Obj); CO = z3.Const('codeobj', M.Obj)
    def F(n): return z3.Const(f'H_{n}', z3.ArraySort(M.Obj, M.Obj))
    N = z3.Select(F('co_varnames'), CO); D0 = z3.Select(F('__defaults__'), FUNC); KD0 = z3.Select(F('__kwdefaults__'), FUNC)
    P = M.unbox_int(z3.Select(F('co_posonlyargcount'), CO))
    PF, K = z3.Ints('n_posonly_or_flex n_kwonly'); vpB, vkB = z3.Bools('has_var_pos has_var_kw')
    vp, vk = z3.If(vpB, 1, 0), z3.If(vkB, 1, 0)
    NONE = C(None); MAND = C(mod.ArgMandatory)
    isbm = z3.Bool('is_bound_method'); om = z3.If(isbm, 1, 0)
    d = z3.If(D0 == NONE, 0, M.len_(D0))
    PO, PK, VP, KO, VK = (C(getattr(mod.ArgKind, n)) for n in ('POSITIONAL_ONLY', 'POSITIONAL_OR_KEYWORD', 'VARIADIC_POSITIONAL', 'KEYWORD_ONLY', 'VARIADIC_KEYWORD'))
    def kd_get(name): return z3.If(z3.And(KD0 != NONE, M.mem(KD0, name)), M.mget(KD0, name), MAND)
    def spec(m):
        kind = z3.If(m < P, PO, z3.If(m < PF, PK, z3.If(z3.And(vpB, m == PF), VP, z3.If(m < PF + vp + K, KO, VK))))
        name = z3.If(m < PF, M.item(N, m), z3.If(z3.And(vpB, m == PF), M.item(N, PF + K), z3.If(m < PF + vp + K, M.item(N, m - vp), M.item(N, PF + K + vp))))
        dflt = z3.If(m < PF, z3.If(m < PF - d, MAND, M.item(D0, m - (PF - d))), z3.If(z3.And(z3.Not(z3.And(vpB, m == PF)), m < PF + vp + K), kd_get(M.item(N, m - vp)), MAND))
        return kind, name, dflt
    pre = [0 <= P, P <= PF, 0 <= K, M.inst(N, C(tuple)), M.len_(N) >= PF + K + vp + vk,
           z3.Or(D0 == NONE, z3.And(M.inst(D0, C(tuple)), M.len_(D0) > 0)), d <= PF,                        # __defaults__ is None or a non-empty tuple no longer than the positional block
           z3.Or(KD0 == NONE, z3.And(M.inst(KD0, C(dict)), M.len_(KD0) > 0)),                                 # __kwdefaults__ is None or a non-empty dict
           M.box_int(P) == z3.Select(F('co_posonlyargcount'), CO),
           z3.Implies(isbm, z3.And(PF >= 1, PF - d >= 1))]      # a bound method has a first positional parameter (self) without default
    def m_lens(ex, s, f, a, kw, w): return [(s, VTup((VInt(PF), VInt(K), VBool(vpB), VBool(vkB))))]
    def m_same(ex, s, f, a, kw, w): return [(s, a[0] if a else dict(kw)['func'])]
    def m_co(ex, s, f, a, kw, w): return [(s, VObj(CO))]
    def m_false(ex, s, f, a, kw, w): return [(s, VBool(isbm))]
    cm = {mod.get_func_args_lens: m_lens, wmod.unwrap_func_all_isomorphic: m_same, comod.get_func_codeobject: m_co, tmod.is_func_boundmethod: m_false}
    scope = dict(mod.__dict__); scope.update(get_func_codeobject=comod.get_func_codeobject, is_func_boundmethod=tmod.is_func_boundmethod, unwrap_func_all_isomorphic=wmod.unwrap_func_all_isomorphic)
    ex = Exec(uni, scope, call_model=cm, name='iter_func_args'); ex.fields_mode = True; ex.method_names = {'get'}
    ex.set_target(node)
    def mk_inv(shift):
        def inv(ex_, i, env, B, s): return z3.And(ex_.as_int(env['__nyield']) == i + shift - om, i >= om)
        return inv
    nloops = len(ex.loop_index)
    if nloops != 5: raise symx.Unsupported(f'iter_func_args has {nloops} loops; the sidecar invariants are written for the 5 loops of the reviewed text')
    ex.loop_contracts = {0: dict(name='posonly_mandatory', vars=['__nyield'], inv=mk_inv(0)), 1: dict(name='posonly_optional', vars=['__nyield'], inv=mk_inv(0)),
                         2: dict(name='flex_mandatory', vars=['__nyield'], inv=mk_inv(0)), 3: dict(name='flex_optional', vars=['__nyield'], inv=mk_inv(0)),
                         4: dict(name='kwonly', vars=['__nyield'], inv=mk_inv(vp))}
    nyields = [0]
    def on_yield(ex_, s, v, idx):
        nyields[0] += 1; m = ex_.as_int(idx)
        if not (isinstance(v, VTup) and len(v.items) == 3):
            ex_.obl(s, 'yield.shape', z3.BoolVal(False), f'yield of {v}'); return
        k_, n_, d_ = spec(m + om)          # the first parameter (self) of a bound method is omitted: the caller never passes it
        ex_.obl(s, 'yield.kind', ex_.obj(v.items[0]) == k_, 'the m-th yielded parameter has the kind of the m-th declared parameter')
        ex_.obl(s, 'yield.name', ex_.obj(v.items[1]) == n_, 'the m-th yielded parameter has the name of the m-th declared parameter')
        ex_.obl(s, 'yield.default', ex_.obj(v.items[2]) == d_, 'the m-th yielded parameter carries its own default (or the mandatory marker)')
        ex_.obl(s, 'yield.in_range', z3.And(0 <= m, m < PF + vp + K + vk - om), 'no parameter is yielded beyond the declared ones')
    ex.on_yield = on_yield
    body = [st for st in node.body if not isinstance(st, ast.Assert) and not (isinstance(st, ast.Expr) and isinstance(st.value, ast.Constant))]
    env = {'func': VObj(FUNC), 'func_codeobj': VPy(None), 'is_omit_boundmethod_arg_first': VPy(True), 'is_unwrap': VPy(True),
           'exception_cls': VPy(Exception), 'exception_prefix': VPy(''), '__nyield': VInt(z3.IntVal(0))}
    outs = ex.exec_block(body, St(tuple(env.items()), tuple(pre)))
    pr = discharge.Prover(uni.axioms())
    for ob in ex.obls:
        r = pr.prove(list(ob.pc), ob.goal)
        rep.add(f'{prefix}.{ob.kind}#{ob.name.rsplit(".", 1)[-1]}', r.status, time=r.time, backend=r.backend, where=ob.where, reason=r.reason)
    n = 0; feasible = 0
    for i, (kind, s, v) in enumerate(outs):
        if kind not in ('next', 'return'):
            rep.add(f'{prefix}.post.completion.path{i}', 'refuted', backend='structural', where=f'path ends with {kind} {v}'); continue
        n += 1
        r = pr.prove(list(s.pc), ex.as_int(s.get('__nyield')) == PF + vp + K + vk - om)
        rep.add(f'{prefix}.post.count.path{i}', r.status, time=r.time, backend=r.backend, reason=r.reason, where='exactly one triple per declared parameter')
        cz = pr.prove(list(s.pc), z3.BoolVal(False))
        if cz.status != 'proved': feasible += 1
    # vacuity guard: completing paths exist and are satisfiable (infeasible combinations that the cheap pruner left in are harmless)
    rep.add(f'{prefix}.canary.feasible_paths', 'proved' if feasible >= 8 else 'refuted', backend='structural', where=f'{feasible} of {n} completing paths have a satisfiable path condition')
    if not n or not nyields[0]: rep.error(f'{prefix}: no completing path / no yield seen')
    rep.functions.append('beartype/_util/func/arg/utilfuncargiter.py:iter_func_args (mode F: 5 loop invariants, ghost yield sequence; leading asserts dropped; bound methods: the first parameter is omitted)')
    rep.assumptions += ['iter_func_args: CPython code-object layout (co_varnames order, __defaults__ aligned to the end of the positional block, __kwdefaults__ by name) is the SPEC; get_func_args_lens / get_func_codeobject / unwrap_func_all_isomorphic are callee contracts; is_func_boundmethod is an abstract predicate']


def safe(rep):
    try: add(rep)
    except Exception: rep.error('C04 iter_func_args: ' + traceback.format_exc()[-2500:])
