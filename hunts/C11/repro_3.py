import sys, traceback, warnings
import beartype
from beartype.roar import BeartypeException, BeartypeWarning
assert beartype.__file__.startswith('/tmp/wt/hunt_C11'), beartype.__file__
BAD = []
def check(label, fn, user_excs=()):
    """Run fn(); flag anything other than a public beartype.roar exception (or an
    explicitly allowed user exception) and any non-beartype warning."""
    with warnings.catch_warnings(record=True) as w:
        warnings.simplefilter('always')
        try:
            fn(); print(f'[ok: no exception]   {label}')
        except user_excs as e:
            print(f'[ok: user exception] {label}: {type(e).__name__}')
        except BeartypeException as e:
            if type(e).__name__.startswith('_'):
                BAD.append(label)
                print(f'[VIOLATION private]  {label}: {type(e).__name__}: {str(e)[:140]!r}')
            else:
                print(f'[ok: beartype exc]   {label}: {type(e).__name__}')
        except BaseException as e:
            BAD.append(label)
            fr = traceback.extract_tb(e.__traceback__)[-1]
            print(f'[VIOLATION]          {label}: {type(e).__name__}: {str(e)[:140]} (raised at {fr.filename}:{fr.lineno})')
    for x in w:
        if not issubclass(x.category, BeartypeWarning):
            BAD.append(label)
            print(f'[VIOLATION warning]  {label}: {x.category.__name__}: {str(x.message)[:120]}')
def finish():
    print(f'{len(BAD)} violation(s)'); sys.exit(1 if BAD else 0)
# ---------------------------------------------------------------------------
# Finding 3: PEP-noncompliant tuple-union hints whose items are nested tuples, unhashable objects
# or bare typing special forms leak the TypeError raised by typing.Union.__getitem__().
import typing as T
from beartype import beartype
from beartype.door import is_bearable, die_if_unbearable
class Unhashable:
    __hash__ = None
for name, hint in [('((int,),)', ((int,),)), ('(int, (str, bytes))', (int, (str, bytes))), ('(int, [str])', (int, [str])),
                   ('(int, Unhashable())', (int, Unhashable())), ('(int, typing.Generic)', (int, T.Generic)),
                   ('(int, typing.ClassVar[int])', (int, T.ClassVar[int])), ('(int, typing.Optional)', (int, T.Optional)),
                   ('((),)', ((),))]:
    check(f'is_bearable(1, {name})', lambda: is_bearable(1, hint))
    check(f'die_if_unbearable(1, {name})', lambda: die_if_unbearable(1, hint))
    def decorate():
        def f(x): pass
        f.__annotations__['x'] = hint
        beartype(f)
    check(f'@beartype def f(x: {name})', decorate)
finish()
