# Finding 2: IsEqual[...] does not coerce the result of "==" to bool. When "=="
# returns a falsy non-bool (NumPy scalars/arrays, any class with a rich
# __eq__), the generated code rejects the object but the violation message
# cannot be produced: a private _BeartypeValeUtilException escapes instead.
import sys
import beartype
assert beartype.__file__.startswith('/tmp/wt/hunt_C12'), beartype.__file__
from typing import Annotated
from beartype import beartype as bt
from beartype.door import is_bearable, die_if_unbearable
from beartype.roar import BeartypeCallHintViolation, BeartypeDoorHintViolation
from beartype.vale import IsEqual, IsAttr, IsInstance

class Flag:
    '''Bool-like result of a rich comparison (think numpy.bool_).'''
    def __init__(self, v): self.v = v
    def __bool__(self): return self.v
    def __repr__(self): return f'Flag({self.v})'

class Qty:
    '''Value whose == returns a bool-like object rather than a bool.'''
    def __init__(self, n): self.n = n
    def __eq__(self, other): return Flag(isinstance(other, Qty) and other.n == self.n)
    __hash__ = None
    def __repr__(self): return f'Qty({self.n})'

bad = 0
cases = [('IsEqual[Qty(1)]', IsEqual[Qty(1)], Qty(2)),
         ('IsInstance[Qty] & IsEqual[Qty(1)]', IsInstance[Qty] & IsEqual[Qty(1)], Qty(2)),
         ('~IsEqual[Qty(1)]', ~IsEqual[Qty(1)], Qty(1))]
try:
    import numpy as np
    cases.append(('IsEqual[0] vs numpy.float32(1)', IsEqual[0], np.float32(1)))
    cases.append(('IsEqual[numpy.int64(3)] vs 4', IsEqual[np.int64(3)], 4))
except ImportError:
    pass

for name, V, obj in cases:
    H = Annotated[object, V]
    r_valid = V.is_valid(obj); r_code = is_bearable(obj, H)
    print(f'{name}: is_valid -> {r_valid!r} (truth {bool(r_valid)}), is_bearable -> {r_code!r} (truth {bool(r_code)})')
    assert not r_valid and not r_code   # boolean meaning: rejected
    try:
        die_if_unbearable(obj, H); print('  accepted?!'); bad += 1
    except BeartypeDoorHintViolation:
        print('  die_if_unbearable: violation (expected)')
    except Exception as e:
        print('  die_if_unbearable: BUG ->', type(e).__name__, str(e)[:160]); bad += 1
    @bt
    def f(x: H): return x
    try:
        f(obj); print('  accepted?!'); bad += 1
    except BeartypeCallHintViolation:
        print('  @beartype: violation (expected)')
    except Exception as e:
        print('  @beartype: BUG ->', type(e).__name__, str(e)[:160]); bad += 1
sys.exit(1 if bad else 0)
