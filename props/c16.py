"""C16 - hooked and unhooked bytecode caches never mix; cached bytecode is never stale.
What contracts can carry: a cache is correct only if its KEY determines its VALUE.
 (F) BeartypeSourceFileLoader.get_code (function mode): the global importlib._bootstrap_external.cache_from_source is patched
     exactly around the compilation of a HOOKED module and restored on every path (normal and exceptional); unhooked modules
     compile with it untouched.
 (F) the patched function (whatever get_code installs) passes the original cache_from_source the caller's optimization
     followed by a non-empty beartype marker: hooked and unhooked cache files differ.
 (S) key >= reads: everything the AST transformer reads from the configuration must flow into that marker.
Histories of interpreter runs and concurrent imports are not explored (the monkey-patch is global: see C15 assumptions)."""
import ast, os, sys, traceback, z3
from pyvc import report, REPO

def run(rep):
    from pyvc import funcmode, model as M, symx, discharge
    from pyvc.symx import Exec, St, VObj, VPy, VSuper, VPartial, VFStr, VDictRef, VSlice
    import importlib._bootstrap_external as be
    import beartype.claw._importlib._clawimpfileloader as mod, beartype.claw._importlib.clawimpcache as cmod
    import functools
    fobj, node, _ = funcmode.load('beartype/claw/_importlib/_clawimpfileloader.py', 'BeartypeSourceFileLoader.get_code')
    uni = M.Universe()
    from beartype import BeartypeConf
    uni.const(BeartypeConf)
    SELF = z3.Const('self', M.Obj); FULL = z3.Const('fullname', M.Obj); CONF = z3.Const('conf', M.Obj)
    calls = []
    def m_super_get_code(ex, s, f, args, kw, where):
        cur = s.hget(('global', be.__name__, 'cache_from_source'))
        # what the AST transformation will see while this compile runs: the loader's _module_conf and the registry entry written so far
        seen = (z3.Select(ex.field(s, '_module_conf'), SELF), tuple(e for e in s.effects if e[0] == 'setitem'), tuple(s.pc))
        ex.raised.append((s.ev('super_get_code', cur, 'raise', seen), VObj(M.fresh('compile_exc'))))
        return [(s.ev('super_get_code', cur, 'return', seen), VObj(M.fresh('codeobj')))]
    STALE = z3.Const('registry_entry_of_an_earlier_import', M.Obj)
    def m_setdefault(ex, s, f, args, kw, where):
        # dict.setdefault: the stored value if the key is present (an earlier import of the same module name under another configuration), else the default
        outs = []
        for s2, present in ex.fork(s, z3.Bool('registry_has_entry')):
            outs.append((s2, VObj(STALE)) if present else (s2.eff('setitem', ex.obj(f.self_), (ex.obj(args[0]), ex.obj(args[1]))), args[1]))
        return outs
    def m_match(ex, s, f, args, kw, where): return [(s, VObj(M.fresh('match')))]
    def m_conf(ex, s, f, args, kw, where):
        outs = []
        for s2, isnone in ex.fork(s, z3.Bool('unhooked')):
            outs.append((s2, VPy(None) if isnone else VObj(CONF)))
        return outs
    def m_partial(ex, s, f, args, kw, where): return [(s, VPartial(args[0], tuple(sorted(dict(kw).items()))))]
    def m_repr(ex, s, f, args, kw, where): return [(s, VObj(z3.Function('repr_of', M.Obj, M.Obj)(ex.obj(args[0]))))]
    def m_method(name):
        return lambda ex, s, f, args, kw, where: [(s, VObj(z3.Function(f'meth_{name}', M.Obj, M.Obj)(ex.obj(f.self_))))]
    from beartype.claw._package import clawpkgtrie
    cm = {'super.get_code': m_super_get_code, '.match': m_match, clawpkgtrie.get_package_conf_or_none: m_conf, functools.partial: m_partial, repr: m_repr,
          '.encode': m_method('encode'), '.hexdigest': m_method('hexdigest'), '.setdefault': m_setdefault}
    scope = dict(mod.__dict__); scope['claw_state'] = VObj(z3.Const('claw_state', M.Obj))
    # the interpreter's flags / environment are inputs, not constants of the checker's own process: -B, -O, ... are quantified over
    import sys as _sys, os as _os
    for k_, v_ in list(scope.items()):
        if v_ is _sys.flags: scope[k_] = VObj(z3.Const('sys_flags', M.Obj))
        elif v_ is _sys: scope[k_] = VObj(z3.Const('sys_module', M.Obj))
        elif v_ is _os.environ: scope[k_] = VObj(z3.Const('os_environ', M.Obj))
    ex = Exec(uni, scope, call_model=cm, name='get_code'); ex.fields_mode = True; ex.method_names = {'match', 'get_code', 'encode', 'hexdigest', 'get', 'setdefault'}; ex.fstr_eval_calls = True
    pre = (M.inst(CONF, uni.const(BeartypeConf)), CONF != uni.const(None))
    # the global at entry is ARBITRARY (another thread's hooked import may have its patch installed right now): restoring "what was there before" is
    # only right for nested use; the loader must leave the ORIGINAL function behind
    PRIOR = VObj(z3.Const('cache_from_source_at_entry', M.Obj))
    outs = ex.run_function(node, St((), pre).hset(('global', be.__name__, 'cache_from_source'), PRIOR), (VObj(SELF), VObj(FULL)), {}, fobj)
    outs = [('return', s, v) for s, v in outs] + [('raise', s, v) for s, v in ex.raised]
    prover = discharge.Prover(uni.axioms())
    for ob in ex.obls:
        r = prover.prove(list(ob.pc), ob.goal); rep.add(f'C16.get_code.{ob.kind}#{ob.name.rsplit(".", 1)[-1]}', r.status, time=r.time, backend=r.backend, where=ob.where)
    ORIG = cmod.cache_from_source_original
    installed = []
    nh = 0
    for pi, (kind, s, v) in enumerate(outs):
        evs = [e for e in s.events if e[0] in ('super_get_code', 'global_store')]
        sg = [e for e in evs if e[0] == 'super_get_code']
        final = s.hget(('global', be.__name__, 'cache_from_source'))
        stores = [e for e in evs if e[0] == 'global_store']
        tag = f'path{pi}'
        # restore: whatever happened, the global ends up being the original function (or was never touched)
        ok = (final is PRIOR and not stores) or (isinstance(final, VPy) and final.o is ORIG)      # untouched, or the original constant - never 'whatever was there'
        rep.add(f'C16.get_code.post.restore.{tag}', 'proved' if ok else 'refuted', backend='structural', where=f'completion {kind}: importlib._bootstrap_external.cache_from_source ends as ' + ('the original' if ok else repr(final)))
        if len(sg) != 1:
            rep.add(f'C16.get_code.post.one_compile.{tag}', 'refuted', backend='structural', where=f'{len(sg)} calls of SourceFileLoader.get_code'); continue
        during = sg[0][1]
        r = prover.prove(list(s.pc), z3.Bool('unhooked')); unhooked_path = r.status == 'proved'
        r = prover.prove(list(s.pc), z3.Not(z3.Bool('unhooked'))); hooked_path = r.status == 'proved'
        # a path that never asked (the blacklist of packages beartype never transforms) is an unhooked one
        if not hooked_path:
            ok = during is None or during is PRIOR or (isinstance(during, VPy) and during.o is ORIG)
            rep.add(f'C16.get_code.post.unhooked_compiles_unpatched.{tag}', 'proved' if (ok and not stores) else 'refuted', backend='structural', where='a module that is not hooked is compiled with the cache function untouched (unmarked cache file)')
        else:
            nh += 1
            ok = during is not None and during is not PRIOR and not (isinstance(during, VPy) and during.o is ORIG)
            rep.add(f'C16.get_code.post.hooked_compiles_patched.{tag}', 'proved' if ok else 'refuted', backend='structural', where='a hooked module is compiled while the beartype-specific cache function is installed (marked cache file)')
            if ok: installed.append((during, s))
            # the configuration the transformer reads during this compile IS the configuration the module is hooked under (and the marker is derived from)
            mc, setitems, pc_at = sg[0][3]
            r = prover.prove(list(pc_at) + [STALE != CONF], mc == CONF)
            rep.add(f'C16.get_code.post.transforms_under_the_hooking_conf.loader.{tag}', r.status, time=r.time, backend=r.backend, reason=r.reason,
                    where="during the compile self._module_conf is the configuration the module is hooked under - the one the cache-file marker is derived from (a stale one would be written under the other's marker)")
            reg = [e for e in setitems if 'module_name_to_beartype_conf' in str(e[1])]
            ok_reg = bool(reg) and reg[-1][2][0].eq(FULL) and reg[-1][2][1].eq(CONF)
            rep.add(f'C16.get_code.post.transforms_under_the_hooking_conf.registry.{tag}', 'proved' if ok_reg else 'refuted', backend='structural',
                    where='before the compile the registry entry claw_state.module_name_to_beartype_conf[fullname] is (re)written with that same configuration')
    if nh == 0: rep.error('C16: no hooked path through get_code was explored')
    # ---- the installed function: what `optimization` does it hand to the original cache_from_source?
    deps_all = []
    for during, s in installed[:1]:
        if isinstance(during, VPartial): func, bound = during.func, dict(during.kwargs)
        else: func, bound = during, {}
        fo = func.o if isinstance(func, VPy) else None
        if fo is None: rep.error('C16: cannot resolve the installed cache function'); break
        fnode = Exec.func_ast(Exec.__new__(Exec), fo)
        for case, kwitems in (('no_optimization', []), ('caller_optimization', [('optimization', VObj(z3.Const('caller_opt', M.Obj)))])):
            def m_orig(ex2, s2, f, args, kw, where):
                return [(s2.ev('orig_call', args, kw, s2), VObj(M.fresh('cache_path')))]
            ex2 = Exec(uni, dict(fo.__globals__), call_model={ORIG: m_orig}, name='cache_fn'); ex2.fstr_eval_calls = True
            s2, kwref = ex2.new_dict(s.with_env(()), kwitems)
            env = {fnode.args.vararg.arg: symx.VTup((VObj(z3.Const('path', M.Obj)),)), fnode.args.kwarg.arg: kwref}
            for ko, kd in zip(fnode.args.kwonlyargs, fnode.args.kw_defaults):
                env[ko.arg] = bound.get(ko.arg, ex2.eval(kd, St())[0][1] if kd is not None else None)
            res = ex2.exec_block(fnode.body, s2.with_env(tuple(env.items())))
            for qi, (k3, s3e, v3) in enumerate(res):
                seen = [e for e in s3e.events if e[0] == 'orig_call']
                if len(seen) != 1 or k3 != 'return':
                    rep.add(f'C16.cache_from_source.post.delegates_once.{case}.path{qi}', 'refuted', backend='structural', where=f'{len(seen)} calls of the original cache_from_source, completion {k3}'); continue
                _, args, kw, s3 = seen[0]
                kwd = None
                for k_, v_ in (kw if isinstance(kw, tuple) else tuple(kw.items())):
                    if k_ is None and isinstance(v_, VDictRef): kwd = dict(s3.hget(('dict', v_.rid), ()))
                opt = (kwd or {}).get('optimization')
                parts = list(opt.parts) if isinstance(opt, VFStr) else ([opt] if opt is not None else [])
                consts = [p.o for p in parts if isinstance(p, VPy) and isinstance(p.o, str)]
                marker_ok = any(c for c in consts if c)        # a non-empty constant part: the beartype marker
                rep.add(f'C16.cache_from_source.post.marker.{case}.path{qi}', 'proved' if marker_ok else 'refuted', backend='structural',
                        where=f'optimization passed on = {[getattr(p, "o", "<expr>") for p in parts]}: must contain a non-empty beartype marker, so that hooked and unhooked cache files differ')
                if case == 'caller_optimization':
                    first_ok = bool(parts) and isinstance(parts[0], VObj) and parts[0].t.eq(z3.Const('caller_opt', M.Obj))
                    rep.add(f'C16.cache_from_source.post.keeps_caller_optimization.path{qi}', 'proved' if first_ok else 'refuted', backend='structural', where="the caller's own optimization marker is kept (prefix)")
                deps = set()
                for p in parts:
                    if isinstance(p, (VObj, VSlice, VFStr)):
                        t = ex2.obj(p); deps |= conf_deps(t, CONF)
                deps_all.append(deps)
    return set.intersection(*deps_all) if deps_all else set()

def conf_deps(t, CONF):
    """which parts of the configuration does term t depend on: {'WHOLE'} if the configuration object itself flows in (repr/hash of it),
    or the names of the fields read"""
    out = set()
    def walk(x):
        if x.eq(CONF): out.add('WHOLE'); return
        if z3.is_app(x):
            if x.decl().name() == 'select' and x.num_args() == 2 and x.arg(1).eq(CONF):
                out.add(str(x.arg(0)).replace('H_', '')); return
            for c in x.children(): walk(c)
    walk(t)
    return out

def transformer_reads():
    """what the AST transformation reads from the configuration (resolved on the real ASTs of beartype/claw/_ast/**)"""
    reads = {}
    for root, ds, fs in os.walk(os.path.join(REPO, 'beartype/claw/_ast')):
        for f in fs:
            if not f.endswith('.py'): continue
            p = os.path.join(root, f); rel = os.path.relpath(p, REPO)
            t = ast.parse(open(p).read())
            parents = {}
            for n in ast.walk(t):
                for c in ast.iter_child_nodes(n): parents[c] = n
            for n in ast.walk(t):
                if isinstance(n, ast.Attribute) and n.attr == '_conf' and isinstance(n.value, ast.Name) and n.value.id == 'self' and isinstance(n.ctx, ast.Load):
                    par = parents.get(n)
                    if isinstance(par, ast.Attribute) and par.value is n: reads.setdefault(par.attr, []).append(f'{rel}:{n.lineno}')
                    elif isinstance(par, ast.FormattedValue) or (isinstance(par, ast.Call) and isinstance(par.func, ast.Name) and par.func.id == 'repr'): continue   # message text
                    else: reads.setdefault('WHOLE', []).append(f'{rel}:{n.lineno}')
    return reads

def replay_stale():
    import subprocess, tempfile, shutil
    td = tempfile.mkdtemp(prefix='c16_', dir='/dev/shm' if os.path.isdir('/dev/shm') else None)
    try:
        os.makedirs(os.path.join(td, 'pkgx')); open(os.path.join(td, 'pkgx', '__init__.py'), 'w').close()
        open(os.path.join(td, 'pkgx', 'mod.py'), 'w').write("x: int = 'not an int'\n")
        runpy = os.path.join(td, 'run.py')
        open(runpy, 'w').write(f"import sys\nsys.path.insert(0, {REPO!r}); sys.path.insert(0, {td!r})\nfrom beartype import BeartypeConf\nfrom beartype.claw import beartype_package\n"
                               "beartype_package('pkgx', conf=BeartypeConf(claw_is_pep526=(sys.argv[1] == '1')))\ntry:\n    import pkgx.mod\n    print('no-violation')\nexcept Exception as e:\n    print('violation', type(e).__name__)\n")
        env = {k: v for k, v in os.environ.items() if k != 'PYTHONDONTWRITEBYTECODE'}
        def go(flag): return subprocess.run([sys.executable, runpy, flag], capture_output=True, text=True, env=env, timeout=120).stdout.strip()
        fresh1 = go('1'); shutil.rmtree(os.path.join(td, 'pkgx', '__pycache__'), ignore_errors=True)
        a = go('0'); b = go('1')        # second run reuses (or not) the bytecode cached by the first under another configuration
        bad = b != fresh1
        detail = f'fresh run with claw_is_pep526=True: {fresh1!r}; after a run with claw_is_pep526=False ({a!r}) cached bytecode: {b!r}'
        return dict(replay=dict(kind='C16', reproduced=bad, detail=detail, tried=[dict(out=detail)]), replay_script=None)
    finally:
        shutil.rmtree(td, ignore_errors=True)

def transformer_state(rep):
    """key determines value also needs: the transformation of a module is a function of (source, configuration) - not of which modules the process
    compiled before.  The only process-wide object the AST transformer starts from is claw_state.node_scope_beforelist_global, shared copy-on-write:
    a scope makes it its own with permute() before the first write.  (F) BeartypeNodeScopeBeforelist.permute: it never modifies the beforelist it is called on and never
    returns it (a fresh object, whatever the state of the parent) - so nothing a module's transformation tracks can leak into the next module's."""
    from pyvc import funcmode, model as M, symx
    from pyvc.symx import Exec, St, VObj, VPy
    import beartype.claw._ast._scope.clawastscopebefore as mod
    fobj, node, _ = funcmode.load('beartype/claw/_ast/_scope/clawastscopebefore.py', 'BeartypeNodeScopeBeforelist.permute')
    uni = M.Universe(); SELF = z3.Const('parent_beforelist', M.Obj)
    def m_new(tag): return lambda ex, s, f, a, kw, w: [(s.ev('alloc', tag), VObj(M.fresh(tag)))]
    cm = {mod.BeartypeNodeScopeBeforelist: m_new('new_beforelist'), mod.ChainMap: m_new('chainmap'), '.new_child': m_new('child_map')}
    ex = Exec(uni, dict(mod.__dict__), call_model=cm, name='permute'); ex.fields_mode = True; ex.method_names = {'new_child'}
    try: outs = ex.run_function(node, St(), (VObj(SELF),), {}, fobj)
    except symx.Unsupported as e: rep.error(f'C16.transformer_state: unsupported: {e}'); return
    if not outs: rep.error('C16.transformer_state: no returning path'); return
    for i, (s_, v) in enumerate(outs):
        writes = [e for e in s_.effects if e[0] in ('setattr', 'setitem') and e[1] is not None and e[1].eq(SELF)]
        fresh = isinstance(v, VObj) and str(v.t).startswith('new_beforelist') and not v.t.eq(SELF)
        rep.add(f'C16.transformer.permute.frame.parent_unmodified.path{i}', 'proved' if not writes else 'refuted', backend='structural',
                where='permute() leaves the beforelist it is called on untouched' if not writes else f'permute() assigns {[e[2] for e in writes]} on the beforelist it is called on - for the process-wide root beforelist this leaks one module\'s imports into every later module\'s transformation')
        rep.add(f'C16.transformer.permute.post.returns_a_fresh_beforelist.path{i}', 'proved' if fresh else 'refuted', backend='structural', where=f'returns {v}')
    rep.functions.append('beartype/claw/_ast/_scope/clawastscopebefore.py:BeartypeNodeScopeBeforelist.permute (mode F: frame)')
    # copy-on-write: a scope shares its parent's (ultimately the process-wide) beforelist until permute_beforelist_if_needed() replaces it by a copy
    import beartype.claw._ast._scope.clawastscope as smod
    fobj, node, _ = funcmode.load('beartype/claw/_ast/_scope/clawastscope.py', 'BeartypeNodeScope.permute_beforelist_if_needed')
    SC = z3.Const('scope', M.Obj); uni.const(True); uni.const(False)
    def m_permute(ex, s, f, a, kw, w): return [(s.ev('permute', ex.obj(f.self_)), VObj(z3.Const('copy_of_beforelist', M.Obj)))]
    ex = Exec(uni, dict(smod.__dict__), call_model={'.permute': m_permute}, name='cow'); ex.fields_mode = True; ex.method_names = {'permute'}
    OLD = z3.Select(z3.Const('H_beforelist', z3.ArraySort(M.Obj, M.Obj)), SC); MUT = M.truthy(z3.Select(z3.Const('H__is_beforelist_mutable', z3.ArraySort(M.Obj, M.Obj)), SC))
    from pyvc import discharge
    pr = discharge.Prover(uni.axioms())
    outs = ex.run_function(node, St(), (VObj(SC),), {}, fobj)
    for i, (s_, v) in enumerate(outs):
        newb = z3.Select(ex.field(s_, 'beforelist'), SC); newm = M.truthy(z3.Select(ex.field(s_, '_is_beforelist_mutable'), SC))
        per = [e for e in s_.events if e[0] == 'permute']
        r = pr.prove(list(s_.pc), z3.And(newm, z3.If(MUT, newb == OLD, newb == z3.Const('copy_of_beforelist', M.Obj))))
        ok_per = (len(per) == 1 and per[0][1].eq(OLD)) or (len(per) == 0)
        rep.add(f'C16.transformer.copy_on_write.post.path{i}', r.status if ok_per else 'refuted', time=r.time, backend=r.backend, reason=r.reason,
                where='afterwards the scope owns its beforelist: the copy permute() made of the shared one (or the one it already owned), and is marked as owner')
    if not outs: rep.error('C16.transformer_state: permute_beforelist_if_needed has no returning path')
    # every store into a scope's beforelist in the AST package happens after permute_beforelist_if_needed() in the same function
    n_w = 0
    for root, ds, fs in os.walk(os.path.join(REPO, 'beartype/claw/_ast')):
        for f in sorted(fs):
            if not f.endswith('.py'): continue
            pth = os.path.join(root, f); rel = os.path.relpath(pth, REPO); tree = ast.parse(open(pth).read())
            for fn in [x for x in ast.walk(tree) if isinstance(x, (ast.FunctionDef, ast.AsyncFunctionDef))]:
                def through_beforelist(t):
                    return any(isinstance(x, ast.Attribute) and x.attr == 'beforelist' for x in ast.walk(t))
                stores = [t for st in ast.walk(fn) if isinstance(st, (ast.Assign, ast.AugAssign, ast.AnnAssign)) for t in (st.targets if isinstance(st, ast.Assign) else [st.target])
                          if isinstance(t, (ast.Subscript, ast.Attribute)) and through_beforelist(t.value)]
                muts = [c for c in ast.walk(fn) if isinstance(c, ast.Call) and isinstance(c.func, ast.Attribute) and c.func.attr in ('update', 'setdefault', 'pop', 'clear', 'append', 'add') and through_beforelist(c.func.value)]
                for t in stores + muts:
                    n_w += 1
                    guards = [c for st in fn.body for c in ast.walk(st) if isinstance(st, ast.Expr) and isinstance(c, ast.Call) and isinstance(c.func, ast.Attribute) and c.func.attr == 'permute_beforelist_if_needed' and st.lineno < t.lineno]
                    rep.add(f'C16.transformer.copy_on_write.write_after_copy.{fn.name}@{rel.split("/")[-1]}:{t.lineno}', 'proved' if guards else 'refuted', backend='structural',
                            where=f'{rel}:{t.lineno} writes through a scope\'s beforelist ' + (f'after permute_beforelist_if_needed() (line {guards[-1].lineno})' if guards else 'WITHOUT first making the beforelist its own: the write lands in the shared (process-wide) beforelist'))
    if not n_w: rep.error('C16.transformer_state: no write through a beforelist found in beartype/claw/_ast (extraction key no longer resolves)')

def loader_details(rep):
    """hooked runs never execute bytecode the source loader did not validate: the path hook hands importlib the STANDARD loader details with only the
    source loader replaced - same entries, same ORDER (importlib tries them in order: a sourceless `.pyc` loader placed before the source loader would run
    a stale legacy `mod.pyc` instead of the transformed `mod.py`).  Run-time contract on the real permuter, exhaustive over every ordering of the
    standard details with and without an extra entry (bounded in the length of the input only)."""
    import itertools, importlib.machinery as mach
    from importlib._bootstrap_external import _get_supported_file_loaders
    import beartype.claw._importlib._clawimpfilefinder as mod
    from beartype.claw._importlib._clawimpfileloader import BeartypeSourceFileLoader
    std = tuple(_get_supported_file_loaders())
    class ExtraLoader: pass
    bad = []; cases = 0
    for extra in ((), ((ExtraLoader, ['.xyz']),)):
        for perm in itertools.permutations(std + extra):
            cases += 1
            try: out = mod._permute_beartype_file_finder_loader_details(tuple(perm))
            except Exception as e: bad.append((perm, f'raised {type(e).__name__}: {e}')); continue
            want = tuple((BeartypeSourceFileLoader, ft) if ft == mach.SOURCE_SUFFIXES else (ld, ft) for ld, ft in perm)
            if tuple(out) != want: bad.append((perm, f'returned {[getattr(l, "__name__", l) for l, _ in out]}, expected {[getattr(l, "__name__", l) for l, _ in want]}'))
    rep.add('C16.path_hook.loader_details_keep_entries_and_order', 'proved' if not bad else 'refuted', backend='bounded-runtime', bounded=True,
            where=f'{cases} orderings of the standard loader details (+ an extra entry): ' + ('each returned with only the source loader replaced, order kept' if not bad else f'{len(bad)} differ, e.g. for {[getattr(l, "__name__", l) for l, _ in bad[0][0]]}: {bad[0][1]}'),
            **({} if not bad else dict(replay=dict(kind='C16', reproduced=True, detail=bad[0][1][:300]),
               replay_script="sys.path.insert(0, os.environ.get('VERIF_REPO', '/repo'))\nfrom importlib._bootstrap_external import _get_supported_file_loaders\nfrom beartype.claw._importlib._clawimpfilefinder import _permute_beartype_file_finder_loader_details as p\nstd = tuple(_get_supported_file_loaders()); out = p(std)\nprint([l.__name__ for l, _ in std]); print([l.__name__ for l, _ in out])\nsys.exit(1 if [ft for _, ft in out] != [ft for _, ft in std] else 0)\n")))
    rep.bounded.append(dict(kind='loader details permuter over all orderings of the standard details (exhaustive for inputs of that length; bounded stand-in, NOT counted as proved)', cases=cases, failing=len(bad)))

RUN_KINDS = [('unhooked', ''), ('hooked_pep526_on', ''), ('hooked_pep526_off', ''), ('unhooked', '-B'), ('hooked_pep526_on', '-B'), ('hooked_pep526_off', 'env'),
             ('rehook_off_then_on', ''), ('compile_legacy_pyc', '')]      # ONE process imports the module under one configuration, drops it from sys.modules and imports it again under another

def _history(args):
    """one history of interpreter runs over ONE module and ONE __pycache__; each run's observation is compared with the same run on an empty cache"""
    hist, repo = args
    import subprocess, tempfile, shutil
    td = tempfile.mkdtemp(prefix='c16h_', dir='/dev/shm' if os.path.isdir('/dev/shm') else None)
    try:
        os.makedirs(os.path.join(td, 'pkgx')); open(os.path.join(td, 'pkgx', '__init__.py'), 'w').close()
        open(os.path.join(td, 'pkgx', 'mod.py'), 'w').write("def twice(s: int) -> int:\n    return s + s\nx: int = 'not an int'\n")
        runpy = os.path.join(td, 'run.py')
        open(runpy, 'w').write(f"import sys\nsys.path.insert(0, {repo!r}); sys.path.insert(0, {td!r})\nkind = sys.argv[1]\n"
            f"if kind == 'compile_legacy_pyc':\n    import compileall\n    compileall.compile_dir({td!r} + '/pkgx', legacy=True, quiet=2, force=True)\n    print('compiled'); sys.exit(0)\n"
            "if kind == 'rehook_off_then_on':\n    from beartype import BeartypeConf\n    from beartype.claw import beartyping\n    with beartyping(conf=BeartypeConf(claw_is_pep526=False)):\n        try: import pkgx.mod\n        except Exception: pass\n    for n in [n for n in sys.modules if n.startswith('pkgx')]: del sys.modules[n]\n    from beartype.claw import beartype_package\n    beartype_package('pkgx', conf=BeartypeConf(claw_is_pep526=True))\n"
            "elif kind != 'unhooked':\n    from beartype import BeartypeConf\n    from beartype.claw import beartype_package\n    beartype_package('pkgx', conf=BeartypeConf(claw_is_pep526=(kind == 'hooked_pep526_on')))\n"
            "out = []\ntry:\n    import pkgx.mod as m\n    out.append('imported')\n    try: out.append(repr(m.twice('ab')))\n    except Exception as e: out.append(type(e).__name__)\nexcept Exception as e:\n    out.append('import-raises ' + type(e).__name__)\nprint(' '.join(out))\n")
        def go(kind, flag):
            env = {k: v for k, v in os.environ.items() if k != 'PYTHONDONTWRITEBYTECODE'}
            cmd = [sys.executable] + (['-B'] if flag == '-B' else []) + [runpy, kind]
            if flag == 'env': env['PYTHONDONTWRITEBYTECODE'] = '1'
            return subprocess.run(cmd, capture_output=True, text=True, env=env, timeout=120).stdout.strip()
        obs = []
        for i in hist:
            obs.append(go(*RUN_KINDS[i]))
        # reference: the LAST run on an empty cache
        shutil.rmtree(os.path.join(td, 'pkgx', '__pycache__'), ignore_errors=True)
        for fn_ in os.listdir(os.path.join(td, 'pkgx')):
            if fn_.endswith('.pyc'): os.unlink(os.path.join(td, 'pkgx', fn_))      # legacy-location bytecode too
        ref = go(*RUN_KINDS[hist[-1]])
        return hist, obs, ref
    finally:
        shutil.rmtree(td, ignore_errors=True)

def history_bounded(rep, tier, seed):
    """BOUNDED stand-in for the history part of the property: every sequence of <= N interpreter runs (unhooked / hooked under two
    configurations, each with and without -B / PYTHONDONTWRITEBYTECODE) over one module sharing one __pycache__; the last run must observe what
    it observes on an empty cache (labelled bounded: never counted as proved)"""
    import itertools, multiprocessing as mp
    n = 2 if tier == 'quick' else 3
    hists = [h for k in range(2, n + 1) for h in itertools.product(range(len(RUN_KINDS)), repeat=k)]
    with mp.Pool(min(16, os.cpu_count() or 4)) as pool:
        res = pool.map(_history, [(h, REPO) for h in hists], chunksize=2)
    bad = [(h, o, r) for h, o, r in res if o[-1] != r]
    # vacuity guard: the runs really ran (a broken harness script would make every observation the same empty string)
    allobs = {x for h, o, r in res for x in o + [r]}
    if '' in allobs or not any('Violation' in x for x in allobs) or not any(x.startswith('imported') for x in allobs):
        rep.error(f'C16 history: the interpreter runs did not produce the expected observations (harness defect): {sorted(allobs)[:4]}'); return
    for h, o, r in bad[:5]:
        names = [' '.join(x for x in RUN_KINDS[i] if x) for i in h]
        rep.add(f"C16.history.bounded[{' ; '.join(names)}]", 'refuted', backend='bounded-runtime', bounded=True,
                where=f'runs {names} observed {o}; the last run on an empty cache observes {r!r}',
                replay=dict(kind='C16H', reproduced=True, detail=f'history {names}: last run {o[-1]!r} vs fresh {r!r}', tried=[dict(out=o)]),
                replay_script=f"sys.path.insert(0, os.environ.get('VERIF_REPO', {REPO!r}))\nfrom props import c16\nh, o, r = c16._history(({tuple(h)!r}, os.environ.get('VERIF_REPO', {REPO!r})))\nprint('runs', {names!r}, 'observed', o, '; last run on an empty cache:', r)\nsys.exit(1 if o[-1] != r else 0)\n")
    rep.add('C16.history.bounded.all_histories', 'proved' if not bad else 'refuted', backend='bounded-runtime', bounded=True,
            where=f'{len(hists)} histories of <= {n} interpreter runs over {len(RUN_KINDS)} run kinds; {len(bad)} disagree with the empty-cache run')
    rep.bounded.append(dict(kind='histories of interpreter runs over one module sharing one __pycache__ (hooked/unhooked x configuration x -B / PYTHONDONTWRITEBYTECODE); bounded stand-in, NOT counted as proved', max_runs=n, run_kinds=len(RUN_KINDS), histories=len(hists), failing=len(bad)))

def main(tier, seed):
    rep = report.Report('C16', tier, seed, 'other', f'./check C16 --tier {tier}')
    try:
        deps = run(rep)
        try: loader_details(rep)
        except Exception: rep.error('C16 loader_details: ' + traceback.format_exc()[-1500:])
        try: transformer_state(rep)
        except Exception: rep.error('C16 transformer_state: ' + traceback.format_exc()[-1500:])
        try: history_bounded(rep, tier, seed)
        except Exception: rep.error('C16 history: ' + traceback.format_exc()[-1500:])
        reads = transformer_reads()
        need = set(reads)
        ok = ('WHOLE' in deps) or (need <= deps and 'WHOLE' not in need)
        extra = {}
        if not ok: extra = replay_stale()
        rep.add('C16.cache.key_covers_reads', 'proved' if ok else 'refuted', backend='structural',
                where=f'the AST transformation reads {sorted(need)} of the configuration ({sum(len(v) for v in reads.values())} sites, e.g. {[v[0] for v in reads.values()][:3]}); the cache-file marker depends on {sorted(deps) or "nothing of the configuration"}',
                solver_output='dependency set of the marker term (function-mode symbolic execution) vs read set of the transformer (AST resolution)', **extra)
        if not reads: rep.error('C16: the transformer reads nothing from the configuration (extraction key no longer resolves)')
    except Exception: rep.error('C16: ' + traceback.format_exc()[-2500:])
    files = ['beartype/claw/_importlib/_clawimpfileloader.py', 'beartype/claw/_importlib/clawimpcache.py', 'beartype/_data/claw/dataclawmagic.py']
    rep.functions = ['BeartypeSourceFileLoader.get_code (mode F)', 'the cache function installed by get_code (mode F)', 'beartype/claw/_ast/** (read set, structural)'] + [f'{p}@{report.src_hash(p)}' for p in files]
    rep.trusted = ['pyvc', "importlib.SourceFileLoader.get_code consults cache_from_source for the bytecode path and stores the source mtime/size in the file (stdlib contract)"]
    rep.assumptions = ['nothing is claimed about sequences of interpreter runs beyond "key determines value", nor about concurrent imports: the monkey-patch of importlib._bootstrap_external.cache_from_source is process-global (import lock assumed, see C15)',
                       'repr(conf) is stable across processes and identifies the configuration', 'source staleness (mtime/size) is the standard library\'s own check']
    rep.extra['explanation'] = 'function-mode obligations on get_code (patch exactly around hooked compiles, restored on every path) and on the installed cache function (marker), plus the functional-dependency obligation key >= reads'
    return rep.finish()
