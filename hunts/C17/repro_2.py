# is_pep484_tower=True silently discards a conflicting-but-falsy override
# (e.g. {float: None}) instead of raising the conflict exception it raises for
# every truthy conflicting override (e.g. {float: str}).
import sys
from beartype import BeartypeConf, FrozenDict, beartype
from beartype.roar import BeartypeConfParamException

# Truthy conflicting override: rejected (as documented in _confoverrides.py).
try:
    BeartypeConf(is_pep484_tower=True, hint_overrides=FrozenDict({float: str}))
    print('float->str : accepted')
except BeartypeConfParamException as e:
    print('float->str : rejected:', str(e)[:90])

# {float: None} is a perfectly working override on its own...
@beartype(conf=BeartypeConf(hint_overrides=FrozenDict({float: None})))
def f(x: float): return x
assert f(None) is None

# ...but, being falsy, is NOT detected as a conflict and is silently replaced.
passed = FrozenDict({float: None})
try:
    conf = BeartypeConf(is_pep484_tower=True, hint_overrides=passed)
except BeartypeConfParamException as e:
    print('float->None: rejected:', e); sys.exit(0)
print('float->None: accepted; hint_overrides reads back as', conf.hint_overrides)
print('override for float read back:', conf.hint_overrides[float], '(passed: None)')
sys.exit(1)
