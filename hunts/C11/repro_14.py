import sys, traceback, warnings
import beartype
from beartype.roar import BeartypeException, BeartypeWarning
assert beartype.__file__.startswith('/tmp/wt/hunt_C11'), beartype.__file__
BAD = []
def check(label, fn, user_excs=()):
    """Run fn(); flag anything other than a public beartype.roar exception (or an
    explicitly allowed user exception) and any non-beartype warning."""
    with warnings.catch_warnings(record=True) as w:
        warnings.simplefilter('always')
        try:
            fn(); print(f'[ok: no exception]   {label}')
        except user_excs as e:
            print(f'[ok: user exception] {label}: {type(e).__name__}')
        except BeartypeException as e:
            if type(e).__name__.startswith('_'):
                BAD.append(label)
                print(f'[VIOLATION private]  {label}: {type(e).__name__}: {str(e)[:140]!r}')
            else:
                print(f'[ok: beartype exc]   {label}: {type(e).__name__}')
        except BaseException as e:
            BAD.append(label)
            fr = traceback.extract_tb(e.__traceback__)[-1]
            print(f'[VIOLATION]          {label}: {type(e).__name__}: {str(e)[:140]} (raised at {fr.filename}:{fr.lineno})')
    for x in w:
        if not issubclass(x.category, BeartypeWarning):
            BAD.append(label)
            print(f'[VIOLATION warning]  {label}: {x.category.__name__}: {str(x.message)[:120]}')
def finish():
    print(f'{len(BAD)} violation(s)'); sys.exit(1 if BAD else 0)
# ---------------------------------------------------------------------------
# Finding 14 (object side, possibly outside the quantification): a unittest.mock.Mock(spec=list)
# passed where list[int] is expected leaks a bare TypeError from the generated checker
# (isinstance(mock, list) is True via __class__, then len(mock) fails).
import unittest.mock as um
from beartype import beartype
from beartype.door import is_bearable, die_if_unbearable
check('is_bearable(Mock(spec=list), list[int])', lambda: is_bearable(um.Mock(spec=list), list[int]))
check('die_if_unbearable(Mock(spec=dict), dict[str, int])', lambda: die_if_unbearable(um.Mock(spec=dict), dict[str, int]))
@beartype
def f(x: list[int]) -> None: pass
check('f(Mock(spec=list))', lambda: f(um.Mock(spec=list)))
check('is_bearable(Mock(spec=list), list)   (control)', lambda: is_bearable(um.Mock(spec=list), list))
finish()
