# Self-referential containers: inference terminates with a warning, but the
# inferred hint rejects the very container it was inferred from.
import re, warnings
from beartype.door import infer_hint, is_bearable

lst = []; lst.append(lst)
dct = {}; dct['self'] = dct
a = [1]; b = [a]; a.append(b)
bad = 0
for name, obj in (('lst=[lst]', lst), ('dct={"self": dct}', dct), ('mutual a/b', a),
                  ('re.IGNORECASE (a Flag member iterates over itself)', re.IGNORECASE)):
    with warnings.catch_warnings(record=True) as w:
        warnings.simplefilter('always')
        hint = infer_hint(obj)
    oks = {is_bearable(obj, hint) for _ in range(50)}
    print(f'{name}: warnings={len(w)} hint={hint!r} -> is_bearable in {oks}')
    bad += oks != {True}
raise SystemExit(1 if bad else 0)
