# typing hints DOOR has no wrapper for are silently wrapped as ClassTypeHint with origin `object`,
# i.e. they behave like `object` on the superhint side.
import sys
from typing import Final, ForwardRef, LiteralString, Never
from beartype.door import is_bearable, is_subhint, TypeHint
bad = 0
print('TypeHint(LiteralString) =', TypeHint(LiteralString), TypeHint(LiteralString)._origin)
for A, B, obj in ((int, LiteralString, 1), (list[int], list[LiteralString], [1]),
                  (str, Final[int], 'a'), (str, ForwardRef('int'), 'a')):
    sub, a, b = is_subhint(A, B), is_bearable(obj, A), is_bearable(obj, B)
    print(f'is_subhint({A}, {B}) = {sub}; {obj!r} satisfies sub: {a}; satisfies super: {b}')
    bad |= (sub and a and not b)
print('is_subhint(int, Never) =', is_subhint(int, Never), '(no object satisfies Never)')
sys.exit(1 if bad else 0)
