# Under the hook, an annotated function wrapped by a user decorator that returns
# a callable object is silently replaced by a bare method/function, losing the
# object's API: a module violating no hint fails to import.
import sys; sys.path.insert(0, '/tmp/wt/hunt_C05_scratch')
from _common import *

SRC = '''
class counted:
    def __init__(self, fn): self.fn = fn; self.calls = 0
    def __call__(self, *args): self.calls += 1; return self.fn(*args)
    def reset(self): self.calls = 0

@counted
def square(x: int) -> int:
    return x * x

square(3)
square.reset()
kind = type(square).__name__
'''
print('unhooked: square is a', import_plain(SRC).kind)
try:
    print('hooked  : square is a', import_hooked(SRC).kind)
except Exception as e:
    print('hooked  : import raised', type(e).__name__, e)
    sys.exit(1)
