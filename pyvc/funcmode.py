"""Mode (F): ordinary functions of the working tree, located by (path, qualname), executed symbolically statement by
statement by pyvc.symx; callees are either inlined from their real source (small helpers in the repository) or
replaced by a sidecar contract (call model).  Nothing is copied: the AST is re-read from $VERIF_REPO on every run."""
import ast, importlib, inspect, os, sys
from . import REPO, use_repo
from .symx import Exec, St, VObj, VPy, Unsupported

def load(relpath, qualname):
    """-> (function object, ast node, module)"""
    use_repo()
    modname = relpath[:-3].replace('/', '.')
    mod = importlib.import_module(modname)
    obj = mod
    for part in qualname.split('.'):
        obj = inspect.getattr_static(obj, part) if not inspect.ismodule(obj) else getattr(obj, part)
    if isinstance(obj, property): obj = obj.fget
    if isinstance(obj, (staticmethod, classmethod)): obj = obj.__func__
    obj = inspect.unwrap(obj) if hasattr(obj, '__wrapped__') else obj
    fn = os.path.abspath(obj.__code__.co_filename)
    assert fn.startswith(REPO + os.sep), f'{qualname} resolves outside the working tree: {fn}'
    node = Exec.func_ast(Exec.__new__(Exec), obj)
    return obj, node, mod

def source_of(relpath, qualname):
    obj, node, mod = load(relpath, qualname)
    return ast.unparse(node)
