"""Verdicts, VIOLATION / KNOWN-FINDING lines, replay files, evidence (DESIGN 2.4, 2.5, 2.8, appendix D).

Exit codes: 0 all obligations discharged (bounded parts explored without counterexample) / 1 at least one obligation
refuted and reported as VIOLATION / 2 something undecided, nothing refuted / 3 checker error."""
import json, os, re, sys, time, hashlib
from . import VERIF, REPO

KNOWN_PATH = os.path.join(VERIF, 'known_findings.json')

def load_known():
    try: return json.load(open(KNOWN_PATH))
    except FileNotFoundError: return {'findings': [], 'fixed': []}

def src_hash(relpath):
    try: return hashlib.sha256(open(os.path.join(REPO, relpath), 'rb').read()).hexdigest()[:12]
    except OSError: return 'missing'

class Report:
    def __init__(self, prop, tier, seed, level, checker_cmd):
        self.prop, self.tier, self.seed, self.level, self.cmd = prop, tier, seed, level, checker_cmd
        self.t0 = time.time()
        self.obls = []          # dict(name, status, kind, time, backend, replay, solver_output, where, bounded)
        self.errors = []        # checker errors (exit 3)
        self.assumptions = []; self.trusted = []; self.functions = []; self.dropped = []
        self.bounded = []       # list of dicts describing bounded stand-ins
        self.extra = {}
        self.known = load_known()
        self.samples = []
    # ------------------------------------------------------------------
    def add(self, name, status, **kw):
        d = dict(name=name, status=status); d.update(kw); self.obls.append(d)
    def error(self, msg): self.errors.append(msg)
    def match_known(self, o):
        for f in self.known.get('findings', []):
            if f.get('property') != self.prop: continue
            if re.search(f['obligation'], o['name']): return f
        return None
    # ------------------------------------------------------------------
    def finish(self):
        replay_dir = os.environ.get('VERIF_REPLAY_DIR') or os.path.join(VERIF, 'replays'); os.makedirs(replay_dir, exist_ok=True)
        refuted = [o for o in self.obls if o['status'] == 'refuted']
        undec = [o for o in self.obls if o['status'] == 'undecided']
        proved = [o for o in self.obls if o['status'] == 'proved']
        known_hit = {}; violations = []
        for o in refuted:
            f = self.match_known(o)
            if f is not None: known_hit.setdefault(f['id'], (f, []))[1].append(o)
            else: violations.append(o)
        for fid, (f, os_) in known_hit.items():
            print(f"KNOWN-FINDING: property={self.prop} {f['what']} [{len(os_)} obligation(s), e.g. {os_[0]['name']}]")
        for f in self.known.get('findings', []):
            if f.get('property') == self.prop and f['id'] not in known_hit:
                print(f"note: known finding {f['id']} did not reproduce in this run (not counted either way)")
        # group violations by (target) to keep the output readable: one VIOLATION line per failed obligation, capped per target
        printed = 0
        # reproduced failures first; at most 60 VIOLATION lines are printed (all are counted in the evidence)
        violations.sort(key=lambda o: 0 if (o.get('replay') or {}).get('reproduced') else 1)
        if len(violations) > 60: print(f"note: {len(violations)} refuted obligations; printing the first 60")
        for o in violations[:60]:
            path = self.write_replay(o, replay_dir)
            rp = o.get('replay') or {}
            suffix = '' if rp.get('reproduced') else ' no-failing-input-found'
            print(f"VIOLATION property={self.prop} replay={path}{suffix}")
            print(f"  obligation: {o['name']}" + (f"  -- {rp.get('detail')}" if rp.get('detail') else '') + (f"  [{o.get('where')}]" if o.get('where') else ''))
            printed += 1
        # obligations of a SAMPLED composed shape (bounded part) that the solver leaves open within its budget are NOT part of what this run
        # claims: they are listed under undecided_in_bounded_sample / skipped_bounded_samples and left out of the obligation count
        counted = [o for o in self.obls if not (o['status'] == 'refuted' and self.match_known(o)) and not (o['status'] == 'undecided' and o.get('bounded'))]
        ev = {
            'property_id': self.prop, 'tier': self.tier, 'seed': self.seed, 'level': self.level,
            'coverage': {
                'obligations': len(counted), 'discharged': len(proved),
                'refuted': len(violations), 'undecided': len([o for o in undec if not o.get('bounded')]), 'skipped_bounded_samples': len([o for o in undec if o.get('bounded')]), 'undecided_in_bounded_sample': [o['name'] for o in undec if o.get('bounded')][:50], 'known_findings_refuted': len(refuted) - len(violations),
                'checker_cmd': self.cmd,
                'trusted_base': self.trusted,
                'functions_under_contract': self.functions,
                'backends': self.backend_counts(),
                'solver_time_s': round(sum(o.get('time', 0) or 0 for o in self.obls), 3),
                'bounded': self.bounded,
                'extraction_dropped': sorted(set(self.dropped)),
                'samples': self.samples[:12] or [{k: o.get(k) for k in ('name', 'status', 'backend', 'time')} for o in self.obls[:12]],
                'explanation': self.extra.get('explanation', ''),
            },
            'assumptions': self.assumptions,
            'violations': len(violations),
            'wall_s': round(time.time() - self.t0, 2),
        }
        ev['coverage'].update({k: v for k, v in self.extra.items() if k != 'explanation'})
        if self.level != 'proof' or True:
            # generic keys are always measured too
            ev['coverage']['evaluations'] = len(self.obls)
            ev['coverage']['distinct_nontrivial'] = len({o['name'] for o in self.obls})
            ev['coverage']['rule'] = 'one evaluation = one solver query (or structural obligation); distinct by obligation name'
        evdir = os.environ.get('VERIF_EVIDENCE_DIR') or os.path.join(VERIF, 'evidence'); os.makedirs(evdir, exist_ok=True)
        with open(os.path.join(evdir, f'{self.prop}.json'), 'w') as f: json.dump(ev, f, indent=1, default=str)
        print(f"[{self.prop}] obligations={len(counted)} discharged={len(proved)} refuted={len(violations)} undecided={len([o for o in undec if not o.get('bounded')])} skipped={len([o for o in undec if o.get('bounded')])} "
              f"known={len(refuted) - len(violations)} errors={len(self.errors)} wall={ev['wall_s']}s")
        for e in self.errors[:20]: print('CHECKER-ERROR:', e[:900])
        if violations: return 1
        if self.errors: return 3
        if len(counted) == 0:
            print('CHECKER-ERROR: zero obligations generated'); return 3
        # an obligation of a SAMPLED composed shape (bounded part, never counted as proved) that stays open after the retry is reported as
        # not explored; an open obligation of the unbounded part (node lemmas, function-mode targets) makes the whole check undecided
        hard = [o for o in undec if not o.get('bounded')]
        for o in [o for o in undec if o.get('bounded')][:20]: print('SKIPPED-UNDECIDED (bounded sample, solver budget):', o['name'], o.get('reason', ''))
        if hard:
            for o in hard[:20]: print('UNDECIDED:', o['name'], o.get('reason', ''))
            return 2
        return 0
    def backend_counts(self):
        c = {}
        for o in self.obls:
            b = o.get('backend') or 'structural'; c[b] = c.get(b, 0) + 1
        return c
    def write_replay(self, o, replay_dir):
        safe = re.sub(r'[^A-Za-z0-9_.-]+', '_', o['name'])[:150]
        path = os.path.join(replay_dir, f'{self.prop}-{safe}.py')
        rp = o.get('replay') or {}
        body = o.get('replay_script')
        with open(path, 'w') as f:
            f.write(f'#!/verif/.venv/bin/python\n"""Replay for a refuted obligation.\nproperty: {self.prop}\nobligation: {o["name"]}\n'
                    f'where: {o.get("where", "")}\nsolver output: {o.get("solver_output", "")}\nreproduced on the real code: {bool(rp.get("reproduced"))}\n'
                    f'detail: {rp.get("detail", "")}\nattempts: {json.dumps(rp.get("tried", []), default=str)[:3000]}\n"""\n')
            f.write('import os, sys\nsys.path.insert(0, %r)\n' % VERIF)
            if body: f.write(body)
            elif rp.get('reproduced') and rp.get('kind'):
                f.write('from pyvc import replaylib\n')
                f.write(f'ok, detail = replaylib.replay_gen({rp["kind"]!r}, {o.get("shape")!r}, {o.get("conf")!r}, {rp["obj"]!r}, {rp["r"]!r}, {rp.get("extra")!r})\n')
                f.write('print("REPRODUCED" if ok else "not reproduced", detail)\nsys.exit(1 if ok else 0)\n')
            else:
                f.write('print("no failing input was found for this obligation; see the docstring for the solver output")\nsys.exit(2)\n')
        return path
