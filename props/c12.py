"""C12 - validator algebra: for every validator of the palette (node shapes = operators over ABSTRACT operands Is[f_k],
plus nested compositions), the REAL is_valid callable (lambda / nested def / closure taken from the working tree's
source by code object), the REAL code string (is_valid_code formatted with an identifier, evaluated under the real
is_valid_code_locals) and the boolean meaning taken from the property text coincide for ALL objects."""
import ast, itertools, os, sys, time, z3, multiprocessing as mp, traceback
from pyvc import report

ATOMS = ['IS(f1)', 'IS(f2)', 'ISEQ(5)', "ISEQ('a')", 'ISINST(L0)', 'ISINST(L0, int)', 'ISSUB(L0)', 'ISSUB(L0, L1)', 'ISEQ(NAN)', 'ISEQ(NEQ)']
def palette(tier, seed):
    import random
    rnd = random.Random(seed)
    A = list(ATOMS)
    node = []
    # induction step: each operator over abstract operands
    for a, b in (('IS(f1)', 'IS(f2)'), ('IS(f1)', 'ISEQ(5)'), ('ISINST(L0)', 'ISSUB(L1)')):
        node += [f'AND({a}, {b})', f'OR({a}, {b})']
    node += [f'NOT({a})' for a in A] + [f"ISATTR('x', {a})" for a in A] + A
    d1 = [f'AND({a}, {b})' for a in A[:4] for b in A[2:6]] + [f'OR({a}, {b})' for a in A[:4] for b in A[2:6]] + [f'NOT({a})' for a in A] + [f"ISATTR('x', {a})" for a in A]
    comp = []
    def gen(d):
        if d == 0: return rnd.choice(A)
        k = rnd.random()
        if k < 0.3: return f'AND({gen(d-1)}, {gen(rnd.randrange(d))})'
        if k < 0.6: return f'OR({gen(rnd.randrange(d))}, {gen(d-1)})'
        if k < 0.75: return f'NOT({gen(d-1)})'
        return f"ISATTR('{rnd.choice('xy')}', {gen(d-1)})"
    n = 60 if tier == 'quick' else 600
    for d in (2, 3, 4):
        for _ in range(n // (d - 1)): comp.append(gen(d))
    # explicit corner cases: same-name nested IsAttr with a sibling still reading the outer attribute value
    # two IsEqual validators whose operands compare (and hash) equal but are different objects of different types
    comp += ['AND(ISEQ(1), ISEQ(True))', 'OR(ISEQ(1), NOT(ISEQ(True)))']
    comp += ["ISATTR('x', AND(ISATTR('x', ISEQ(5)), ISINST(L0)))", "ISATTR('x', AND(ISATTR('x', ISATTR('y', ISEQ(5))), ISATTR('y', ISEQ('a'))))",
             "OR(ISATTR('x', ISEQ(5)), ISATTR('x', ISEQ('a')))", "AND(NOT(ISATTR('x', IS(f1))), ISATTR('x', IS(f2)))",
             "NOT(ISATTR('x', OR(ISATTR('x', IS(f1)), IS(f2))))"]
    out = []; seen = set()
    for kind, lst in (('node', node), ('depth1', d1), ('composed', comp)):
        for v in lst:
            if v not in seen: seen.add(v); out.append((v, kind))
    return out

def _worker(task):
    vsrc, kind = task
    rec = dict(v=vsrc, kind=kind, obligations=[], error=None)
    try:
        from pyvc import shapes, model as M, symx, gencheck, discharge
        from pyvc.spec import Spec, VDESC
        from pyvc.symx import VObj, St, Exec
        NS = shapes.NS
        if 'f1' not in NS:
            def f1(o): return bool(o)
            def f2(o): return isinstance(o, int)
            NS['f1'] = f1; NS['f2'] = f2
        v = shapes.ev(vsrc)
        uni = M.Universe()
        import collections.abc as cabc
        for c in (cabc.Sized, cabc.Collection, cabc.Sequence, cabc.Mapping, cabc.Iterable): uni.const(c)
        sp = Spec(uni); x = z3.Const('x', M.Obj)
        meaning = sp.vmeaning(v, x)
        def run(label, thunk):
            ex = Exec(uni, {}, name=label)
            try: outs = thunk(ex)
            except symx.Unsupported as e:
                rec['error'] = f'{label}: unsupported: {e}'; return
            axioms = uni.axioms(); prover = discharge.Prover(axioms)
            cz = prover.prove([], z3.BoolVal(False))
            if cz.status == 'proved': rec['error'] = f'{label}: vacuity guard: the axioms of this universe are contradictory'; return
            for ob in ex.obls:
                r = prover.prove(list(ob.pc), ob.goal)
                rec['obligations'].append(dict(name=f'{label}.{ob.kind}#{ob.name.rsplit(".", 1)[-1]}', status=r.status, time=r.time, backend=r.backend, where=ob.where,
                                               solver_output=f'{r.backend}: {r.status}'))
            for i, (s, val) in enumerate(outs):
                r = prover.prove(list(s.pc), ex.truth(val) == meaning)
                o = dict(name=f'{label}.post.path{i}', status=r.status, time=r.time, backend=r.backend, solver_output=f'{r.backend}: {r.status}')
                if r.status == 'refuted': o['replay'] = replay(vsrc, label, r, uni, x)
                rec['obligations'].append(o)
            # raising paths: only the documented BeartypeValeValidationException for a non-bool-like user result
            for s, e in ex.raised:
                ok = isinstance(e, symx.VExc) and e.cls.__name__ == 'BeartypeValeValidationException'
                rec['obligations'].append(dict(name=f'{label}.raises.{len(rec["obligations"])}', status='proved' if ok else 'refuted', time=0, backend='structural',
                                               where=f'raise of {getattr(e, "cls", e)}', solver_output='raise site class resolved on the real AST'))
        # (1) the real is_valid callable
        def t1(ex):
            return ex.call(St(), symx.VPy(v.is_valid), (VObj(x),), {}, 'is_valid(x)')
        run('is_valid', t1)
        # (2) the real code string under the real locals
        code = v._is_valid_code.format(obj='__beartype_pith_0', indent='')
        tree = ast.parse(code.strip(), mode='eval').body
        def t2(ex):
            ex.scope = dict(v._is_valid_code_locals)
            ex.call_model = gencheck.qualname_models(ex.scope, z3.Int('r'))
            # inside generated code the Is[...] closure is the same object as is_valid's: verified body, so inline it here too
            ex.call_model = {}
            return ex.eval(tree, St((('__beartype_pith_0', VObj(x)),)))
        run('code', t2)
        # (3) closedness: formatting with another identifier renames exactly the temporaries (no capture between validators)
        tr = ast.parse(code.strip(), mode='eval')
        assigned = {n.target.id for n in ast.walk(tr) if isinstance(n, ast.NamedExpr)}
        import builtins as _b
        free = sorted({n.id for n in ast.walk(tr) if isinstance(n, ast.Name) and isinstance(n.ctx, ast.Load)} - assigned - set(v._is_valid_code_locals) - {'__beartype_pith_0'} - set(dir(_b)))
        rec['obligations'].append(dict(name='code.closed', status='proved' if not free else 'refuted', time=0, backend='structural',
                                       where=f'free names {free}', solver_output='every name read by the real code string is the subject, a key of the real locals, a builtin or a walrus target of the same string (assignment-before-read is the solver-checked defined.name obligation)'))
    except Exception:
        rec['error'] = 'crash: ' + traceback.format_exc()[-1200:]
    return rec

def replay(vsrc, label, res, uni, x):
    from pyvc import concretise, shapes
    out = dict(kind='C12', reproduced=False, tried=[])
    try:
        for b, m in concretise.resolve_small(res, bounds=(2, None)):
            obj_src = concretise.Concretiser(m, uni).build(x)
            ok, detail = replay_c12(vsrc, obj_src)
            out['tried'].append(dict(obj=obj_src, reproduced=ok, detail=detail))
            if ok: out.update(reproduced=True, obj=obj_src, detail=detail); break
    except Exception as e: out['error'] = str(e)[:200]
    return out

def replay_c12(vsrc, obj_src):
    """is_valid, the generated code (through is_bearable on Annotated[object, V]) and the boolean meaning must agree on obj"""
    from pyvc import shapes, replaylib
    from beartype.door import is_bearable
    from typing import Annotated
    v = shapes.ev(vsrc); o = eval(obj_src, shapes.NS)
    want = replaylib.vmeaning_c(v, o)
    try: a = bool(v.is_valid(o))
    except Exception as e: a = f'raise {type(e).__name__}'
    try: b = bool(is_bearable(o, Annotated[object, v]))
    except Exception as e: b = f'raise {type(e).__name__}'
    if a != want or b != want: return True, f'obj={obj_src}: meaning={want} is_valid={a} generated code={b}'
    return False, 'agree'

CONTEXTS = ['Annotated[object, {V}]', 'list[Annotated[object, {V}]]', 'list[Union[Annotated[object, {V}], list[str]]]', 'tuple[Union[Annotated[Any, {V}], list[str]], ...]',
            'dict[str, Union[list[str], Annotated[object, {V}]]]', 'Union[Annotated[int, {V}], list[Annotated[object, {V}]]]', 'list[Annotated[int, {V}]]', 'tuple[int, Annotated[object, {V}]]']
CONTEXT_VALIDATORS = ['ISEQ(5)', 'IS(f1)', 'ISINST(L0)', "ISATTR('x', ISEQ(1))", 'ISEQ(5), IS(gt3)', 'AND(ISEQ(5), IS(f1))', 'NOT(AND(ISEQ(5), IS(f1)))', "ISATTR('x', ISEQ(1)), ISEQ(5)"]
def _ctx_worker(task):
    hint_src, = task
    try:
        from pyvc import shapes, gencheck
        NS = shapes.NS
        if 'f1' not in NS:
            def f1(o): return bool(o)
            def f2(o): return isinstance(o, int)
            NS['f1'] = f1; NS['f2'] = f2
        from pyvc.spec import VDESC
        return gencheck.shape_obligations(hint_src, 'BeartypeConf()', want=('C01', 'C02'))
    except Exception:
        return dict(shape=hint_src, error='crash: ' + traceback.format_exc()[-1200:], obligations=[])

def contexts(rep, tier):
    """the code string of a validator is EMBEDDED by the generator with whatever expression denotes the object at that position (a name at the
    root, an assignment expression under containers / unions).  For a palette of validators x embedding positions: the captured checker accepts
    exactly what the meaning of `Annotated[T, V...]` prescribes (conforms => accepted, must-reject => rejected) - the validator's verdict does
    not depend on where its code is spliced."""
    T = [(c.format(V=v),) for c in (CONTEXTS if tier != 'quick' else CONTEXTS[:6]) for v in CONTEXT_VALIDATORS]
    from pyvc import shapes
    T = [t for t in T if shapes.valid(t[0])]
    with mp.get_context('fork').Pool(int(os.environ.get('VERIF_PROCS', '16')), maxtasksperchild=20) as pool:
        recs = pool.map(_ctx_worker, T, chunksize=2)
    n = 0
    for (hint_src,), rec in zip(T, recs):
        tag = f'C12.context[{hint_src}]'
        if rec.get('error') and 'generator raised' in rec['error']:
            # a checker that cannot even be generated for a supported hint is a violation (the validator's code does not survive the embedding), not a checker error
            rep.add(f'{tag}.generates', 'refuted', backend='structural', where=rec['error'][:400], bounded=True, replay=dict(kind='C12', reproduced=True, detail=rec['error'][:300]),
                    replay_script=f"from pyvc import shapes\nfrom props import c12\nfrom beartype.door import is_bearable\nshapes.NS.setdefault('f1', bool); shapes.NS.setdefault('f2', bool)\ntry: is_bearable(None, shapes.ev({hint_src!r})); sys.exit(0)\nexcept Exception as e: print('REPRODUCED', type(e).__name__, str(e)[:300]); sys.exit(1)\n"); n += 1; continue
        if rec.get('error'): rep.error(f'{tag}: {rec["error"]}'); continue
        for o in rec['obligations']:
            if o.get('kind') == 'vacuity': continue
            n += 1; rp = o.get('replay'); script = None
            if rp and rp.get('reproduced') and rp.get('kind'):
                script = (f'from pyvc import replaylib\nok, detail = replaylib.replay_gen({rp["kind"]!r}, {hint_src!r}, "BeartypeConf()", {rp["obj"]!r}, {rp["r"]!r}, {rp.get("extra")!r})\n'
                          'print("REPRODUCED" if ok else "not reproduced", detail)\nsys.exit(1 if ok else 0)\n')
            rep.add(f'{tag}.{o["name"]}', o['status'], time=o.get('time'), backend=o.get('backend'), where=o.get('where'), replay=rp, solver_output=o.get('solver_output'), replay_script=script, bounded=True, reason=o.get('reason'))
    if not n: rep.error('C12 contexts: no obligation')
    rep.bounded.append(dict(kind='validators embedded at several positions of a hint (root, container item, member of a nested union, mapping value): captured checker vs meaning, each for all objects', hints=len(T)))

GUARDED = ['AND(IS(nonempty), IS(firstpos))', 'AND(IS(nonempty), NOT(IS(firstpos)))', 'AND(IS(nonempty), OR(IS(firstpos), ISEQ(5)))', 'OR(NOT(IS(nonempty)), IS(firstpos))',
           'AND(IS(nonempty), NOT(NOT(IS(firstpos))))', "AND(AND(IS(nonempty), ISATTR('__class__', NOT(ISEQ(5)))), NOT(IS(firstpos)))", 'NOT(OR(NOT(IS(nonempty)), IS(firstpos)))',
           # a disjunction whose second operand is only defined when the first FAILS, inside a conjunction that rejects for another reason
           'AND(OR(NOT(IS(nonempty)), IS(firstpos)), ISEQ(5))', 'AND(ISEQ(5), OR(NOT(IS(nonempty)), IS(firstpos)))', 'NOT(AND(OR(NOT(IS(nonempty)), IS(firstpos)), NOT(ISEQ(5))))']
def diagnosis(rep):
    """bounded (NOT counted as proved): "the verdict reported in the violation message": for composite validators whose later operand is only
    defined behind an earlier one (short-circuit meaning of & | ~), the rejection of an object is REPORTED (a violation with a message) - the
    describer evaluates the operands with the same short-circuiting as is_valid and the generated code, at every nesting of ~"""
    from pyvc import shapes
    from beartype.door import is_bearable, die_if_unbearable
    from beartype import beartype
    from beartype.roar import BeartypeDoorHintViolation, BeartypeCallHintParamViolation
    cases = 0; fails = []
    for vsrc in GUARDED:
        try: hint = shapes.ev(f'Annotated[list, {vsrc}]')
        except Exception as e: rep.error(f'C12 diagnosis: {vsrc}: {e}'); continue
        ns = dict(H=hint); exec('def f(p0: H): return p0', ns); g = beartype(ns['f'])
        for osrc in ('[]', '[1]', '[-1]', '[0, 1]', "['a']"):
            o = eval(osrc); cases += 1
            try: ok = is_bearable(o, hint)
            except Exception as e: fails.append((vsrc, osrc, f'is_bearable raised {type(e).__name__}')); continue
            for label, call, V in (('die_if_unbearable', lambda: die_if_unbearable(o, hint), BeartypeDoorHintViolation), ('parameter', lambda: g(o), BeartypeCallHintParamViolation)):
                try: call(); got = 'accepted'
                except V as e: got = 'violation' if str(e) else 'violation without message'
                except Exception as e: got = f'{type(e).__name__}: {e}'[:80]
                if got != ('accepted' if ok else 'violation'): fails.append((vsrc, osrc, f'{label}: is_bearable is {ok} but {got}'))
    groups = {}
    for f in fails: groups.setdefault(f[2].split(':')[0] + '.' + f[2].split('but ')[-1].split(':')[0].replace(' ', '_')[:30], []).append(f)
    for sig, items in sorted(groups.items()):
        f = items[0]
        rep.add(f'C12.diagnosis.bounded.{sig}', 'refuted', backend='runtime-contract', bounded=True, where=f'{len(items)} cases; e.g. Annotated[list, {f[0]}] on {f[1]}: {f[2]}', solver_output='bounded run-time contract on the real API (not a proof)',
                replay=dict(kind='C12', reproduced=True, detail=f'{f[0]} on {f[1]}: {f[2]}'),
                replay_script=f"from pyvc import shapes\nfrom beartype.door import die_if_unbearable\nfrom beartype.roar import BeartypeException\ntry: die_if_unbearable({f[1]}, shapes.ev('Annotated[list, ' + {f[0]!r} + ']')); sys.exit(0)\nexcept BeartypeException: sys.exit(0)\nexcept Exception as e: print('REPRODUCED', type(e).__name__, e); sys.exit(1)\n")
    rep.bounded.append(dict(kind='violation reports of guarded composite validators (bounded stand-in, NOT counted as proved)', validators=len(GUARDED), cases=cases, failing=len(fails)))
    if not cases: rep.error('C12 diagnosis: no case')

def main(tier, seed):
    rep = report.Report('C12', tier, seed, 'proof', f'./check C12 --tier {tier}')
    T = palette(tier, seed)
    with mp.get_context('fork').Pool(int(os.environ.get('VERIF_PROCS', '16')), maxtasksperchild=30) as pool:
        recs = pool.map(_worker, T, chunksize=2)
    kinds = {}
    for rec in recs:
        kinds[rec['kind']] = kinds.get(rec['kind'], 0) + 1
        tag = f'C12.vale[{rec["v"]}]'
        if rec['error']: rep.error(f'{tag}: {rec["error"]}'); continue
        for o in rec['obligations']:
            rp = o.get('replay')
            script = None
            if rp and rp.get('reproduced'):
                script = (f'from props.c12 import replay_c12\nok, d = replay_c12({rec["v"]!r}, {rp["obj"]!r})\nprint("REPRODUCED" if ok else "not reproduced", d)\nsys.exit(1 if ok else 0)\n')
            rep.add(f'{tag}.{o["name"]}', o['status'], time=o.get('time'), backend=o.get('backend'), where=o.get('where'), replay=rp,
                    solver_output=o.get('solver_output'), replay_script=script, bounded=(rec['kind'] != 'node'))
        if len(rep.samples) < 5: rep.samples.append(dict(validator=rec['v'], obligations=[f"{o['name']}:{o['status']}" for o in rec['obligations']]))
    try: contexts(rep, tier)
    except Exception: rep.error('C12 contexts: ' + traceback.format_exc()[-1500:])
    try: diagnosis(rep)
    except Exception: rep.error('C12 diagnosis: ' + traceback.format_exc()[-1500:])
    files = ['beartype/vale/_core/_valecore.py', 'beartype/vale/_core/_valecorebinary.py', 'beartype/vale/_core/_valecoreunary.py', 'beartype/vale/_is/_valeis.py',
             'beartype/vale/_is/_valeisobj.py', 'beartype/vale/_is/_valeisoper.py', 'beartype/vale/_is/_valeistype.py', 'beartype/vale/_util/_valeutilsnip.py',
             'beartype/_util/cls/utilclstest.py']
    rep.functions = [f'{p}@{report.src_hash(p)}' for p in files] + ['functions executed: BeartypeValidatorConjunction/Disjunction/Negation.__init__ lambdas, _IsFactory.__getitem__.<locals>._is_valid_bool, '
                     '_IsAttrFactory.__getitem__.<locals>.is_valid, _IsEqualFactory/_IsInstanceFactory/_IsSubclassFactory lambdas, is_type_subclass; code strings produced by the real factories']
    from pyvc import model as M
    rep.trusted = ['pyvc', 'z3 5.1 / cvc5'] + M.ASSUMED_SEMANTICS
    rep.assumptions = ['user validator callables are deterministic; a non-bool-like result raises BeartypeValeValidationException in BOTH representations (same closure)',
                       'no attribute value is the private SENTINEL', 'Annotated[T, V...] acceptance = [[T]] and all M_Vi is proved on the generated checker under C01/C02 (Annotated shapes)',
                       'the verdict in the violation message is computed by is_valid (find_cause_pep593_annotated calls hint_validator.is_valid; see C03)',
                       'nesting beyond the enumerated depth follows by induction from the node lemmas (operators over abstract operands Is[f1], Is[f2])']
    rep.bounded = [dict(kind='validator expressions enumerated (each obligation is for all objects)', count=len(T), by_kind=kinds, depth='<=4')]
    rep.extra['explanation'] = 'three representations (callable, code string, meaning) proved equivalent per validator for all objects; node shapes give the induction step'
    return rep.finish()
