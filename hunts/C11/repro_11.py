import sys, traceback, warnings
import beartype
from beartype.roar import BeartypeException, BeartypeWarning
assert beartype.__file__.startswith('/tmp/wt/hunt_C11'), beartype.__file__
BAD = []
def check(label, fn, user_excs=()):
    """Run fn(); flag anything other than a public beartype.roar exception (or an
    explicitly allowed user exception) and any non-beartype warning."""
    with warnings.catch_warnings(record=True) as w:
        warnings.simplefilter('always')
        try:
            fn(); print(f'[ok: no exception]   {label}')
        except user_excs as e:
            print(f'[ok: user exception] {label}: {type(e).__name__}')
        except BeartypeException as e:
            if type(e).__name__.startswith('_'):
                BAD.append(label)
                print(f'[VIOLATION private]  {label}: {type(e).__name__}: {str(e)[:140]!r}')
            else:
                print(f'[ok: beartype exc]   {label}: {type(e).__name__}')
        except BaseException as e:
            BAD.append(label)
            fr = traceback.extract_tb(e.__traceback__)[-1]
            print(f'[VIOLATION]          {label}: {type(e).__name__}: {str(e)[:140]} (raised at {fr.filename}:{fr.lineno})')
    for x in w:
        if not issubclass(x.category, BeartypeWarning):
            BAD.append(label)
            print(f'[VIOLATION warning]  {label}: {x.category.__name__}: {str(x.message)[:120]}')
def finish():
    print(f'{len(BAD)} violation(s)'); sys.exit(1 if BAD else 0)
# ---------------------------------------------------------------------------
# Finding 11: a PEP 695 alias whose *type parameter bound* is unresolvable leaks a bare NameError
# (an unresolvable alias *value* correctly raises a beartype forward-reference exception).
from beartype import beartype
from beartype.door import is_bearable
exec('type BadBound[T: NoSuchName] = list[T]\ntype BadValue = NoSuchName')
check('is_bearable([1], BadValue)   (control)', lambda: is_bearable([1], BadValue))
check('is_bearable([1], BadBound)', lambda: is_bearable([1], BadBound))
check('is_bearable([1], BadBound[int])', lambda: is_bearable([1], BadBound[int]))
def decorate():
    @beartype
    def f(x: BadBound[int]) -> None: pass
check('@beartype def f(x: BadBound[int])', decorate)
finish()
