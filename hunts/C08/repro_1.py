# Finding 1: @beartype strips the "iterable coroutine" kind of a
# @types.coroutine generator function: the produced object is no longer
# awaitable, so "await decorated()" raises TypeError.
import inspect, sys, types
from beartype import beartype

@types.coroutine
def sleep0(x: int):
    got = yield x          # suspend to the event loop / driver
    return got

decorated = beartype(sleep0)
assert decorated is not sleep0

async def user(func):
    return await func(1)

def drive(func):
    coro = user(func)
    try:
        assert coro.send(None) == 1
        coro.send('resumed')
    except StopIteration as exc:
        return ('returned', exc.value)
    except BaseException as exc:
        return ('raised', type(exc).__name__, str(exc))

orig = (inspect.isgeneratorfunction(sleep0), inspect.isawaitable(sleep0(1)), drive(sleep0))
bear = (inspect.isgeneratorfunction(decorated), inspect.isawaitable(decorated(1)), drive(decorated))
print('orig:', orig)
print('bear:', bear)
sys.exit(orig != bear)
