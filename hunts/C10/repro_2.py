"""C10 repro 2: checking a mapping's value goes through pith[key] / pith.values() /
pith.items(), i.e. through the user-visible __getitem__.  For collections.ChainMap that
looks the key up in *every* underlying map, so a defaultdict in the chain gets a
new entry inserted by the mere type-check."""
import collections.abc as cabc
import sys
from collections import ChainMap, defaultdict
from beartype import beartype
from beartype.door import is_bearable, die_if_unbearable
from beartype.roar import BeartypeDoorHintViolation

bad = False

def fresh():
    overrides = defaultdict(int)          # user-level overrides, normally empty
    return overrides, ChainMap(overrides, {'a': 1})

for hint in (ChainMap[str, int], cabc.Mapping[str, int], cabc.Mapping[object, int],
             cabc.MutableMapping[str, int]):
    dd, cm = fresh()
    ok = is_bearable(cm, hint)
    print(f'is_bearable(cm, {hint}) -> {ok}; defaultdict now {dict(dd)}')
    bad |= dict(dd) != {}

# Through a view of the ChainMap (Iterable/Collection/ValuesView hints).
for hint in (cabc.ValuesView[int], cabc.Iterable[int], cabc.Collection[int]):
    dd, cm = fresh()
    ok = is_bearable(cm.values(), hint)
    print(f'is_bearable(cm.values(), {hint}) -> {ok}; defaultdict now {dict(dd)}')
    bad |= dict(dd) != {}

# Key-only hint: the check itself is clean, but the violation path uses .items().
dd, cm = fresh()
try:
    die_if_unbearable(cm, cabc.Mapping[int, object])
except BeartypeDoorHintViolation:
    pass
print('die_if_unbearable(cm, Mapping[int, object]) ; defaultdict now', dict(dd))
bad |= dict(dd) != {}

# Decorated callable: the argument's contents differ from what the caller passed.
@beartype
def lookup(cfg: cabc.Mapping[str, int]) -> int:
    return len(cfg.maps[0])
dd, cm = fresh()
n = lookup(cm)
print('len(overrides) seen inside the wrapped callable:', n)
bad |= n != 0

# Same root cause, other victims: an LRU cache has its eviction order changed.
try:
    from cachetools import LRUCache
except ImportError:
    pass
else:
    c = LRUCache(maxsize=2); c['a'] = 1; c['b'] = 2     # 'a' is least recently used
    is_bearable(c, cabc.MutableMapping[str, int])
    c['c'] = 3                                           # must evict 'a'
    print('LRUCache after check + insert:', sorted(c), '(expected [b, c])')
    bad |= sorted(c) != ['b', 'c']

sys.exit(1 if bad else 0)
