# Finding 4: beartype.typing.Protocol caches isinstance() results per *type* of
# the checked object, so is_bearable()/@beartype answers for one object depend
# on an earlier query made with a *different* object of the same class.
import sys
import beartype
assert beartype.__file__.startswith('/tmp/wt/hunt_C14'), beartype.__file__
from beartype import beartype as bt
from beartype.door import is_bearable
from beartype.typing import Protocol

def make():
    class HasX(Protocol):
        x: int
    class Thing:
        def __init__(self, with_x: bool) -> None:
            if with_x:
                self.x = 1
    return HasX, Thing

HasX1, Thing1 = make()
HasX2, Thing2 = make()          # identical twins

is_bearable(Thing1(True), HasX1)             # history: one earlier query
r1 = is_bearable(Thing1(False), HasX1)
r2 = is_bearable(Thing2(False), HasX2)
print('is_bearable(Thing(with_x=False), HasX) with    earlier query:', r1)
print('is_bearable(Thing(with_x=False), HasX) without earlier query:', r2)

HasX3, Thing3 = make()
is_bearable(Thing3(False), HasX3)            # opposite history
r3 = is_bearable(Thing3(True), HasX3)
HasX4, Thing4 = make()
r4 = is_bearable(Thing4(True), HasX4)
print('is_bearable(Thing(with_x=True), HasX)  with    earlier query:', r3)
print('is_bearable(Thing(with_x=True), HasX)  without earlier query:', r4)
sys.exit(1 if (r1 != r2 or r3 != r4) else 0)
