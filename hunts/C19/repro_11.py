# The wrapper cache is keyed on hint *equality*; distinct classes that compare equal share one wrapper.
import sys
from beartype.door import is_subhint, TypeHint
class NameEq(type):
    def __eq__(a, b): return isinstance(b, NameEq) and a.__name__ == b.__name__
    def __hash__(a): return hash(a.__name__)
def make(base):
    class Model(base, metaclass=NameEq): pass
    return Model
M_int, M_str = make(int), make(str)
print('is_subhint(M_int, int) =', is_subhint(M_int, int))
r = is_subhint(M_str, int)
print('is_subhint(M_str, int) =', r, '; issubclass(M_str, int) =', issubclass(M_str, int), '; TypeHint(M_str).hint is M_str:', TypeHint(M_str).hint is M_str)
sys.exit(1 if r else 0)
