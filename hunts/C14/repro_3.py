# Finding 3: is_subhint() / TypeHint comparisons are memoised per pair of
# TypeHint singletons forever. An answer computed before ABC.register() is
# remembered afterwards (while is_bearable() on the same pair is not), and
# beartype clearing its caches changes the later answer.
import sys, abc
import beartype
assert beartype.__file__.startswith('/tmp/wt/hunt_C14'), beartype.__file__
from beartype.door import is_subhint, is_bearable, TypeHint
from beartype._util.cache.utilcacheclear import clear_caches

class Abc1(abc.ABC): pass
class Impl1: pass
class Abc2(abc.ABC): pass      # identical twins of the above
class Impl2: pass

is_subhint(Impl1, Abc1)         # history: the same question asked once, early
Abc1.register(Impl1)
Abc2.register(Impl2)

r1 = (is_subhint(Impl1, Abc1), is_subhint(list[Impl1], list[Abc1]),
      TypeHint(Impl1) <= TypeHint(Abc1), is_bearable(Impl1(), Abc1), issubclass(Impl1, Abc1))
r2 = (is_subhint(Impl2, Abc2), is_subhint(list[Impl2], list[Abc2]),
      TypeHint(Impl2) <= TypeHint(Abc2), is_bearable(Impl2(), Abc2), issubclass(Impl2, Abc2))
print('with    earlier query: is_subhint, is_subhint(list), <=, is_bearable, issubclass =', r1)
print('without earlier query: is_subhint, is_subhint(list), <=, is_bearable, issubclass =', r2)
bad = r1 != r2
before = is_subhint(Impl1, Abc1)
clear_caches()
after = is_subhint(Impl1, Abc1)
print('is_subhint(Impl1, Abc1) before clear_caches():', before, '| after:', after)
bad |= before != after
sys.exit(1 if bad else 0)
