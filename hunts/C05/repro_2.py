# PEP 695 "type" statements: the lazily evaluated alias value is evaluated
# eagerly by the injected loop, so valid programs break (and module globals are
# polluted with forward-reference proxies).
import sys; sys.path.insert(0, '/tmp/wt/hunt_C05_scratch')
from _common import *

SRC = '''
def make():
    type Items = list[Item]      # "Item" is defined two lines below; fine,
    class Item: pass             # because alias values are evaluated lazily.
    return Items.__value__

type Pair = tuple[Later, Later]
later_is_global_before_its_definition = 'Later' in globals()
class Later: pass
'''
bad = 0
for imp in (import_plain, import_hooked):
    m = imp(SRC)
    print(imp.__name__, ': "Later" in globals() before its definition ->',
          m.later_is_global_before_its_definition)
    try:
        print(imp.__name__, ': make() ->', m.make())
    except Exception as e:
        print(imp.__name__, ': make() raised', type(e).__name__, str(e)[:110])
        bad += 1
    bad += m.later_is_global_before_its_definition

# Eager evaluation also turns a never-evaluated alias into an import failure.
SRC2 = 'type Never = 1/0\nok = True\n'
print('import_plain : ok =', import_plain(SRC2).ok)
try:
    print('import_hooked: ok =', import_hooked(SRC2).ok)
except Exception as e:
    print('import_hooked: import raised', type(e).__name__, e)
    bad += 1
sys.exit(1 if bad else 0)
