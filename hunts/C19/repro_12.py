# Generic whose explicit Generic[...] base (listed *after* the container base) reorders the type parameters.
import sys
from typing import Generic, TypeVar, get_type_hints
from beartype.door import is_bearable, is_subhint
T = TypeVar('T'); U = TypeVar('U')
class Z(dict[T, U], Generic[U, T]): pass      # Z[X, Y] means U=X, T=Y, i.e. dict[Y, X]
class Z2(Generic[U, T], dict[T, U]): pass     # same thing, Generic[...] listed first
print('Z.__parameters__ =', Z.__parameters__, '; Z2.__parameters__ =', Z2.__parameters__)
r1 = (is_subhint(Z[int, str], dict[int, str]), is_subhint(Z[int, str], dict[str, int]))
r2 = (is_subhint(Z2[int, str], dict[int, str]), is_subhint(Z2[int, str], dict[str, int]))
print('Z [int,str] <= dict[int,str], dict[str,int]:', r1)
print('Z2[int,str] <= dict[int,str], dict[str,int]:', r2)
print('is_bearable(Z({"a": 1}), Z[int, str]) =', is_bearable(Z({'a': 1}), Z[int, str]),
      '; is_bearable(Z2({"a": 1}), Z2[int, str]) =', is_bearable(Z2({'a': 1}), Z2[int, str]))
sys.exit(1 if r1 != r2 else 0)
