# Finding 1: async def annotated "-> Coroutine[Y, S, R]": the return check and its explanation disagree.
# The generated check validates the returned value against R (int), but the violation
# explainer re-checks it against the unreduced Coroutine[...] hint.
import asyncio, sys
from collections.abc import Coroutine
import beartype
assert beartype.__file__.startswith('/tmp/wt/hunt_C03'), beartype.__file__
from beartype import beartype as bt
from beartype.roar import BeartypeCallHintReturnViolation

async def inner() -> int:
    return 1

@bt
async def returns_coroutine() -> Coroutine[None, None, int]:
    return inner()          # a coroutine object, *not* an int => must be rejected

@bt
async def returns_str() -> Coroutine[None, None, int]:
    return 'oops'           # a str, *not* an int => must be rejected

bad = 0

async def main():
    global bad
    # (a) rejection turns into an internal desynchronisation error
    try:
        c = await returns_coroutine()
        c.close()
        print('(a) accepted?!')
    except BeartypeCallHintReturnViolation as e:
        print('(a) OK violation:', e)
    except Exception as e:
        bad += 1
        print('(a) BUG, non-violation exception:', type(e).__name__, str(e)[:230])
    # (b) rejection is a violation, but it is explained against the wrong hint
    try:
        await returns_str()
        print('(b) accepted?!')
    except BeartypeCallHintReturnViolation as e:
        msg = str(e)
        print('(b) violation:', msg)
        if 'not instance of int' not in msg:
            bad += 1
            print('(b) BUG: explanation claims the str should have been a Coroutine; the check that failed was "isinstance(x, int)"')

import warnings
warnings.simplefilter('ignore', RuntimeWarning)
asyncio.run(main())
sys.exit(1 if bad else 0)
