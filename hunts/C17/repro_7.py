# FrozenDict does not override dict.__ior__: "fd |= {...}" mutates the frozen
# dictionary in place while its precomputed hash goes stale. Configurations
# memoised on it then break "same object for equal arguments" and "hash agrees
# with equality".
import sys
from beartype import BeartypeConf, FrozenDict

overrides = FrozenDict({int: str})
ident = id(overrides)
conf_a = BeartypeConf(hint_overrides=overrides)
overrides |= {bytes: bytearray}     # frozenset-like idiom; expected: a NEW FrozenDict (or an exception)
print('mutated in place:', id(overrides) == ident, overrides)
print('conf_a.hint_overrides now:', conf_a.hint_overrides)

conf_b = BeartypeConf(hint_overrides=FrozenDict({int: str, bytes: bytearray}))
print('equal hint_overrides    :', conf_a.hint_overrides == conf_b.hint_overrides)
print('conf_a == conf_b        :', conf_a == conf_b)
print('conf_a is conf_b        :', conf_a is conf_b)
print('hash(conf_a)==hash(conf_b):', hash(conf_a) == hash(conf_b))
sys.exit(1 if (conf_a == conf_b and (conf_a is not conf_b or hash(conf_a) != hash(conf_b))) else 0)
