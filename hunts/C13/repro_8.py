# No-op cases are not identities (and idempotence fails) for anything that is
# not a plain function.
import sys, functools, contextlib, typing
from beartype import beartype
bad = []
def chk(label, ok, extra=''):
    print(f'{label}: {"ok" if ok else "NOT identity"} {extra}')
    if not ok: bad.append(label)

def u(x): return x                       # unannotated
def a(x: int) -> int: return x           # annotated
nt = typing.no_type_check(lambda x: x)   # @no_type_check

sm, cm, p = staticmethod(u), classmethod(u), property(u)
chk('unannotated staticmethod', beartype(sm) is sm)
chk('unannotated classmethod', beartype(cm) is cm)
chk('unannotated property', beartype(p) is p)
smn = staticmethod(nt)
chk('@no_type_check staticmethod', beartype(smn) is smn)

class K:
    def __call__(self, x): return x
k = K()
chk('unannotated callable object', beartype(k) is k, repr(beartype(k))[:60])
part = functools.partial(u, 1)
r = beartype(part)
chk('unannotated functools.partial', r is part, f'-> {type(r).__name__}, has .func: {hasattr(r, "func")}')
chk('builtin len', beartype(len) is len, repr(beartype(len))[:50])

@contextlib.contextmanager
def ctx(x):
    yield x
ctx.custom = 1
r = beartype(ctx)
chk('unannotated @contextmanager function', r is ctx, f'custom attr kept: {hasattr(r, "custom")}')

@functools.lru_cache(maxsize=8)
def cached(x): return x
cached(1); cached(1)
r = beartype(cached)
chk('unannotated @lru_cache function', r is cached, f'{cached.cache_info()} -> {r.cache_info()}')

# Idempotence on existing beartype wrappers.
w_sm = beartype(staticmethod(a)); chk('idempotent staticmethod', beartype(w_sm) is w_sm)
w_cm = beartype(classmethod(a));  chk('idempotent classmethod', beartype(w_cm) is w_cm)
w_p  = beartype(property(a));     chk('idempotent property', beartype(w_p) is w_p)
@contextlib.contextmanager
def ctx2(x: int): yield x
w_c = beartype(ctx2);             chk('idempotent contextmanager', beartype(w_c) is w_c)
@functools.lru_cache
def cached2(x: int) -> int: return x
w_l = beartype(cached2);          chk('idempotent lru_cache', beartype(w_l) is w_l)
sys.exit(1 if bad else 0)
