# Finding 5: @callable_cached memoises exception *objects* and
# reraise_exception_placeholder() then rewrites the memoised object in place.
# The error raised for a later query therefore names whichever API / function /
# parameter happened to ask first.
import sys
import beartype
assert beartype.__file__.startswith('/tmp/wt/hunt_C14'), beartype.__file__
import numpy as np
from typing import Any
from beartype import beartype as bt
from beartype.door import is_bearable, die_if_unbearable

hint = np.ndarray[Any, int]     # malformed typed NumPy array hint

def message(thunk):
    try:
        thunk()
        return 'no exception'
    except Exception as e:
        return f'{type(e).__name__}: {e}'

def decorate_first():
    @bt
    def first_func(first_param: hint) -> None: pass
def decorate_second():
    @bt
    def second_func(second_param: hint) -> None: pass

m1 = message(decorate_first)
m2 = message(decorate_second)
m3 = message(lambda: is_bearable(1, hint))
m4 = message(lambda: die_if_unbearable(1, hint))
print('1st query, decorating first_func() :', m1)
print('2nd query, decorating second_func():', m2)
print('3rd query, is_bearable()           :', m3)
print('4th query, die_if_unbearable()     :', m4)
bad = ('first_func' in m2) or ('first_func' in m3) or ('first_func' in m4)
sys.exit(1 if bad else 0)
