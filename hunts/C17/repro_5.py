# Values that pass BeartypeConf's own validation but are unhashable escape with
# a raw TypeError from the memoisation lookup: neither a configuration nor a
# BeartypeConfParamException. (Invalid unhashable values ARE reported with
# BeartypeConfParamException, so rejection is not uniform.)
import sys
from typing import Annotated
from beartype import BeartypeConf, FrozenDict
from beartype.roar import BeartypeConfParamException

bad = False
cases = {
    "claw_skip_package_names=['numpy']":  dict(claw_skip_package_names=['numpy']),   # Collection[str]
    "claw_skip_package_names={'numpy'}":  dict(claw_skip_package_names={'numpy'}),   # Collection[str]
    "claw_skip_package_names=[1] (invalid)": dict(claw_skip_package_names=[1]),
    "hint_overrides={int: Annotated[int, []]}": dict(hint_overrides=FrozenDict({int: Annotated[int, []]})),
}
for label, kw in cases.items():
    try:
        conf = BeartypeConf(**kw)
        print(label, '-> accepted', conf)
    except BeartypeConfParamException as e:
        print(label, '-> BeartypeConfParamException')
    except Exception as e:
        print(label, '->', type(e).__name__ + ':', str(e)[:70]); bad = True
sys.exit(1 if bad else 0)
