# For generator functions, coroutine functions and async generator functions
# the wrapper is itself a generator/coroutine/async generator, so *binding
# errors and parameter violations are not raised by the call* but deferred to
# the first next()/await -- unlike the undecorated callable, whose call raises
# TypeError immediately.
import asyncio
from beartype import beartype
from beartype.roar import BeartypeCallHintParamViolation

bugs = []

def gen(a: int):
    yield a
async def co(a: int):
    return a
async def agen(a: int):
    yield a

for orig in (gen, co, agen):
    dec = beartype(orig)
    # The original refuses an unbindable call at call time.
    try:
        orig()
        raise AssertionError('unreachable')
    except TypeError:
        pass
    # The decorated callable accepts the very same unbindable call.
    try:
        r = dec()
        bugs.append(f'{orig.__name__}(): unbindable call returned {type(r).__name__} instead of raising TypeError')
        if hasattr(r, 'close'): r.close()
    except TypeError:
        pass
    # ... and a call with a violating argument.
    try:
        r = dec('bad')
        bugs.append(f'{orig.__name__}("bad"): violating call returned {type(r).__name__} instead of raising')
        if hasattr(r, 'close'): r.close()
    except BeartypeCallHintParamViolation:
        pass

for b in bugs: print('BUG', b)
raise SystemExit(1 if bugs else 0)
