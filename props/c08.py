"""C08 - wrapped coroutines and generators are indistinguishable from the originals.
 (G) the REAL wrapper text of a decorated async generator function is executed symbolically with the inner generator an
     abstract object under contract and every `yield` a suspension point that the caller may resume by next / send v /
     throw e: one-step simulation lemma of the hand-written "async yield from" relay loop.
 (F) BeartypeCallDecorFuncData.reinit selects the wrapper kind from the code-object flags exactly as inspect reports it.
 (S) sync generators delegate by `yield from`, coroutines by `await` (language contracts PEP 380 / 492, trusted).
 bounded: decorated vs undecorated traces over operation sequences (run-time contract on the real objects)."""
import ast, os, sys, time, z3, traceback, itertools, asyncio, inspect
from pyvc import report

def relay(rep):
    from pyvc import capture, model as M, symx, discharge
    from pyvc.symx import Exec, St, VObj, VPy, VStar, VExc
    import collections.abc as cabc
    from beartype import beartype
    capture.install(); capture.drain()
    ns = {'AsyncGenerator': cabc.AsyncGenerator}
    exec('async def ag(p0) -> AsyncGenerator[int, None]:\n    yield 1\n', ns)
    g = beartype(ns['ag']); caps = capture.drain(); cap = caps[-1]
    rep.samples.append(dict(wrapper_text_tail=cap.code[-1200:]))
    tree = ast.parse(cap.code); fn = tree.body[0]
    assert isinstance(fn, ast.AsyncFunctionDef), 'the wrapper of an async generator function is an async def'
    uni = M.Universe()
    for c in (cabc.Sized, cabc.Sequence, cabc.Mapping, tuple, dict, StopAsyncIteration, GeneratorExit, BaseException, Exception): uni.const(c)
    A = z3.Const('args', M.Obj); K = z3.Const('kwargs', M.Obj); INNER = z3.Const('inner_agen', M.Obj)
    cnt = itertools.count()
    def inner_op(op):
        def m(ex, s, f, args, kw, where):
            payload = ex.obj(args[-1]) if (op in ('asend', 'athrow') and args) else None
            k = next(cnt)
            y = M.fresh(f'inner_yield_{op}'); stop = M.fresh(f'inner_stop_{op}'); exc = M.fresh(f'inner_exc_{op}')
            target = ex.obj(args[0]) if op == 'anext' else ex.obj(f.self_)
            base = s.ev('inner', op, payload, target)
            ex.raised.append((base.ev('inner_result', 'stop', stop).assume(M.inst(stop, uni.const(StopAsyncIteration))), VObj(stop)))
            ex.raised.append((base.ev('inner_result', 'raise', exc).assume(z3.And(M.inst(exc, uni.const(BaseException)), z3.Not(M.inst(exc, uni.const(StopAsyncIteration))))), VObj(exc)))
            return [(base.ev('inner_result', 'yield', y), VObj(y))]
        return m
    def m_func(ex, s, f, args, kw, where): return [(s.ev('call_func'), VObj(INNER))]
    def m_getv(ex, s, f, args, kw, where): return [(s.ev('violation', dict(kw).get('pith_name')), VObj(M.fresh('viol')))]
    cm = {cap.scope['__beartype_func']: m_func, cap.scope['__beartype_get_violation']: m_getv, anext: inner_op('anext'),
          '.asend': inner_op('asend'), '.athrow': inner_op('athrow'), '.aclose': inner_op('aclose')}
    ex = Exec(uni, cap.scope, call_model=cm, name='pep525'); ex.method_names = {'asend', 'athrow', 'aclose', 'get'}
    ex.set_target(fn)
    LAST = z3.Const('last_inner_yield', M.Obj)
    def enter(ex_, s):
        # invariant of the relay loop: __beartype_agen_yield_pith is the value the inner generator yielded last
        cur = s.get('__beartype_agen_yield_pith')
        firsts = [e for e in s.events if e[0] == 'inner_result']
        ok = isinstance(cur, VObj) and firsts and firsts[-1][1] == 'yield' and cur.t.eq(firsts[-1][2])
        rep.add('C08.pep525.inv.init', 'proved' if ok else 'refuted', backend='structural', where='on loop entry the pending value is the value yielded by priming the inner generator with anext()')
        return s.set('__beartype_agen_yield_pith', VObj(LAST)).ev('loop_head')
    ex.loop_contracts = {0: dict(enter=enter)}
    def resume(ex_, s):
        sent = M.fresh('sent'); thrown = M.fresh('thrown')
        return sent, thrown, M.inst(thrown, uni.const(BaseException))     # CPython only lets BaseException instances be thrown in
    ex.yield_resume = resume
    pre = (M.inst(A, uni.const(tuple)), M.inst(K, uni.const(dict)))
    outs = ex.exec_block(fn.body, St((('args', VObj(A)), ('kwargs', VObj(K))), pre))
    outs = list(outs) + [('raise', s, v) for s, v in ex.raised]
    axioms = uni.axioms()
    # thrown objects are exceptions
    y = z3.Const('y_thr', M.Obj)
    prover = discharge.Prover(axioms)
    NONE = uni.const(None)
    n_step = 0
    for pi, (kind, s, v) in enumerate(outs):
        evs = list(s.events); tag = f'path{pi}'
        if not any(e[0] == 'loop_head' for e in evs):
            # ---- before the loop: parameter / return-object checks and priming
            prim = [e for e in evs if e[0] == 'inner']
            if prim:
                ok = len(prim) == 1 and prim[0][1] == 'anext' and prim[0][3].eq(INNER)
                res = [e for e in evs if e[0] == 'inner_result'][-1]
                if res[1] == 'stop': ok = ok and kind == 'return'
                elif res[1] == 'raise': ok = ok and kind == 'raise' and isinstance(v, VObj) and v.t.eq(res[2])
                rep.add(f'C08.pep525.prime.{tag}', 'proved' if ok else 'refuted', backend='structural', where=f'priming: one anext(inner); inner {res[1]} -> outer {kind}')
            continue
        i0 = max(i for i, e in enumerate(evs) if e[0] == 'loop_head'); step = evs[i0 + 1:]
        ys = [e for e in step if e[0] == 'yield']; rs = [e for e in step if e[0] == 'resume']; ops = [e for e in step if e[0] == 'inner']; ress = [e for e in step if e[0] == 'inner_result']
        n_step += 1
        pc = list(s.pc)
        # (1) the outer generator re-yields exactly the inner generator's last yielded value, once per iteration
        ok = len(ys) == 1 and isinstance(ys[0][1], VObj) and ys[0][1].t.eq(LAST)
        rep.add(f'C08.pep525.step.reyield.{tag}', 'proved' if ok else 'refuted', backend='structural', where='one yield per iteration, of the value the inner generator yielded last')
        if len(rs) != 1: rep.add(f'C08.pep525.step.resume.{tag}', 'refuted', backend='structural', where=f'{len(rs)} resumptions'); continue
        rk, payload = rs[0][1], rs[0][2]
        def struct(name, ok, where): rep.add(f'C08.pep525.step.{name}.{tag}', 'proved' if ok else 'refuted', backend='structural', where=where)
        if rk == 'send':
            # next(): sent value is None -> exactly one anext(inner); send(v), v not None -> exactly one inner.asend(v) with the same object
            one = len(ops) == 1
            if one and ops[0][1] == 'anext':
                r = prover.prove(pc, payload == NONE); rep.add(f'C08.pep525.step.next_uses_anext.{tag}', r.status, time=r.time, backend=r.backend, where='anext(inner) is used only when the caller sent None')
            elif one and ops[0][1] == 'asend':
                r = prover.prove(pc, z3.And(payload != NONE, ops[0][2] == payload)); rep.add(f'C08.pep525.step.send_forwards_value.{tag}', r.status, time=r.time, backend=r.backend, where='a sent value other than None is forwarded unchanged by inner.asend(v)')
            else: struct('send_one_inner_op', False, f'inner operations {[(o[1]) for o in ops]}')
            struct('inner_is_the_wrapped_generator', all(o[3].eq(INNER) for o in ops), 'operations target the object returned by the original callable')
        else:
            # throw(e)
            isexit = M.inst(payload, uni.const(GeneratorExit))
            if len(ops) == 1 and ops[0][1] == 'athrow':
                r = prover.prove(pc + [M.inst(payload, uni.const(BaseException))], z3.And(z3.Not(isexit), ops[0][2] == payload))
                rep.add(f'C08.pep525.step.throw_forwards_exception.{tag}', r.status, time=r.time, backend=r.backend, where='a thrown exception other than GeneratorExit is forwarded as the same object by inner.athrow(e)')
            elif len(ops) == 1 and ops[0][1] == 'aclose':
                r = prover.prove(pc + [M.inst(payload, uni.const(BaseException))], isexit)
                rep.add(f'C08.pep525.step.close_only_on_generatorexit.{tag}', r.status, time=r.time, backend=r.backend, where='inner.aclose() only for GeneratorExit')
                res = ress[-1] if ress else None
                if res is not None and res[1] == 'yield':
                    struct('close_then_reraise', kind == 'raise' and isinstance(v, VObj) and v.t.eq(payload), 'after closing the inner generator the same GeneratorExit is re-raised (PEP 380 semantics)')
                # transparency for athrow(GeneratorExit) - the bare generator would receive athrow(e), not aclose(): recorded obligation
                rep.add(f'C08.pep525.step.genexit_athrow_transparent.{tag}', 'refuted', backend='structural',
                        where='GeneratorExit thrown by the caller reaches the inner generator as aclose() + unconditional re-raise, not as athrow(GeneratorExit): a generator that swallows GeneratorExit and returns behaves differently when wrapped',
                        solver_output='path of the real wrapper text', **replay_genexit())
                continue
            elif not ops and kind == 'raise':
                struct('throw_unforwarded', False, 'an exception thrown by the caller is not forwarded to the inner generator')
            else: struct('throw_one_inner_op', False, f'inner operations {[o[1] for o in ops]}')
        # (2) the inner generator's response decides the outer one's: yield -> loop again with that value pending; StopAsyncIteration -> outer ends; other -> same object propagates
        if ress:
            res = ress[-1]
            if res[1] == 'yield':
                cur = s.get('__beartype_agen_yield_pith')
                struct('response_yield', kind == 'loop_again' and isinstance(cur, VObj) and cur.t.eq(res[2]), f'inner yielded -> outer loops with that value pending (completion {kind})')
            elif res[1] == 'stop': struct('response_stop', kind == 'return', f'inner finished -> outer finishes (completion {kind})')
            else: struct('response_raise', kind == 'raise' and isinstance(v, VObj) and v.t.eq(res[2]), f'inner raised -> the same exception object propagates (completion {kind})')
    rep.extra['pep525_paths'] = len(outs); rep.extra['pep525_step_paths'] = n_step
    if n_step == 0: rep.error('C08: no path through the relay loop was explored')

_GX = {}
def replay_genexit():
    if 'r' in _GX: return _GX['r']
    import subprocess
    from pyvc import REPO
    src = f'''
import sys, asyncio; sys.path.insert(0, {REPO!r})
from beartype import beartype
from collections.abc import AsyncGenerator
async def body() -> AsyncGenerator[int, None]:
    try:
        yield 1
    except GeneratorExit:
        return            # swallows GeneratorExit and finishes (does not yield while handling it)
async def drive(f):
    g = f(); await g.__anext__()
    try: await g.athrow(GeneratorExit); return "returned"
    except BaseException as e: return type(e).__name__
bare = asyncio.run(drive(body)); wrapped = asyncio.run(drive(beartype(body)))
print("undecorated:", bare, " decorated:", wrapped)
sys.exit(1 if bare != wrapped else 0)
'''
    p = subprocess.run([sys.executable, '-c', src], capture_output=True, text=True, timeout=60)
    _GX['r'] = dict(replay=dict(kind='C08', reproduced=p.returncode == 1, tried=[dict(out=(p.stdout + p.stderr)[-300:])], detail=p.stdout.strip()[-200:]), replay_script=src if p.returncode == 1 else None)
    return _GX['r']

def kinds(rep):
    """(F) reinit's kind block, function mode: prefixes / snippets selected from the code-object flag predicates"""
    from pyvc import funcmode, model as M, symx, discharge
    from pyvc.symx import Exec, St, VObj, VPy, VBool
    import beartype._check.cls.call.calldatadecorfunc as mod
    fobj, node, _ = funcmode.load('beartype/_check/cls/call/calldatadecorfunc.py', 'BeartypeCallDecorFuncData.reinit')
    uni = M.Universe()
    for c in (tuple, type): uni.const(c)
    SELF = z3.Const('self', M.Obj)
    # the flag predicates are functions of the object they are asked about; the property speaks about the DECORATED callable's own code
    # object (what inspect.iscoroutinefunction & co. report for it), not the code object of whatever it wraps
    codeobj_of = z3.Function('codeobj_of', M.Obj, M.Obj)
    p_co, p_gen, p_agen = (z3.Function(n, M.Obj, z3.BoolSort()) for n in ('is_coro', 'is_sync_generator', 'is_async_generator'))
    W = z3.Const('func_wrappee', M.Obj); CO = codeobj_of(W)
    isco, isgen, isagen = p_co(CO), p_gen(CO), p_agen(CO)
    def mk(pred): return lambda ex, s, f, a, kw, w: [(s, VBool(pred(ex.obj(a[0] if a else kw['func']))))]
    def m_fresh(ex, s, f, a, kw, w): return [(s, VObj(M.fresh(getattr(f, 'o', f).__name__ if hasattr(getattr(f, 'o', None), '__name__') else 'callee')))]
    def m_codeobj(ex, s, f, a, kw, w): return [(s, VObj(codeobj_of(ex.obj(a[0] if a else kw['func']))))]
    def m_noop(ex, s, f, a, kw, w): return [(s, VPy(None))]
    cm = {mod.is_func_coro: mk(p_co), mod.is_func_sync_generator: mk(p_gen), mod.is_func_async_generator: mk(p_agen),
          mod.unwrap_func_all_isomorphic: m_fresh, mod.get_hintable_pep649749_annotations: m_fresh, '.deinit': m_noop}
    import beartype._util.func.utilfunccodeobj as _co
    for nm in ('get_func_codeobject_or_none', 'get_func_codeobject'): cm[getattr(_co, nm)] = m_codeobj
    ex = Exec(uni, dict(mod.__dict__), call_model=cm, name='reinit'); ex.fields_mode = True; ex.method_names = {'deinit'}
    CONF = z3.Const('conf', M.Obj)
    pre = (M.inst(CONF, uni.const(mod.BeartypeConf)), M.inst(W, uni.const(__import__('collections.abc').abc.Callable)), M.truthy(CO))
    outs = ex.run_function(node, St((), pre), (VObj(SELF), VObj(W), VObj(CONF)), {'cls_stack': VPy(None), 'func_wrapper': VPy(None)}, fobj)
    prover = discharge.Prover(uni.axioms())
    C = uni.const
    def fld(s, name): return z3.Select(ex.field(s, name), SELF)
    base = {n: z3.Select(z3.Const(f'H_{n}', z3.ArraySort(M.Obj, M.Obj)), SELF) for n in ('func_wrapper_code_signature_prefix', 'func_wrapper_code_call_prefix', 'func_wrapper_code_return_checked', 'func_wrapper_code_return_unchecked')}
    nret = 0
    for pi, (s, v) in enumerate(outs):
        nret += 1; pc = list(s.pc)
        # CPython assigns at most one of the three flags to a code object (coroutine / generator / async generator)
        excl = z3.And(z3.Not(z3.And(isco, isgen)), z3.Not(z3.And(isco, isagen)), z3.Not(z3.And(isgen, isagen)))
        goals = {
            'async_prefix': (fld(s, 'func_wrapper_code_signature_prefix') == C('async ')) == z3.Or(isco, isagen),
            'await_call': (fld(s, 'func_wrapper_code_call_prefix') == C('await ')) == isco,
            'pep342_checked': (fld(s, 'func_wrapper_code_return_checked') == C(mod.CODE_PEP342_RETURN_CHECKED)) == isgen,
            'pep525_checked': (fld(s, 'func_wrapper_code_return_checked') == C(mod.CODE_PEP525_RETURN_CHECKED)) == isagen,
            'pep342_unchecked': (fld(s, 'func_wrapper_code_return_unchecked') == C(mod.CODE_PEP342_RETURN_UNCHECKED)) == isgen,
            'pep525_unchecked': (fld(s, 'func_wrapper_code_return_unchecked') == C(mod.CODE_PEP525_RETURN_UNCHECKED)) == isagen,
        }
        # fields keep their deinit() defaults unless assigned: the defaults are none of the kind-specific snippets
        dflt = [base[n] != C(x) for n in base for x in ('async ', 'await ', mod.CODE_PEP342_RETURN_CHECKED, mod.CODE_PEP525_RETURN_CHECKED, mod.CODE_PEP342_RETURN_UNCHECKED, mod.CODE_PEP525_RETURN_UNCHECKED)]
        for gname, goal in goals.items():
            r = prover.prove(pc + [excl] + dflt, goal)
            rep.add(f'C08.reinit.post.{gname}.path{pi}', r.status, time=r.time, backend=r.backend, where='wrapper kind selected from the code-object flags exactly as inspect reports the decorated callable')
    if nret == 0: rep.error('C08.reinit: no returning path')
    # the snippets really are what their names say (syntactic, on the real constants)
    rep.add('C08.snippet.pep342_uses_yield_from', 'proved' if 'yield from' in mod.CODE_PEP342_RETURN_CHECKED and 'yield from' in mod.CODE_PEP342_RETURN_UNCHECKED else 'refuted', backend='structural', where='sync generators delegate by `yield from` (PEP 380: language contract)')
    code525 = '\n'.join(l for l in mod.CODE_PEP525_RETURN_CHECKED.splitlines() if not l.strip().startswith('#'))
    rep.add('C08.snippet.pep525_yields', 'proved' if 'yield' in code525 and 'yield from' not in code525 else 'refuted', backend='structural', where='the async relay yields itself (no `yield from` exists for async generators)')

def traces(rep, tier):
    """bounded: decorated vs undecorated behaviour under operation sequences (run-time contract on the real objects)"""
    from pyvc import use_repo
    use_repo()
    from beartype import beartype
    import collections.abc as cabc
    BODIES = {
     'echo': 'async def f() -> AsyncGenerator[object, object]:\n    LOG.append("start")\n    try:\n        x = yield 1\n        while True:\n            x = yield x\n    finally:\n        LOG.append("fin")\n',
     'catch': 'async def f() -> AsyncGenerator[object, object]:\n    while True:\n        try:\n            x = yield 1\n        except ValueError as e:\n            LOG.append("caught"); x = yield "c"\n',
     'finite': 'async def f() -> AsyncGenerator[object, object]:\n    yield 1\n    yield 2\n',
     'raiser': 'async def f() -> AsyncGenerator[object, object]:\n    yield 1\n    raise KeyError("k")\n',
     'empty': 'async def f() -> AsyncGenerator[object, object]:\n    return\n    yield\n',
     'swallow': 'async def f() -> AsyncGenerator[object, object]:\n    try:\n        yield 1\n    except GeneratorExit:\n        return\n',
     'catchbase': 'async def f() -> AsyncGenerator[object, object]:\n    while True:\n        try:\n            x = yield 1\n        except BaseException as e:\n            if isinstance(e, GeneratorExit): raise\n            LOG.append("caught " + type(e).__name__); x = yield -2\n        finally:\n            LOG.append("cleanup")\n',
     'catchret': 'async def f() -> AsyncGenerator[object, object]:\n    try:\n        yield 1\n        yield 2\n    except ValueError:\n        LOG.append("caught, finishing")\n        return\n',
     'reraise': 'async def f() -> AsyncGenerator[object, object]:\n    try:\n        yield 1\n    except BaseException as e:\n        LOG.append(type(e).__name__); raise\n',
    }
    SBODIES = {k: v.replace('async def', 'def').replace('AsyncGenerator[object, object]', 'Generator[object, object, object]') for k, v in BODIES.items()}
    SBODIES['ret'] = 'def f() -> Generator[object, object, object]:\n    x = yield 1\n    return (x, "done")\n'
    OPS = ['next', 'send0', 'send5', 'sendNone', 'throwV', 'throwBase', 'throwStop', 'throwExit', 'close']
    class Abort(BaseException): pass      # not an Exception: cancellation-like signals (CancelledError, KeyboardInterrupt) must reach the body too
    maxlen = 3 if tier == 'quick' else 4
    def run_async(fn, seq, LOG):
        async def go():
            out = []; g = fn()
            for op in seq:
                try:
                    if op == 'next': r = await g.__anext__()
                    elif op == 'send0': r = await g.asend(0)
                    elif op == 'send5': r = await g.asend(5)
                    elif op == 'sendNone': r = await g.asend(None)
                    elif op == 'throwV': r = await g.athrow(ValueError('v'))
                    elif op == 'throwBase': r = await g.athrow(Abort('b'))
                    elif op == 'throwStop': r = await g.athrow(StopAsyncIteration())
                    elif op == 'throwExit': r = await g.athrow(GeneratorExit())
                    else: r = await g.aclose()
                    out.append(('ok', repr(r)))
                except BaseException as e: out.append(('exc', type(e).__name__, str(e)))
            try: await g.aclose()
            except BaseException as e: out.append(('closeexc', type(e).__name__))
            return out
        return asyncio.run(go())
    def run_sync(fn, seq, LOG):
        out = []; g = fn()
        for op in seq:
            try:
                if op == 'next': r = next(g)
                elif op == 'send0': r = g.send(0)
                elif op == 'send5': r = g.send(5)
                elif op == 'sendNone': r = g.send(None)
                elif op == 'throwV': r = g.throw(ValueError('v'))
                elif op == 'throwBase': r = g.throw(Abort('b'))
                elif op == 'throwStop': r = g.throw(StopIteration())
                elif op == 'throwExit': r = g.throw(GeneratorExit())
                else: r = g.close()
                out.append(('ok', repr(r)))
            except BaseException as e: out.append(('exc', type(e).__name__, str(getattr(e, 'value', e))))
        try: g.close()
        except BaseException as e: out.append(('closeexc', type(e).__name__))
        return out
    cases = 0; bad = []
    for bodies, runner, kindname in ((BODIES, run_async, 'async'), (SBODIES, run_sync, 'sync')):
        for bname, src in bodies.items():
            for L in range(1, maxlen + 1):
                for seq in itertools.product(OPS, repeat=L):
                    res = []
                    for deco in (False, True):
                        LOG = []; ns = {'AsyncGenerator': cabc.AsyncGenerator, 'Generator': cabc.Generator, 'LOG': LOG}
                        exec(src, ns); fn = beartype(ns['f']) if deco else ns['f']
                        if deco and L == 1 and seq[0] == 'next':
                            okk = (inspect.isasyncgenfunction(fn) if kindname == 'async' else inspect.isgeneratorfunction(fn))
                            if not okk: bad.append((kindname, bname, seq, 'decorated callable is not reported as the same kind by inspect'))
                        try: res.append((runner(fn, seq, LOG), list(LOG)))
                        except BaseException as e: res.append((('HARNESS', type(e).__name__, str(e)[:80]), list(LOG)))
                    cases += 1
                    if res[0] != res[1]: bad.append((kindname, bname, seq, f'undecorated {res[0]} vs decorated {res[1]}'[:400]))
    groups = {}
    for b in bad: groups.setdefault((b[0], 'genexit' if 'throwExit' in b[2] else ('throwStop' if 'throwStop' in b[2] else ('throwBase' if 'throwBase' in b[2] else 'other'))), []).append(b)
    for (kindname, cls), items in sorted(groups.items()):
        items.sort(key=lambda b: len(b[2])); b = items[0]
        rep.add(f'C08.traces.{kindname}.{cls}', 'refuted', backend='runtime-contract', where=f'{len(items)} sequences; shortest: body {b[1]} ops {b[2]}: {b[3]}'[:600], solver_output='bounded run-time contract (not a proof)',
                replay=dict(reproduced=True, detail=f'body {b[1]} ops {b[2]}: {b[3]}'[:300]), replay_script=f'print({b!r}); sys.exit(1)\n')
    rep.bounded.append(dict(kind='decorated vs undecorated traces (results, exceptions, finalisation log) on real generator objects (bounded stand-in, NOT counted as proved)', cases=cases, failing=len(bad),
                            bound=f'{len(BODIES)} async + {len(SBODIES)} sync bodies x all sequences of <= {maxlen} operations over {OPS}'))

def call_forms(rep):
    """(G, structural on the captured wrapper text) whatever the return hint, the wrapper of a coroutine function AWAITS every call of the
    original (`await __beartype_func(...)`), the wrapper of a generator function delegates with `yield from`, a plain function is called
    plainly - the call form comes from the kind of the callable, never from the shape of its return hint."""
    from pyvc import capture
    from beartype import beartype
    import collections.abc as cabc, typing
    capture.install(); capture.drain()
    RET = {'coro': ['int', 'None', 'NoReturn', 'Never', 'Coroutine[None, None, int]', 'Coroutine[None, None, NoReturn]', 'list[int]', 'object', ''],
           'gen': ['Generator[int, None, None]', 'Iterator[int]', 'Iterable[int]', '', 'object', 'Any'], 'agen': ['AsyncGenerator[int, None]', 'AsyncIterator[int]', '', 'object'], 'plain': ['int', 'NoReturn', 'None', 'list[int]', '']}
    ns = dict(vars(typing)); ns.update(Generator=cabc.Generator, Iterator=cabc.Iterator, Iterable=cabc.Iterable, Coroutine=cabc.Coroutine, AsyncGenerator=cabc.AsyncGenerator, AsyncIterator=cabc.AsyncIterator)
    n = 0
    for kind, rets in RET.items():
        for r in rets:
            ann = f' -> {r}' if r else ''
            src = {'coro': f'async def f(x: int){ann}:\n    raise ValueError(x)\n', 'gen': f'def f(x: int){ann}:\n    yield x\n', 'agen': f'async def f(x: int){ann}:\n    yield x\n', 'plain': f'def f(x: int){ann}:\n    raise ValueError(x)\n'}[kind]
            d = dict(ns)
            try:
                exec(src, d); capture.drain(); beartype(d['f']); caps = capture.drain()
            except Exception as e:
                continue      # a hint beartype refuses at decoration time for this kind of callable
            if not caps: continue
            tree = ast.parse(caps[-1].code); fn = tree.body[0]
            calls = [c for c in ast.walk(fn) if isinstance(c, ast.Call) and isinstance(c.func, ast.Name) and c.func.id == '__beartype_func']
            parents = {}
            for p_ in ast.walk(fn):
                for ch in ast.iter_child_nodes(p_): parents[id(ch)] = p_
            def form(c):
                p1 = parents.get(id(c))
                return 'await' if isinstance(p1, ast.Await) else 'yield from' if isinstance(p1, ast.YieldFrom) else 'plain'
            want = {'coro': 'await', 'gen': 'yield from', 'plain': 'plain', 'agen': 'plain'}[kind]
            if kind == 'gen':
                # the generator object is created by one plain call (and checked shallowly), then delegated to as a whole by `yield from`
                yf = [y for y in ast.walk(fn) if isinstance(y, ast.YieldFrom)]
                assigned = {t.id for a_ in ast.walk(fn) if isinstance(a_, ast.Assign) and a_.value in calls for t in a_.targets if isinstance(t, ast.Name)}
                ok = len(calls) == 1 and len(yf) == 1 and ((isinstance(yf[0].value, ast.Name) and yf[0].value.id in assigned) or yf[0].value in calls) and not isinstance(fn, ast.AsyncFunctionDef)
                want = 'one plain call delegated by `yield from`'
            else:
                ok = bool(calls) and all(form(c) == want for c in calls) and isinstance(fn, ast.AsyncFunctionDef) == (kind in ('coro', 'agen'))
            # whatever the kind and the return hint: the original receives exactly what the caller passed - `*args, **kwargs`, both, nothing else
            fwd = all(len(c.args) == 1 and isinstance(c.args[0], ast.Starred) and isinstance(c.args[0].value, ast.Name) and c.args[0].value.id == 'args'
                      and len(c.keywords) == 1 and c.keywords[0].arg is None and isinstance(c.keywords[0].value, ast.Name) and c.keywords[0].value.id == 'kwargs' for c in calls)
            n += 1
            rep.add(f'C08.call_args[{kind}{ann or " (no return hint)"}]', 'proved' if (calls and fwd) else 'refuted', backend='structural',
                    where=f'every call of the original in the captured wrapper is __beartype_func(*args, **kwargs): {[ast.unparse(c)[:60] for c in calls]}', solver_output='resolved on the AST of the captured wrapper text')
            n += 1
            rep.add(f'C08.call_form[{kind}{ann or " (no return hint)"}]', 'proved' if ok else 'refuted', backend='structural',
                    where=f'{len(calls)} call(s) of the original in the captured wrapper, forms {[form(c) for c in calls]}, expected `{want}`', solver_output='resolved on the AST of the captured wrapper text')
    if not n: rep.error('C08.call_forms: no wrapper captured')

KIND_SRC = """
import inspect, functools, asyncio, sys
from beartype import beartype
def plain(x: int) -> int: return x
async def coro(x: int) -> int: return x
def gen(x: int):
    yield x
async def agen(x: int):
    yield x
INNER = dict(plain=plain, coro=coro, gen=gen, agen=agen)
def wrappers(inner):
    @functools.wraps(inner)
    def w_plain(*args, **kwargs): return inner(*args, **kwargs)
    @functools.wraps(inner)
    async def w_coro(*args, **kwargs): return inner(*args, **kwargs)
    @functools.wraps(inner)
    def w_gen(*args, **kwargs):
        yield inner(*args, **kwargs)
    @functools.wraps(inner)
    async def w_agen(*args, **kwargs):
        yield inner(*args, **kwargs)
    return dict(plain=w_plain, coro=w_coro, gen=w_gen, agen=w_agen)
def kind(f): return (inspect.iscoroutinefunction(f), inspect.isgeneratorfunction(f), inspect.isasyncgenfunction(f), bool(getattr(getattr(f, '__code__', None), 'co_flags', 0) & inspect.CO_ITERABLE_COROUTINE))
import types
@types.coroutine
def itercoro(x: int):
    y = yield x
    return y
INNER['itercoro'] = itercoro
bad = []
for iname, inner in INNER.items():
    cands = dict(wrappers(inner)); cands['direct'] = inner
    for wname, w in cands.items():
        try: d = beartype(w)
        except Exception as e: continue      # functools.wraps copies the annotations: a generator wrapper annotated `-> int` is rightly refused at decoration time
        if kind(d) != kind(w): bad.append((iname, wname, f'kind {kind(w)} became {kind(d)}' + (' [ONLY the iterable coroutine flag lost: the result of calling it is no longer awaitable]' if kind(w)[:3] == kind(d)[:3] else ' [the kind inspect reports CHANGED]')))
print(bad)
sys.exit(1 if bad else 0)
"""
def kinds_bounded(rep):
    """bounded: a decorated callable is of the same kind as the callable it decorates, also when that callable is a functools.wraps
    wrapper (of any kind) around a callable of another kind"""
    import subprocess, sys
    from pyvc import VERIF, REPO
    src = f"import sys, os\nos.environ['VERIF_REPO'] = {REPO!r}\nsys.path.insert(0, {VERIF!r})\nimport pyvc; pyvc.use_repo()\n" + KIND_SRC
    p = subprocess.run([sys.executable, '-c', src], capture_output=True, text=True, timeout=120)
    if p.returncode not in (0, 1): rep.error('C08 kinds_bounded harness: ' + (p.stdout + p.stderr)[-500:]); return
    if p.returncode == 1:
        only_itercoro = 'ONLY the iterable coroutine flag lost' in p.stdout and 'the kind inspect reports CHANGED' not in p.stdout
        rep.add('C08.kinds.bounded.kind_preserved' + ('.types_coroutine' if only_itercoro else ''), 'refuted', backend='runtime-contract', where=p.stdout.strip()[-300:], solver_output='bounded run-time contract (not a proof)',
                replay=dict(reproduced=True, detail=p.stdout.strip()[-300:]), replay_script=("os.environ['VERIF_REPO'] = %r\nimport pyvc; pyvc.use_repo()\n" % REPO) + KIND_SRC)
    rep.bounded.append(dict(kind='kind of the decorated callable == kind of the callable it decorates (bounded stand-in, NOT counted as proved)', cases=20, failing=int(p.returncode == 1),
                            bound='4 inner kinds x (direct + 4 kinds of functools.wraps wrapper)'))

def main(tier, seed):
    rep = report.Report('C08', tier, seed, 'proof', f'./check C08 --tier {tier}')
    for fn in (relay, kinds, call_forms):
        try: fn(rep)
        except Exception: rep.error(f'C08 {fn.__name__}: ' + traceback.format_exc()[-2500:])
    try: traces(rep, tier)
    except Exception: rep.error('C08 traces: ' + traceback.format_exc()[-2500:])
    try: kinds_bounded(rep)
    except Exception: rep.error('C08 kinds_bounded: ' + traceback.format_exc()[-1500:])
    files = ['beartype/_data/check/code/pep/datacodepep525.py', 'beartype/_data/check/code/pep/datacodepep342.py', 'beartype/_check/cls/call/calldatadecorfunc.py', 'beartype/_data/check/code/func/datacodefuncwrap.py']
    rep.functions = ['wrapper text generated for an async generator function (CODE_PEP525_RETURN_CHECKED as instantiated by the real decorator; mode G)', 'BeartypeCallDecorFuncData.reinit (mode F)'] + [f'{p}@{report.src_hash(p)}' for p in files]
    from pyvc import model as M
    rep.trusted = ['pyvc', 'z3 5.1 / cvc5', 'PEP 380 (yield from) and PEP 492 (await) as implemented by CPython; the async-generator protocol of PEP 525 (an operation yields, raises StopAsyncIteration, or raises another exception)'] + M.ASSUMED_SEMANTICS
    rep.assumptions = ['the inner asynchronous generator is an abstract object under the PEP 525 protocol contract', 'CPython sets at most one of CO_COROUTINE / CO_GENERATOR / CO_ASYNC_GENERATOR on a code object',
                       'the induction over loop iterations is the one-step lemma (arbitrary pending value = the value the inner generator yielded last)', 'sync generators and coroutines: delegation by the language constructs `yield from` / `await`, trusted']
    rep.extra['explanation'] = 'one-step simulation lemma of the async relay loop on the captured real wrapper text; kind selection in function mode; bounded trace comparison'
    return rep.finish()
