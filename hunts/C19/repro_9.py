# TypeHint.args disagrees with len()/iteration/indexing/containment about what the children are.
import sys
from typing import Callable, Literal, TypeVar
from beartype.door import TypeHint
T = TypeVar('T', bound=int)
bad = 0
for h in (T, Literal[1, 2], Callable[[], int], Callable[..., int]):
    w = TypeHint(h)
    children = list(w)
    print(f'{h}: args={w.args!r} len={len(w)} bool={bool(w)} iter={children!r} indexed={[w[i] for i in range(len(w))]!r}')
    if len(w.args) != len(w) or [getattr(c, "hint", None) for c in children] != list(w.args):
        bad = 1
sys.exit(bad)
