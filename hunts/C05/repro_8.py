# Decorator-hostile tracking (default claw_decor_place_func) is lost when the
# hostile package is imported as "import os, celery" or "import celery as c":
# @beartype is then injected ABOVE the decorator-hostile decorator.
import sys, os, warnings; sys.path.insert(0, '/tmp/wt/hunt_C05_scratch')
from _common import *

# Minimal stand-in for the real "celery" package (not installed here): like the
# real thing, Celery.task() returns a task object rather than a function.
os.makedirs(os.path.join(TMP, 'celery'))
with open(os.path.join(TMP, 'celery', '__init__.py'), 'w') as f:
    f.write('''
class Task:
    def __init__(self, run): self.run = run
    def delay(self, *a, **k): return self.run(*a, **k)
class Celery:
    def task(self, fn): return Task(fn)
''')

TEMPLATE = '''
{imports}
app = {mod}.Celery()

@app.task
def add(x: int, y: int) -> int:
    return x + y
'''
results = {}
for imports, mod in (('import celery', 'celery'),
                     ('import os\nimport celery', 'celery'),
                     ('import os, celery', 'celery'),
                     ('import celery as c', 'c')):
    src = TEMPLATE.format(imports=imports, mod=mod)
    with warnings.catch_warnings(record=True) as w:
        warnings.simplefilter('always')
        m = import_hooked(src)
    try:
        r = m.add.delay('a', 'b'); r = f'unchecked -> {r!r}'
    except Exception as e:
        r = 'raised ' + type(e).__name__
    results[imports] = (type(m.add).__name__, r, [x.category.__name__ for x in w])
    print(f'{imports!r:28} add is a {results[imports][0]:6} add.delay("a","b") {r}  warnings={results[imports][2]}')
sys.exit(0 if len(set(map(str, results.values()))) == 1 else 1)
