# A method decorated by @beartype inside a *local* class cannot refer to its
# own class by name, although it can refer to any other local class (even one
# defined later).
import sys
from beartype import beartype

def make():
    class Node:
        @beartype
        def link(self, other: 'Node') -> 'Node':        # own class: fails at call time
            return other
        @beartype
        def tag(self, t: 'Tag') -> 'list[Tag]':         # sibling defined later: fine
            return [t]
    class Tag: pass
    return Node, Tag

N, T = make()          # (deliberately not bound to the global names "Node"/"Tag")
print('sibling reference:', N().tag(T()))
try:
    print('self reference   :', N().link(N()))
except Exception as e:
    print('self reference   :', type(e).__name__, str(e)[:300])
    sys.exit(1)
