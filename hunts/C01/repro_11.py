# Any hint whose tree has more than ~255 nodes overflows a fixed 256-slot queue.
import sys
from typing import Union
from beartype.door import is_bearable
bad = 0
for n in (100, 130, 300):
    hint = tuple[tuple([list[int]] * n)]          # tuple[list[int], list[int], ...]
    obj = tuple([[1]] * n)
    try:
        print('fixed tuple of', n, 'list[int] ->', is_bearable(obj, hint))
    except Exception as e:
        bad += 1
        print('fixed tuple of', n, 'list[int] ->', type(e).__name__, str(e)[:120])
classes = [type(f'C{i}', (), {}) for i in range(260)]
hint = Union[tuple(list[c] for c in classes)]
try:
    print('union of 260 list[Ci] ->', is_bearable([classes[-1]()], hint))
except Exception as e:
    bad += 1
    print('union of 260 list[Ci] ->', type(e).__name__, str(e)[:120])
sys.exit(1 if bad else 0)
