# Finding 3: finalisation differs under asyncio: a decorated async generator
# that is still suspended when the event loop shuts down makes
# loop.shutdown_asyncgens() (called by asyncio.run()) report
# "RuntimeError: aclose(): asynchronous generator is already running",
# because the hidden inner generator is registered with the loop's asyncgen
# hooks in addition to the wrapper and both get aclose()d concurrently.
import asyncio, sys
from beartype import beartype

def scenario(decorate):
    log, errors, keep = [], [], []
    async def ticker(n: int):
        try:
            for i in range(n):
                yield i
        finally:                      # no yield here, only an await
            log.append('cleanup-start')
            await asyncio.sleep(0)
            log.append('cleanup-end')
    if decorate:
        ticker = beartype(ticker)
    async def main():
        asyncio.get_running_loop().set_exception_handler(
            lambda loop, ctx: errors.append(
                (ctx['message'].split(' <')[0], repr(ctx.get('exception')))))
        gen = ticker(3)
        keep.append(gen)              # still referenced at loop shutdown
        log.append(await anext(gen))
    asyncio.run(main())
    return log, errors

orig = scenario(False)
bear = scenario(True)
print('orig:', orig)
print('bear:', bear)
sys.exit(orig != bear)
