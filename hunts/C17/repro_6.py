# default_conf_kwargs() uses "violation_type or <default>": a valid exception
# class that happens to be falsy is ignored when defaulting the three
# violation_*_type options.
import sys
from beartype import BeartypeConf
from beartype.door import die_if_unbearable

class FalsyMeta(type):
    def __bool__(cls): return False      # e.g. a registry-style metaclass defining __len__/__bool__
class MyViolation(Exception, metaclass=FalsyMeta): pass
class PlainViolation(Exception): pass

ok  = BeartypeConf(violation_type=PlainViolation)
bad = BeartypeConf(violation_type=MyViolation)
print('truthy class:', ok.violation_type,  ok.violation_door_type,  ok.violation_param_type)
print('falsy  class:', bad.violation_type, bad.violation_door_type, bad.violation_param_type)
try:
    die_if_unbearable('x', int, conf=bad)
except Exception as e:
    print('die_if_unbearable raised', type(e).__name__)
sys.exit(0 if bad.violation_door_type is MyViolation else 1)
