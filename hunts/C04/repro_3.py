# Keyword arguments whose names collide with the wrapper's hidden
# "__beartype_*" keyword-only parameters are swallowed by the wrapper instead
# of reaching the original; the "reserved name" guard only fires for
# *annotated* parameters.
from beartype import beartype

bugs = []

def orig(a: int, **kw):
    return ('ran', a, kw)
dec = beartype(orig)
expected = orig(1, __beartype_func=5)          # fine: lands in **kw
try:
    got = dec(1, __beartype_func=5)
    if got != expected:
        bugs.append(f'(a) got {got!r} != {expected!r}')
except TypeError as e:
    bugs.append(f'(a) dec(1, __beartype_func=5) raised TypeError({e}); original returns {expected!r}')

got = dec(1, __beartype_conf=None)
exp = orig(1, __beartype_conf=None)
if got != exp:
    bugs.append(f'(b) **kw lost a key: got {got!r}, original gives {exp!r}')

# (c) an explicitly declared but unannotated parameter with a reserved name is
#     accepted at decoration time (the guard is skipped for unannotated
#     parameters) and then cannot be passed by keyword.
def orig2(a: int, __beartype_func=None):
    return ('ran', a, __beartype_func)
dec2 = beartype(orig2)
try:
    got = dec2(1, __beartype_func=7)
    if got != orig2(1, __beartype_func=7):
        bugs.append(f'(c) got {got!r}')
except TypeError as e:
    bugs.append(f'(c) dec2(1, __beartype_func=7) raised TypeError({e}); original returns {orig2(1, __beartype_func=7)!r}')

for b in bugs: print('BUG', b)
raise SystemExit(1 if bugs else 0)
