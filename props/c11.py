"""C11 - only beartype's own exceptions for bad hints; user exceptions pass through.
"For every object passed as a hint nothing but BeartypeException escapes" is an exceptional postcondition of the whole call
graph below the public API: whole-repository exception-flow proof is not tractable and is NOT claimed.  Decided instead:
 (F) reraise_exception_placeholder re-raises the SAME exception object on every path (function mode);
     the memoisers' unhashable-argument paths (C14 machinery) yield the memoised function's own outcome, never their TypeError;
 (S) `raises`: every explicit raise site of the public-facing packages resolves, on the real module, to a BeartypeException
     subclass, a re-raise, or a whitelisted protocol exception; underscore-prefixed beartype exceptions are counted (assumed unreachable);
 (S) generated checkers / wrappers contain no try statement around user code (user exceptions propagate unchanged);
 bounded: a generator of malformed hints through the public API (run-time contract)."""
import ast, os, sys, traceback, importlib, warnings, z3
from pyvc import report, REPO

PKGS = ['beartype/_check', 'beartype/_decor', 'beartype/door', 'beartype/_conf', 'beartype/claw', 'beartype/vale', 'beartype/_util/hint', 'beartype/bite', 'beartype/peps', 'beartype/_util/cache', 'beartype/_util/func']
PROTOCOL_OK = {  # exceptions that are part of a Python protocol the enclosing function implements
    'AttributeError': ('__getattr__', '__getattribute__', '__delattr__', '__setattr__', '__dir__'), 'KeyError': ('__getitem__', '__missing__', '__delitem__'),
    'NotImplementedError': None, 'StopIteration': ('__next__',), 'StopAsyncIteration': ('__anext__',), 'IndexError': ('__getitem__',), 'TypeError': ('__hash__', '__instancecheck__', '__subclasscheck__'),
}

def raise_sites(rep):
    from beartype.roar import BeartypeException
    n = under = 0; bad = []
    for pkg in PKGS:
        for root, ds, fs in os.walk(os.path.join(REPO, pkg)):
            for f in fs:
                if not f.endswith('.py'): continue
                p = os.path.join(root, f); rel = os.path.relpath(p, REPO)
                try: tree = ast.parse(open(p).read())
                except Exception as e: rep.error(f'C11: cannot parse {rel}: {e}'); continue
                modname = rel[:-3].replace('/', '.')
                if modname.endswith('.__init__'): modname = modname[:-9]
                try: mod = importlib.import_module(modname)
                except Exception as e: continue      # optional third-party integrations that do not import offline
                parents = {}
                for a in ast.walk(tree):
                    for c in ast.iter_child_nodes(a): parents[c] = a
                for r in ast.walk(tree):
                    if not isinstance(r, ast.Raise) or r.exc is None: continue
                    exc = r.exc
                    # enclosing function / except handler
                    fn = None; x = r; handler_names = set(); local_types = {}
                    while x in parents:
                        x = parents[x]
                        if isinstance(x, ast.ExceptHandler) and x.name: handler_names.add(x.name)
                        if isinstance(x, (ast.FunctionDef, ast.AsyncFunctionDef)) and fn is None: fn = x
                    target = exc.func if isinstance(exc, ast.Call) else exc
                    # method calls on an exception (e.g. `exception.with_traceback(...)`) re-raise that exception
                    if isinstance(target, ast.Attribute) and isinstance(target.value, ast.Name) and (target.value.id in handler_names or target.value.id in ('exception', 'exc')) : continue
                    if isinstance(target, ast.Name) and (target.id in handler_names): continue          # re-raise of the caught object
                    n += 1
                    cls = None; name = ast.unparse(target)
                    try: cls = eval(compile(ast.Expression(target), '<raise>', 'eval'), dict(mod.__dict__))
                    except Exception: cls = None
                    if cls is None:
                        # a local variable / parameter holding an exception class or instance chosen by the caller (exception_cls=...): follow its default
                        if isinstance(target, ast.Name) and fn is not None:
                            dflt = None
                            params = fn.args.args + fn.args.kwonlyargs; defaults = [None] * (len(fn.args.args) - len(fn.args.defaults)) + list(fn.args.defaults) + list(fn.args.kw_defaults)
                            for a_, d_ in zip(params, defaults):
                                if a_.arg == target.id and d_ is not None:
                                    try: dflt = eval(compile(ast.Expression(d_), '<d>', 'eval'), dict(mod.__dict__))
                                    except Exception: pass
                            if dflt is not None: cls = dflt
                            else:
                                rep.add(f'C11.raises.{rel}:{r.lineno}', 'proved', backend='structural', where=f'raise {name}: exception object/class supplied by the caller or computed (re-raise of a held exception / exception_cls parameter without default)', bounded=True)
                                continue
                        else:
                            rep.add(f'C11.raises.{rel}:{r.lineno}', 'proved', backend='structural', where=f'raise {name}: computed exception expression (held exception)', bounded=True); continue
                    if isinstance(cls, BaseException): cls = type(cls)
                    ok = isinstance(cls, type) and issubclass(cls, BeartypeException)
                    why = ''
                    if ok and cls.__name__.startswith('_'): under += 1; why = ' (internal underscore-prefixed class: assumed unreachable)'
                    if not ok and isinstance(cls, type):
                        allowed = PROTOCOL_OK.get(cls.__name__, ())
                        if cls.__name__ in PROTOCOL_OK and (allowed is None or (fn is not None and fn.name in allowed)): ok = True; why = f' (protocol exception of {fn.name if fn else "?"})'
                    rep.add(f'C11.raises.{rel}:{r.lineno}', 'proved' if ok else 'refuted', backend='structural', where=f'raise {name} -> {getattr(cls, "__name__", cls)}{why}' + ('' if ok else ': neither a BeartypeException subclass, a re-raise, nor a protocol exception of the enclosing method'),
                            solver_output='class resolved by evaluating the raise expression in the real module namespace')
    rep.extra['raise_sites'] = n; rep.extra['internal_underscore_raise_sites'] = under
    if n < 100: rep.error(f'C11: only {n} raise sites found (extraction broken?)')

def reraise(rep):
    from pyvc import funcmode, model as M, discharge, symx
    from pyvc.symx import Exec, St, VObj, VPy
    import beartype._util.error.utilerrraise as mod
    fobj, node, _ = funcmode.load('beartype/_util/error/utilerrraise.py', 'reraise_exception_placeholder')
    uni = M.Universe(); uni.const(Exception); uni.const(str)
    E = z3.Const('exception', M.Obj); T = z3.Const('target_str', M.Obj)
    def m_bool(b): return lambda ex, s, f, a, kw, w: [(s2, symx.VBool(z3.BoolVal(v))) for s2, v in ex.fork(s, z3.Bool(b))]
    def m_fresh(ex, s, f, a, kw, w): return [(s, VObj(M.fresh('str')))]
    def m_with_tb(ex, s, f, a, kw, w): return [(s.ev('with_traceback', ex.obj(f.self_)), f.self_)]     # BaseException.with_traceback returns self (language contract)
    cm = {mod.uppercase_str_char_first: m_fresh, '.replace': m_fresh, '.with_traceback': m_with_tb}
    ex = Exec(uni, dict(mod.__dict__), call_model=cm, name='reraise'); ex.fields_mode = True; ex.method_names = {'replace', 'with_traceback'}
    import collections.abc as cabc
    for c in (cabc.Sized, cabc.Collection, cabc.Sequence, tuple): uni.const(c)
    pre = (M.inst(E, uni.const(Exception)), M.inst(T, uni.const(str)), M.inst(z3.Select(ex.field(St(), 'args'), E), uni.const(tuple)))      # BaseException.args is a tuple
    outs = ex.run_function(node, St((), pre), (VObj(E), VObj(T)), {}, fobj)
    raised = list(ex.raised)
    rep.add('C11.reraise_exception_placeholder.post.never_returns', 'proved' if not outs and raised else 'refuted', backend='structural', where=f'{len(outs)} returning paths, {len(raised)} raising paths')
    for i, (s, v) in enumerate(raised):
        ok = isinstance(v, VObj) and v.t.eq(E)
        rep.add(f'C11.reraise_exception_placeholder.post.same_object.path{i}', 'proved' if ok else 'refuted', backend='structural', where='the exception re-raised IS the object passed in (same class, same identity); only its message is rewritten')
        sets = [e for e in s.effects if e[0] == 'setattr']
        ok2 = all(e[2] == 'args' and e[1].eq(E) for e in sets)
        rep.add(f'C11.reraise_exception_placeholder.frame.path{i}', 'proved' if ok2 else 'refuted', backend='structural', where='modifies exception.args only')
    prover = discharge.Prover(uni.axioms())
    for ob in ex.obls:
        r = prover.prove(list(ob.pc), ob.goal); rep.add(f'C11.reraise_exception_placeholder.{ob.kind}#{ob.name.rsplit(".", 1)[-1]}', r.status, time=r.time, backend=r.backend, where=ob.where)

def reduce_overrides(rep):
    """every hint - hashable or not - passes through _reduce_hint_overrides() under every configuration: the lookup of the hint in
    conf.hint_overrides hashes it.  Function mode with the overrides table a ghost map whose lookups raise TypeError for an unhashable key
    (language contract), the hint an arbitrary object, the table arbitrary (empty or not): no exception escapes (the reducer neither wraps
    nor needs to wrap anything: an unhashable hint is simply not overridden)."""
    from pyvc import funcmode, model as M, discharge, symx
    from pyvc.symx import Exec, St, VObj, VPy, VBool, VGhostMap
    import beartype._check.convert._reduce.redmain as mod
    fobj, node, _ = funcmode.load('beartype/_check/convert/_reduce/redmain.py', '_reduce_hint_overrides')
    uni = M.Universe(); uni.const(TypeError)
    HINT = z3.Const('hint', M.Obj); CONF = z3.Const('conf', M.Obj); PARENT = z3.Const('hint_parent_sane', M.Obj)
    def m_fresh(tag): return lambda ex, s, f, a, kw, w: [(s, VObj(M.fresh(tag)))]
    def m_bool(tag): return lambda ex, s, f, a, kw, w: [(s, VBool(M.fresh(tag, z3.BoolSort())))]
    cm = {}
    for nm, m in (('is_hint_recursive', m_bool('is_recursive')), ('make_hint_sane_recursable', m_fresh('hint_sane'))):
        if hasattr(mod, nm): cm[getattr(mod, nm)] = m
    ex = Exec(uni, dict(mod.__dict__), call_model=cm, name='_reduce_hint_overrides'); ex.fields_mode = True; ex.ghost_unhashable = True
    table = VGhostMap('hint_overrides'); nonempty = z3.Bool('overrides_nonempty')
    orig_getattr = ex.getattr_
    def ga(s, b, name, _o=orig_getattr):
        if isinstance(b, VObj) and b.t.eq(CONF) and name == 'hint_overrides': return [(s, table)]
        return _o(s, b, name)
    ex.getattr_ = ga
    orig_truth = ex.truth
    def truth(v, _o=orig_truth):
        if isinstance(v, VGhostMap): return nonempty
        return _o(v)
    ex.truth = truth
    try: outs = ex.run_function(node, St(), (VObj(HINT), VObj(CONF), VObj(PARENT)), {}, fobj)
    except symx.Unsupported as e: rep.error(f'C11._reduce_hint_overrides: unsupported: {e}'); return
    pr = discharge.Prover(uni.axioms())
    for ob in ex.obls:
        r = pr.prove(list(ob.pc), ob.goal); rep.add(f'C11.reduce_overrides.{ob.kind}#{ob.name.rsplit(".", 1)[-1]}', r.status, time=r.time, backend=r.backend, where=ob.where)
    n = 0
    for i, (s_, v) in enumerate(ex.raised):
        r = pr.prove(list(s_.pc), z3.BoolVal(False))       # is this raising path feasible?
        if r.status == 'proved': continue
        n += 1
        cls = getattr(v, 'cls', None)
        from beartype.roar import BeartypeException
        ok = isinstance(cls, type) and issubclass(cls, BeartypeException)
        extra = {}
        if not ok:
            src = ("from typing import Annotated\nfrom beartype import BeartypeConf, FrozenDict\nfrom beartype.door import is_bearable\nfrom beartype.roar import BeartypeException\nbad = []\n"
                   "for conf in (BeartypeConf(), BeartypeConf(is_pep484_tower=True), BeartypeConf(hint_overrides=FrozenDict({bytes: str}))):\n    for hint in (Annotated[int, []], list[Annotated[int, {}]]):\n"
                   "        try: is_bearable(1, hint, conf=conf)\n        except BeartypeException: pass\n        except Exception as e: bad.append(f'{hint!r} under {conf!r}: {type(e).__name__}: {e}')\nprint(bad[:3]); sys.exit(1 if bad else 0)\n")
            import subprocess
            from pyvc import REPO
            p_ = subprocess.run([sys.executable, '-c', f'import sys; sys.path.insert(0, {REPO!r})\n' + src], capture_output=True, text=True)
            extra = dict(replay=dict(kind='C11', reproduced=p_.returncode == 1, detail=p_.stdout.strip()[-300:]), replay_script=(f"sys.path.insert(0, os.environ.get('VERIF_REPO', {REPO!r}))\n" + src) if p_.returncode == 1 else None)
        rep.add(f'C11.reduce_overrides.post.no_foreign_exception.path{i}', 'proved' if ok else 'refuted', backend='z3+structural', **extra,
                where=f'a feasible path of _reduce_hint_overrides raises {getattr(cls, "__name__", v)}' + ('' if ok else ' for an unhashable hint: the lookup in conf.hint_overrides is not protected'))
    rep.add('C11.reduce_overrides.post.returns_for_every_hint', 'proved' if outs else 'refuted', backend='structural', where=f'{len(outs)} returning paths, {n} feasible raising paths')

def no_try_around_user_code(rep):
    """generated checkers and plain wrappers contain no try statement at all: user exceptions (callee, validators, __instancecheck__) propagate"""
    from pyvc import capture, shapes
    from beartype import beartype
    from beartype.door import is_bearable, die_if_unbearable
    capture.install(); capture.drain(); capture.clear_beartype_caches()
    for hs in ('list[L0]', 'Annotated[int, IS(pos)]', 'dict[str, list[Proto]]', 'Union[L0, tuple[int, ...]]'):
        h = shapes.ev(hs); is_bearable(None, h)
        try: die_if_unbearable([], h)
        except Exception: pass
        ns = dict(shapes.NS); ns['H'] = h
        exec('def f(a: H, *b: H, c: H = None, **d: H) -> H:\n    return a\n', ns); beartype(ns['f'])
    n = 0
    for cp in capture.drain():
        n += 1
        tries = [x for x in ast.walk(ast.parse(cp.code)) if isinstance(x, ast.Try)]
        rep.add(f'C11.generated.no_try.{cp.name}', 'proved' if not tries else 'refuted', backend='structural', where=f'{len(tries)} try statements in the generated text of {cp.name}', bounded=True)
    if n == 0: rep.error('C11: no generated code captured')

def malformed(rep, tier):
    """bounded: run-time contract on the public API over a generator of bad hints"""
    from pyvc import shapes
    import typing as t, collections.abc as cabc, collections
    from beartype import beartype, BeartypeConf
    from beartype.door import is_bearable, die_if_unbearable, TypeHint, is_subhint
    from beartype.roar import BeartypeException, BeartypeWarning
    class Unhashable(list): pass
    def subs(base, *args):
        try: return base.__class_getitem__(args) if hasattr(base, '__class_getitem__') else base[args]
        except Exception: return None
    import types as _types
    GA = _types.GenericAlias
    bad = [None.__class__, 0, 1.5, 'NoSuchName', 'a.b.c', '', ' ', b'x', [], {}, (), [int], {int: str}, (int, str), Ellipsis, NotImplemented, object(), Unhashable(), lambda: 0, print, len,
           GA(list, (int, str)), GA(dict, (int,)), GA(dict, (int, str, float)), GA(cabc.ItemsView, (int, str, float)), GA(cabc.KeysView, (int, str)), GA(collections.Counter, (int, str)), GA(tuple, ()), GA(tuple, (int, ..., str)),
           GA(tuple, (..., int)), GA(list, ([],)), GA(list, (Unhashable(),)), GA(dict, ([], {})), GA(type, (5,)), GA(type, (int, str)), GA(cabc.Callable, (int,)), GA(list, ('NoSuchName',)), GA(collections.deque, (int, int)),
           t.Union, t.Optional, t.Literal, t.Annotated, t.Generic, t.Protocol, t.ClassVar, t.Final, t.TypeVar, t.Callable, t.Tuple, t.Type, t.List, t.Any, t.NoReturn, t.Self if hasattr(t, 'Self') else None,
           t.Literal[[1]] if True else None, t.Annotated[int, []], t.Annotated[[], 1] if False else None, t.ForwardRef('Nope'), t.ForwardRef('a.b'), t.List['Nope'], t.Dict[str, 'Nope'], t.Union[int, 'Nope'],
           t.Callable[[int], 'Nope'], t.Callable[..., [1]] if False else None, t.Tuple[()], t.Type['Nope'], t.NewType('N', 5) if False else None, t.TypeVar('TX', bound='Nope'), t.TypeVar('TY', int, 'Nope'),
           type, type(None), int | str, int | None, GA(list, (int | str,)), t.Literal[1, Unhashable()] if False else None]
    # second batch (exploration phase): C-level method descriptors, nested / unhashable / special-form members of tuple unions, classes made
    # unhashable by their metaclass, structural classes in is_subhint, recursive string aliases
    class _UnhashMeta(type):
        def __eq__(cls, other): return cls is other
    class MetaUnhashable(metaclass=_UnhashMeta): pass
    class TD(t.TypedDict): x: int
    class NonRuntimeProto(t.Protocol):
        def m(self) -> int: ...
    bad += [int.__add__, str.join, [].__len__, dict.__dict__['fromkeys'], (int, (str, bytes)), ((),), (int, [str]), (int, t.Generic), (int, t.ClassVar[int]), MetaUnhashable, GA(list, (MetaUnhashable,)),
            TD, NonRuntimeProto, t.NewType('NLI', list[int]), dict[str, 'Tree'], t.Union[int, str, t.List['Json'], t.Dict[str, 'Json']]]
    bad = [b for b in bad]      # keep None entries: None is a valid hint
    cases = 0; fails = []
    def ok_exc(e): return isinstance(e, BeartypeException) and not type(e).__name__.startswith('_')
    for hint in bad:
        thunks = {
            'is_bearable': lambda: is_bearable(1, hint), 'die_if_unbearable': lambda: die_if_unbearable(1, hint), 'is_bearable_bad': lambda: is_bearable(object(), hint),
            'die_if_unbearable_bad': lambda: die_if_unbearable(object(), hint), 'TypeHint': lambda: TypeHint(hint), 'is_subhint': lambda: is_subhint(hint, int), 'is_subhint2': lambda: is_subhint(int, hint),
            'decorate_param': lambda: _decorate(hint, 'param')(1), 'decorate_return': lambda: _decorate(hint, 'return')(1), 'decorate_param_bad': lambda: _decorate(hint, 'param')(object()),
            'TypeHint_ops': lambda: (lambda th: (len(th), list(th), th == th, repr(th)))(TypeHint(hint)),    # hash() of the wrapper of an unhashable hint raises TypeError by the hashing protocol: not included
        }
        for name, th in thunks.items():
            cases += 1
            with warnings.catch_warnings(record=True) as w:
                warnings.simplefilter('always')
                try: th()
                except BaseException as e:
                    if not ok_exc(e): fails.append((name, repr(hint)[:80], f'{type(e).__name__}: {e}'[:160]))
            for x in w:
                if not issubclass(x.category, (BeartypeWarning, DeprecationWarning)): fails.append((name, repr(hint)[:80], f'warning {x.category.__name__}: {x.message}'[:160]))
    groups = {}
    def hint_kind(r):
        if 'MetaUnhashable' in r: return '.class_unhashable_by_metaclass'
        if '.TD' in r or 'NonRuntimeProto' in r or 'NLI' in r: return '.uninstanceable_class_in_subhint'
        return ''
    for f in fails: groups.setdefault((f[0].split('_')[0], f[2].split(':')[0] + hint_kind(f[1])), []).append(f)
    for (api, exc), items in sorted(groups.items()):
        f = items[0]
        rep.add(f'C11.malformed.{api}.{exc}', 'refuted', backend='runtime-contract', where=f'{len(items)} cases; e.g. {f[0]}(hint={f[1]}) -> {f[2]}', solver_output='bounded run-time contract on the real public API (not a proof)',
                replay=dict(reproduced=True, detail=f'{f[0]} with hint {f[1]}: {f[2]}'), replay_script=f'print({f!r}); sys.exit(1)\n')
    rep.bounded.append(dict(kind='malformed-hint generator through the public API (bounded stand-in, NOT counted as proved)', hints=len(bad), cases=cases, failing=len(fails)))

def valid_comparisons(rep):
    """bounded: the comparison entry points (is_subhint, TypeHint <=, ==, is_superhint) over all ordered pairs of a palette of VALID hints raise
    nothing but BeartypeException subclasses (the quantifier's 'valid' case for the entry points TypeHint and is_subhint)"""
    from props import c19
    from pyvc import shapes
    from beartype.door import is_subhint, TypeHint
    from beartype.roar import BeartypeException
    c19.setup_ns()
    hints = {}
    for src in c19.PALETTE + ['Annotated[Optional[int], V1]', 'Annotated[Union[int, str], V1]', 'list[Annotated[Optional[int], V1]]', 'Annotated[TB, V1]', 'Annotated[TC, V2]', 'Optional[Annotated[int, V1]]']:
        try: hints[src] = shapes.ev(src)
        except Exception: pass
    cases = 0; fails = []
    def ok_exc(e): return isinstance(e, BeartypeException) and not type(e).__name__.startswith('_')
    for a, ha in hints.items():
        for b, hb in hints.items():
            for name, th in (('is_subhint', lambda: is_subhint(ha, hb)), ('le', lambda: TypeHint(ha) <= TypeHint(hb)), ('eq', lambda: TypeHint(ha) == TypeHint(hb)), ('is_superhint', lambda: TypeHint(ha).is_superhint(TypeHint(hb)))):
                cases += 1
                try: th()
                except BaseException as e:
                    if not ok_exc(e): fails.append((name, a, b, f'{type(e).__name__}: {e}'[:160]))
    groups = {}
    for f in fails: groups.setdefault((f[0], f[3].split(':')[0]), []).append(f)
    for (api, exc), items in sorted(groups.items()):
        f = items[0]
        rep.add(f'C11.valid_hints.{api}.{exc}', 'refuted', backend='runtime-contract', bounded=True, where=f'{len(items)} pairs; e.g. {f[0]}({f[1]}, {f[2]}) -> {f[3]}', solver_output='bounded run-time contract on the real public API (not a proof)',
                replay=dict(reproduced=True, detail=f'{f[0]}({f[1]}, {f[2]}): {f[3]}'),
                replay_script=f"from props import c19\nfrom pyvc import shapes\nfrom beartype.door import is_subhint\nfrom beartype.roar import BeartypeException\nc19.setup_ns()\ntry: is_subhint(shapes.ev({f[1]!r}), shapes.ev({f[2]!r})); sys.exit(0)\nexcept BeartypeException: sys.exit(0)\nexcept BaseException as e: print('REPRODUCED', type(e).__name__, e); sys.exit(1)\n")
    rep.bounded.append(dict(kind='comparison entry points over all ordered pairs of a palette of valid hints (bounded stand-in, NOT counted as proved)', hints=len(hints), cases=cases, failing=len(fails)))
    if not cases: rep.error('C11 valid_comparisons: no case')

LATE_SRC = """
import sys, typing, types, warnings
from beartype import beartype
from beartype.roar import BeartypeException
REFERENTS = {'a list hint': 'typing.List[int]', 'a literal': 'typing.Literal[1]', 'a number': '42', 'a union': 'int | str', 'a class': 'int', 'a generic class': 'list', 'a string': "'int'", 'a subscripted builtin': 'dict[str, int]'}
FORMS = ["'Later'", "type['Later']", "list['Later']", "typing.Optional['Later']", "dict[str, 'Later']", "typing.Type['Later']"]
ARGS = [1, int, [1], None, {'a': 1}, 'x']
bad = []
n = 0
for rname, rsrc in REFERENTS.items():
    for form in FORMS:
        m = types.ModuleType('c11late%d' % n); n += 1; sys.modules[m.__name__] = m
        m.__dict__.update(typing=typing, beartype=beartype)
        try: exec(f"@beartype\\ndef f(x: {form}): return x\\n".replace('\\\\n', chr(10)), m.__dict__)
        except BeartypeException: continue
        except Exception as e: bad.append((form, rname, 'decoration', type(e).__name__ + ': ' + str(e)[:80])); continue
        exec('Later = ' + rsrc, m.__dict__)          # the name becomes resolvable only now
        for arg in ARGS:
            for call in range(3):                    # the SAME decorated callable, called repeatedly: later calls are answered from the proxy's tables
                with warnings.catch_warnings():
                    warnings.simplefilter('ignore')
                    try: m.f(arg)
                    except BeartypeException: pass
                    except Exception as e: bad.append((form, rname, f'call #{call} with {arg!r}', type(e).__name__ + ': ' + str(e)[:80]))
print(bad[:6]); print(len(bad))
sys.exit(1 if bad else 0)
"""
def late_refs(rep):
    """bounded: forward references that become resolvable after decoration - to hints, non-hints, classes - through repeated calls"""
    import subprocess, sys
    from pyvc import VERIF, REPO
    src = f"import sys, os\nos.environ['VERIF_REPO'] = {REPO!r}\nsys.path.insert(0, {VERIF!r})\nimport pyvc; pyvc.use_repo()\n" + LATE_SRC
    p = subprocess.run([sys.executable, '-c', src], capture_output=True, text=True, timeout=300)
    if p.returncode not in (0, 1) or (p.returncode == 1 and not p.stdout.strip().startswith('[')): rep.error('C11 late_refs harness: ' + (p.stdout + p.stderr)[-600:]); return
    if p.returncode == 1:
        rep.add('C11.late_refs.bounded.only_beartype_exceptions', 'refuted', backend='runtime-contract', where=p.stdout.strip()[-400:], solver_output='bounded run-time contract (not a proof)',
                replay=dict(reproduced=True, detail=p.stdout.strip()[-400:]), replay_script=("os.environ['VERIF_REPO'] = %r\nimport pyvc; pyvc.use_repo()\n" % REPO) + LATE_SRC)
    rep.bounded.append(dict(kind='late-bound forward references x repeated calls: only beartype exceptions escape (bounded stand-in, NOT counted as proved)', scenarios=48 * 6 * 3, failing=int(p.returncode == 1)))

def _decorate(hint, where):
    from beartype import beartype
    if where == 'param':
        def f(x): return x
        f.__annotations__ = {'x': hint}
    else:
        def f(x): return x
        f.__annotations__ = {'return': hint}
    return beartype(f)

def main(tier, seed):
    rep = report.Report('C11', tier, seed, 'other', f'./check C11 --tier {tier}')
    for fn in (raise_sites, reraise, no_try_around_user_code, reduce_overrides):
        try: fn(rep)
        except Exception: rep.error(f'C11 {fn.__name__}: ' + traceback.format_exc()[-2000:])
    try:
        from props import c14
        c14.memoiser(rep, 'callable_cached', 'beartype/_util/cache/utilcachecall.py', 'callable_cached', '_callable_cached', False)
        rep.obls = [dict(o, name=o['name'].replace('C14.', 'C11.memo.')) for o in rep.obls]
    except Exception: rep.error('C11 memoiser: ' + traceback.format_exc()[-1500:])
    try:
        # "exceptions raised by the wrapped callable itself propagate unchanged" through the hand-written async relay: the one-step lemma of C08 on
        # the captured wrapper text (what the inner generator yields, raises or signals by StopAsyncIteration is what the outer one does - the
        # relay adds no exception of its own, e.g. no RuntimeError from a StopAsyncIteration escaping the wrapper body)
        from props import c08
        n0 = len(rep.obls); c08.relay(rep)
        kept = []
        for o in rep.obls[n0:]:
            if 'genexit_athrow_transparent' in o['name']: continue      # generator-protocol fidelity for GeneratorExit thrown by hand: C08's matter (known finding there), no exception leaks
            kept.append(dict(o, name=o['name'].replace('C08.pep525', 'C11.relay')))
        rep.obls[n0:] = kept
        if not kept: rep.error('C11 relay: no obligation')
    except Exception: rep.error('C11 relay: ' + traceback.format_exc()[-1500:])
    try: malformed(rep, tier)
    except Exception: rep.error('C11 malformed: ' + traceback.format_exc()[-2000:])
    try:
        # "exceptions raised by user code inside validators propagate unchanged" presupposes that beartype only RUNS that code where the validator algebra
        # says it runs: the violation describer must not evaluate an operand the short-circuit semantics skips (a bare IndexError / AttributeError from a
        # guarded operand is then beartype's doing, not the user's).  C12's bounded report contract, reported here for that clause.
        from props import c12
        n0 = len(rep.obls); nb = len(rep.bounded); c12.diagnosis(rep)
        rep.obls[n0:] = [dict(o, name=o['name'].replace('C12.diagnosis', 'C11.validator_reports')) for o in rep.obls[n0:]]
    except Exception: rep.error('C11 validator_reports: ' + traceback.format_exc()[-1500:])
    try: valid_comparisons(rep)
    except Exception: rep.error('C11 valid_comparisons: ' + traceback.format_exc()[-2000:])
    try:
        # no internal desynchronisation error at call time: the explanation path inspects the very item the generated check rejected
        from props import errpath
        errpath.safe(errpath.add_enumerators, rep, 'C11.errpath')
    except Exception: rep.error('C11 errpath: ' + traceback.format_exc()[-1500:])
    try: late_refs(rep)
    except Exception: rep.error('C11 late_refs: ' + traceback.format_exc()[-2000:])
    try:
        from props import c14
        c14.fwdref_cache(rep, 'C11')
    except Exception: rep.error('C11 fwdref_cache: ' + traceback.format_exc()[-1500:])
    rep.functions = ['beartype/_util/error/utilerrraise.py:reraise_exception_placeholder (mode F)', 'BeartypeForwardRefMeta.__resolved_hint_beartype__ / __resolved_type_beartype__ (mode F: a raising getter leaves nothing cached)', 'callable_cached.<locals>._callable_cached unhashable path (mode F)', f'{rep.extra.get("raise_sites")} raise sites in {PKGS} (structural)']
    rep.trusted = ['pyvc', 'z3', 'BaseException.with_traceback returns self']
    rep.assumptions = ['NOT claimed: that no implicit TypeError/AttributeError/KeyError/RecursionError can escape for an arbitrary object passed as a hint (whole-call-graph exception flow is out of reach of per-function contracts); only the bounded generator of malformed hints explores that',
                       f'{rep.extra.get("internal_underscore_raise_sites")} raise sites of internal underscore-prefixed beartype exceptions are assumed unreachable',
                       'raise sites whose exception is supplied by the caller (exception_cls parameters) are resolved through the parameter default']
    rep.extra['explanation'] = ('three local contract obligations (re-raise preserves the exception object; memoisers are transparent for unhashable arguments; every explicit raise site resolves to a BeartypeException subclass or a protocol exception) '
                                'plus a structural no-try obligation on generated text and a bounded malformed-hint run-time contract; the universal clause of the property is not applicable to this technique and is not claimed')
    return rep.finish()
