"""Discharge: one obligation = one solver query  not(hyps => goal).
unsat -> proved; sat -> refuted (model); unknown/timeout -> same query (SMT-LIB2 dump) to cvc5; still open -> undecided.
`unknown`, timeouts and crashes are NEVER mapped to a violation (DESIGN 2.4)."""
import z3, time, subprocess, tempfile, os, shutil

Z3_MS = int(os.environ.get('VERIF_Z3_MS', '10000'))
CVC5_MS = int(os.environ.get('VERIF_CVC5_MS', '10000'))
STATS = {'z3_queries': 0, 'z3_time': 0.0, 'cvc5_queries': 0, 'cvc5_time': 0.0, 'cvc5_decided': 0}

class Result:
    __slots__ = ('status', 'model', 'solver', 'backend', 'time', 'reason')
    def __init__(self, status, model=None, solver=None, backend='z3', time=0.0, reason=''):
        self.status, self.model, self.solver, self.backend, self.time, self.reason = status, model, solver, backend, time, reason
    def __repr__(self): return f'<{self.status} by {self.backend} in {self.time:.3f}s>'

def _cvc5_cli(smt2, ms):
    exe = shutil.which('cvc5') or '/usr/bin/cvc5'
    with tempfile.NamedTemporaryFile('w', suffix='.smt2', delete=False, dir='/dev/shm' if os.path.isdir('/dev/shm') else None) as f:
        f.write('(set-logic ALL)\n' + smt2 + '\n'); fn = f.name
    try:
        p = subprocess.run([exe, '--lang=smt2', f'--tlimit={ms}', '--full-saturate-quant', fn], capture_output=True, text=True, timeout=ms / 1000 + 5)
        out = p.stdout.strip().splitlines()
        return out[0] if out else 'unknown'
    except Exception:
        return 'unknown'
    finally:
        os.unlink(fn)

def prove(axioms, hyps, goal, z3_ms=None, cvc5_ms=None, want_model=True):
    z3_ms = z3_ms or Z3_MS; cvc5_ms = cvc5_ms or CVC5_MS
    s = z3.Solver(); s.set('timeout', z3_ms)
    s.add(*axioms); s.add(*hyps); s.add(z3.Not(goal))
    t0 = time.time(); r = s.check(); dt = time.time() - t0
    STATS['z3_queries'] += 1; STATS['z3_time'] += dt
    if r == z3.unsat: return Result('proved', backend='z3', time=dt)
    if r == z3.sat: return Result('refuted', model=s.model(), solver=s, backend='z3', time=dt)
    reason = s.reason_unknown()
    # second opinion
    t1 = time.time()
    try: smt2 = s.to_smt2()
    except Exception: smt2 = None
    ans = _cvc5_cli(smt2, cvc5_ms) if smt2 else 'unknown'
    dt2 = time.time() - t1; STATS['cvc5_queries'] += 1; STATS['cvc5_time'] += dt2
    if ans == 'unsat':
        STATS['cvc5_decided'] += 1
        return Result('proved', backend='cvc5', time=dt + dt2)
    if ans == 'sat':
        STATS['cvc5_decided'] += 1
        return Result('refuted', model=None, solver=s, backend='cvc5', time=dt + dt2, reason='cvc5 sat (no model extracted)')
    return Result('undecided', backend='z3+cvc5', time=dt + dt2, reason=f'z3: {reason}; cvc5: {ans}')


class VacuousAxioms(RuntimeError): pass

class Prover:
    """one incremental solver per target (axioms asserted once, each obligation in its own push/pop frame); an `unknown`
    is retried from scratch with a fresh solver (and then cvc5) by prove() - never mapped to a verdict"""
    def __init__(self, axioms, z3_ms=None):
        self.axioms = list(axioms); self.s = z3.Solver(); self.s.set('timeout', z3_ms or Z3_MS); self.s.add(*self.axioms)
        # vacuity guard: contradictory axioms would prove everything
        if self.s.check() == z3.unsat: raise VacuousAxioms('vacuity guard: the axioms of this target are contradictory (every obligation would be proved)')
    def prove(self, hyps, goal):
        s = self.s; s.push()
        try:
            s.add(*hyps); s.add(z3.Not(goal))
            t0 = time.time(); r = s.check(); dt = time.time() - t0
            STATS['z3_queries'] += 1; STATS['z3_time'] += dt
            if r == z3.unsat: return Result('proved', backend='z3', time=dt)
        finally:
            s.pop()
        # sat / unknown: redo in a fresh solver so that the model / second opinion come from the standard pipeline
        res = prove(self.axioms, hyps, goal)
        if res.status == 'undecided':
            # one retry with a 6x budget (a busy machine must not flip a verdict); still never mapped to a verdict if it stays open
            STATS['retries'] = STATS.get('retries', 0) + 1
            res2 = prove(self.axioms, hyps, goal, z3_ms=Z3_MS * 6, cvc5_ms=CVC5_MS * 3)
            if res2.status != 'undecided': return res2
        return res
