"""C19 - is_subhint is a sound preorder and TypeHint wrappers are coherent.
 (F) soundness step of the branch algorithms whose meaning is within the object model (function mode, children abstract:
     child.is_subhint(child') => [[child]] included in [[child']]):  ClassTypeHint, TupleFixedTypeHint (per arity),
     LiteralTypeHint, AnnotatedTypeHint.
 (S) coherence: __len__/__iter__/__getitem__/args read the same wrapped-children tuple; __hash__ is hash(hint); TypeHint(h) is
     TypeHint(h) via the metaclass contract of C14 (CacheUnboundedStrong keyed by the hint itself).
 bounded: reflexivity, transitivity over all triples, soundness against an independent conformance oracle and coherence over
     a palette of hints x objects (run-time contract on the real API)."""
import ast, os, sys, traceback, itertools, z3
from pyvc import report

PALETTE = ['int', 'bool', 'str', 'float', 'object', 'L0', 'L1', 'L2', 'None', 'Union[int, str]', 'Union[int, str, None]', 'Optional[L0]', 'Union[L2, L1]', 'Literal[1]', 'Literal[True]', "Literal[1, 'a']", "Literal['a']",
           'Literal[1, 2]', 'Literal[2]', 'Union[Literal[2], str]', 'Optional[Literal[2]]', 'list[Literal[1]]', 'list[Optional[Literal[2]]]', 'Annotated[int, V1]', 'Annotated[object, V1]', 'Annotated[T, V2]', 'Annotated[str, V1]', 'Annotated[bool, V1]', 'Annotated[int, V1, V2]', 'Annotated[L0, V1]', 'Annotated[L2, V1]', 'tuple[int, str]', 'tuple[bool, str]', 'tuple[int, ...]', 'tuple[bool, ...]',
           'tuple[int]', 'tuple[()]', 'tuple', 'list[int]', 'list[bool]', 'list', 'Sequence[int]', 'Sequence[bool]', 'Collection[int]', 'Iterable[int]', 'dict[str, int]', 'dict[str, bool]', 'Mapping[str, int]', 'Mapping[str, object]',
           'set[int]', 'frozenset[int]', 'type[L0]', 'type[L2]', 'type', 'Callable[[int], str]', 'Callable[..., object]', 'Callable[[], str]', 'NT', 'TB', 'TBint', 'TBstr', 'T', 'G[int]', 'GL[int]',
           'Callable[[int], int]', 'Callable[[str], int]', 'Callable[[bool], int]', 'Falsy', 'list[Falsy]', 'list[Callable[..., object]]', 'Hashable', 'Sequence', 'Sequence[int]']
OBJS = ['1', '-1', 'True', "'a'", '2.5', 'None', 'L0()', 'L1()', 'L2()', '(1, "a")', '(True, "a")', '(1,)', '()', '(1, 2, 3)', '(True, False)', '[1]', '[True]', "['a']", '[]', "{'a': 1}", "{'a': True}", '{1}', 'frozenset([1])', 'L0', 'L2', 'int',
        'len', '(lambda: 0)', '2', 'G()', 'GL([1])', "GL(['a'])"]

def setup_ns():
    from pyvc import shapes
    from typing import TypeVar
    NS = shapes.NS
    if 'V1' not in NS:
        NS['V1'] = shapes.IS(shapes.pos); NS['V2'] = shapes.IS(shapes.even)
        NS['TBint'] = TypeVar('TX', bound=int); NS['TBstr'] = TypeVar('TX', bound=str)      # two distinct hints with the SAME repr
        class _FalsyMeta(type):
            def __len__(cls): return 0
        class Falsy(metaclass=_FalsyMeta): pass          # a class object that is falsy (its metaclass defines __len__)
        NS['Falsy'] = Falsy
    return NS

def bounded(rep, tier):
    from pyvc import shapes, replaylib
    from beartype.door import TypeHint, is_subhint, is_bearable
    from beartype.roar import BeartypeException
    NS = setup_ns()
    hints = {}
    for s in PALETTE:
        try: hints[s] = shapes.ev(s)
        except Exception: pass
    names = list(hints)
    orc = replaylib.Oracle(None)
    sub = {}; errs = {}
    cases = 0; fails = []
    for a in names:
        for b in names:
            cases += 1
            try: sub[(a, b)] = bool(is_subhint(hints[a], hints[b]))
            except BeartypeException as e: sub[(a, b)] = None; errs[(a, b)] = type(e).__name__
            except Exception as e: fails.append(('exception', f'is_subhint({a}, {b}) raised {type(e).__name__}: {e}'[:200])); sub[(a, b)] = None
    for a in names:
        if sub[(a, a)] is not True: fails.append(('reflexive', f'is_subhint({a}, {a}) is {sub[(a, a)]}'))
    for a, b, c in itertools.product(names, repeat=3):
        cases += 1
        if sub[(a, b)] and sub[(b, c)] and sub[(a, c)] is False: fails.append(('transitive', f'{a} <= {b} and {b} <= {c} but not {a} <= {c}'))
    # soundness: A <= B (no Any involved) and o fully satisfies A  =>  o satisfies B   (independent oracle; validators by their meaning)
    objs = []
    for o in OBJS:
        try: objs.append((o, eval(o, NS)))
        except Exception: pass
    def conf(o, h):
        try: return orc.conforms(o, h)
        except NotImplementedError: return None
    for (a, b), v in sub.items():
        if not v or 'Any' in a or 'Any' in b: continue
        for osrc, o in objs:
            cases += 1
            ca, cb = conf(o, hints[a]), conf(o, hints[b])
            if ca is True and cb is False:
                fails.append(('sound', f'is_subhint({a}, {b}) is True, but {osrc} satisfies {a} and not {b}')); break
    # coherence
    for a in names:
        h = hints[a]; cases += 1
        try:
            t1, t2 = TypeHint(h), TypeHint(h)
            try: hash(h); hashable = True
            except TypeError: hashable = False
            if hashable and t1 is not t2: fails.append(('coherent', f'TypeHint({a}) is not TypeHint({a})'))
            if t1.hint is not h: fails.append(('coherent', f'TypeHint({a}).hint is not the hint it was built from (got {t1.hint!r})'))
            it = list(t1)
            if len(t1) != len(it) or any(t1[i] is not it[i] and t1[i] != it[i] for i in range(len(it))): fails.append(('coherent', f'len/iter/getitem of TypeHint({a}) disagree'))
            if any(ch not in t1 for ch in it): fails.append(('coherent', f'a child of TypeHint({a}) is not `in` it'))
            # "len, iteration, indexing, containment and args all describe the same children"
            try:
                ar = tuple(t1.args)
                same = len(ar) == len(it) and all((it[i].hint is ar[i]) or (it[i].hint == ar[i]) for i in range(len(it)))
            except Exception as e: same = False
            if not same: fails.append(('coherent', f'args_mismatch {type(t1).__name__}: TypeHint({a}).args = {ar!r} but its children are {[c.hint for c in it]!r}'))
            for b in names:
                u = TypeHint(hints[b])
                try: eqv = (t1 == u)
                except Exception: continue
                if eqv:
                    try:
                        if hash(t1) != hash(u): fails.append(('coherent', f'TypeHint({a}) == TypeHint({b}) with different hashes'))
                    except TypeError: pass
                    if not (sub[(a, b)] and sub[(b, a)]): fails.append(('coherent', f'TypeHint({a}) == TypeHint({b}) but they are not mutual subhints'))
        except Exception as e: fails.append(('coherent', f'TypeHint({a}): {type(e).__name__}: {e}'[:160]))
    groups = {}
    for k, msg in fails: groups.setdefault((k, classify(msg)), []).append(msg)
    for (k, cls), msgs in sorted(groups.items()):
        rep.add(f'C19.palette.{k}.{cls}', 'refuted', backend='runtime-contract', where=f'{len(msgs)} cases; e.g. {msgs[0]}'[:400], solver_output='bounded run-time contract on the real API (not a proof)',
                replay=dict(reproduced=True, detail=msgs[0][:300]), replay_script=f'print({msgs[:3]!r}); sys.exit(1)\n')
    rep.bounded.append(dict(kind='reflexivity / transitivity (all triples) / soundness vs an independent conformance oracle / coherence over a hint palette (bounded stand-in, NOT counted as proved)', hints=len(names), objects=len(objs), cases=cases, failing=len(fails),
                            undecidable_pairs=len(errs)))

def classify(msg):
    if 'Hashable' in msg and not msg.startswith('args_mismatch'): return 'Hashable'
    if 'Callable[..., object]' in msg and not msg.startswith('args_mismatch'): return 'Callable_ellipsis_object'
    if msg.startswith('args_mismatch '): return 'args_mismatch_' + msg.split()[1].rstrip(':')
    if msg.count('Callable[[') >= 3 and ' <= ' in msg: return 'Callable_params'       # transitivity across callables differing only in a parameter hint
    for key in ('Literal', 'Annotated', 'TBint', 'TBstr', 'tuple', 'Callable', 'type[', 'NT'):
        if key in msg: return key.strip('[')
    return 'other'

def structural(rep):
    from pyvc import funcmode
    # __len__/__iter__/__getitem__ read the same tuple; args reads _args; __hash__ hashes the hint
    spec = {'__len__': '_args_wrapped_tuple', '__iter__': '_args_wrapped_tuple', '__getitem__': '_args_wrapped_tuple', '__contains__': '_args_wrapped_frozenset', 'args': '_args', '__hash__': '_hint'}
    for meth, fieldname in spec.items():
        fobj, node, _ = funcmode.load('beartype/door/_cls/doorsuper.py', f'TypeHint.{meth}')
        reads = {x.attr for x in ast.walk(node) if isinstance(x, ast.Attribute) and isinstance(x.value, ast.Name) and x.value.id == 'self'}
        rep.add(f'C19.TypeHint.{meth}.reads_{fieldname}', 'proved' if reads == {fieldname} else 'refuted', backend='structural', where=f'TypeHint.{meth} reads self.{sorted(reads)}; children are described by one representation')
    fobj, node, _ = funcmode.load('beartype/door/_cls/doorsuper.py', 'TypeHint._args_wrapped_frozenset') if True else (None, None, None)
    reads = {x.attr for x in ast.walk(node) if isinstance(x, ast.Attribute) and isinstance(x.value, ast.Name) and x.value.id == 'self'}
    rep.add('C19.TypeHint._args_wrapped_frozenset.from_tuple', 'proved' if reads == {'_args_wrapped_tuple'} else 'refuted', backend='structural', where=f'the membership set is built from the same tuple (reads {sorted(reads)})')
    # the metaclass keys the wrapper table by the hint itself
    fobj, node, _ = funcmode.load('beartype/door/_cls/doormeta.py', '_TypeHintMetaclass.__call__')
    calls = [c for c in ast.walk(node) if isinstance(c, ast.Call) and isinstance(c.func, ast.Attribute) and c.func.attr == 'cache_or_get_cached_func_return_passed_arg']
    ok = len(calls) == 1 and any(k.arg == 'key' and isinstance(k.value, ast.Name) and k.value.id == 'hint' for k in calls[0].keywords) and any(k.arg == 'arg' and isinstance(k.value, ast.Name) and k.value.id == 'hint' for k in calls[0].keywords)
    rep.add('C19.metaclass.keyed_by_hint', 'proved' if ok else 'refuted', backend='structural', where='TypeHint(h) is memoised under key=h (dict equality on the hint itself) and built from h: with the CacheUnboundedStrong contract (C14) TypeHint(h) is TypeHint(h) for hashable h, and distinct hints never share a wrapper')

def main(tier, seed):
    rep = report.Report('C19', tier, seed, 'other', f'./check C19 --tier {tier}')
    for fn in (structural, steps):
        try: fn(rep)
        except Exception: rep.error(f'C19 {fn.__name__}: ' + traceback.format_exc()[-2500:])
    try: bounded(rep, tier)
    except Exception: rep.error('C19 bounded: ' + traceback.format_exc()[-2500:])
    files = ['beartype/door/_cls/doorsuper.py', 'beartype/door/_cls/doormeta.py', 'beartype/door/_cls/pep/doorpep484604.py', 'beartype/door/_cls/pep/doorpep586.py', 'beartype/door/_cls/pep/doorpep593.py', 'beartype/door/_cls/pep/pep484585/doorpep484585tuple.py']
    rep.functions = ['ClassTypeHint._is_subhint_branch', 'TupleFixedTypeHint._is_subhint_branch', 'LiteralTypeHint._is_subhint (vs Literal: any number of members)', 'UnionTypeHint._is_subhint (any number of branches)', 'AnnotatedTypeHint._is_subhint_branch (soundness steps, mode F)', 'TypeHint dunders + metaclass (structural)'] + [f'{p}@{report.src_hash(p)}' for p in files]
    from pyvc import model as M
    rep.trusted = ['pyvc', 'z3'] + M.ASSUMED_SEMANTICS
    rep.assumptions = ['soundness STEP only: children are abstract (child.is_subhint(child\') implies inclusion of meanings); the induction over hint depth and the remaining branch algorithms (containers, callables, unions) are covered by the bounded palette only',
                       'transitivity quantifies over triples of different subclasses\' algorithms: bounded only', 'validators compare by == of their objects']
    rep.extra['explanation'] = 'soundness step lemmas in function mode for four branch algorithms, structural coherence obligations, bounded order-law / soundness / coherence contract over a palette'
    return rep.finish()

def steps(rep):
    from pyvc import funcmode, model as M, discharge, symx
    from pyvc.symx import Exec, St, VObj, VPy, VBool, VTup
    import collections.abc as cabc
    uni = M.Universe()
    for c in (cabc.Sized, cabc.Sequence, cabc.Collection, cabc.Iterable, tuple, type): uni.const(c)
    SELF = z3.Const('self', M.Obj); BR = z3.Const('branch', M.Obj); X = z3.Const('x', M.Obj)
    def F(n): return z3.Const(f'H_{n}', z3.ArraySort(M.Obj, M.Obj))
    MEAN = z3.Function('meaning', M.Obj, M.Obj, z3.BoolSort())        # meaning(wrapper, x): x fully satisfies the wrapped hint
    LE = z3.Function('is_subhint', M.Obj, M.Obj, z3.BoolSort())
    a_, b_, x_ = z3.Consts('a_w b_w x_w', M.Obj)
    IH = z3.ForAll([a_, b_, x_], z3.Implies(z3.And(LE(a_, b_), MEAN(a_, x_)), MEAN(b_, x_)))     # induction hypothesis for children / callee wrappers
    def m_le(ex, s, f, a, kw, w): return [(s, VBool(LE(ex.obj(f.self_), ex.obj(a[0]))))]
    # ---- ClassTypeHint._is_subhint_branch: meaning of a class hint = isinstance of its origin; an args-ignorable branch means isinstance of ITS origin
    import beartype.door._cls.pep.pep484.doorpep484class as cmod
    fobj, node, _ = funcmode.load('beartype/door/_cls/pep/pep484/doorpep484class.py', 'ClassTypeHint._is_subhint_branch')
    ex = Exec(uni, dict(cmod.__dict__), call_model={}, name='class'); ex.fields_mode = True
    OS, OB = z3.Select(F('_origin'), SELF), z3.Select(F('_origin'), BR)
    pre = (M.inst(OS, uni.const(type)), M.inst(OB, uni.const(type)))
    outs = ex.run_function(node, St((), pre), (VObj(SELF), VObj(BR)), {}, fobj)
    c_ = z3.Const('c_cls', M.Obj); y_ = z3.Const('y_obj', M.Obj); d_ = z3.Const('d_cls', M.Obj)
    cls_ax = [z3.ForAll([y_, c_, d_], z3.Implies(z3.And(M.inst(y_, c_), M.subc(c_, d_)), M.inst(y_, d_)))]   # isinstance is closed under issubclass
    pr = discharge.Prover(uni.axioms() + cls_ax)
    for ob in ex.obls:
        r = pr.prove(list(ob.pc), ob.goal); rep.add(f'C19.ClassTypeHint.{ob.kind}#{ob.name.rsplit(".", 1)[-1]}', r.status, time=r.time, backend=r.backend, where=ob.where)
    ign = M.truthy(z3.Select(F('_is_args_ignorable'), BR))
    for i, (s, v) in enumerate(outs):
        hyp = list(s.pc) + [ex.truth(v), M.inst(X, OS), z3.Implies(ign, z3.BoolVal(True))]
        r = pr.prove(hyp, z3.And(ign, M.inst(X, OB)))
        rep.add(f'C19.ClassTypeHint._is_subhint_branch.post.sound.path{i}', r.status, time=r.time, backend=r.backend, where='True only for an unsubscripted (args-ignorable) branch whose origin is a superclass: every instance of self\'s class is an instance of the branch\'s')
    # ---- LiteralTypeHint._is_subhint against another Literal: any number of members on both sides (quantified any()/all())
    import beartype.door._cls.pep.doorpep586 as lmod
    fobj, node, _ = funcmode.load('beartype/door/_cls/pep/doorpep586.py', 'LiteralTypeHint._is_subhint')
    OTHER = z3.Const('other', M.Obj); SA, OA = z3.Select(F('_args'), SELF), z3.Select(F('_args'), OTHER)
    def m_isinst_lit(ex_, s, f, a, kw, w):
        if isinstance(a[0], VObj) and a[0].t.eq(OTHER) and isinstance(a[1], VPy) and a[1].o is lmod.LiteralTypeHint: return [(s, VBool(z3.BoolVal(True)))]
        return Exec.b_isinstance(ex_, s, a, kw, w)
    ex = Exec(uni, dict(lmod.__dict__), call_model={isinstance: m_isinst_lit}, name='literal'); ex.fields_mode = True; ex.quantify_allany = True
    pre = (M.inst(SA, uni.const(tuple)), M.inst(OA, uni.const(tuple)))
    try: outs = ex.run_function(node, St((), pre), (VObj(SELF), VObj(OTHER)), {}, fobj)
    except symx.Unsupported as e: rep.error(f'C19.LiteralTypeHint: unsupported: {e}'); outs = []
    m_, n_, x2 = z3.Consts('lit_a lit_b lit_x', M.Obj)
    def lit_mean(args, x): return z3.Exists([m_], z3.And(M.mem(args, m_), M.typeof(x) == M.typeof(m_), M.eq(x, m_)))      # PEP 586: equal to a member AND of that member's type
    # == restricted to one exact class is transitive for the classes PEP 586 allows as members (int, bool, str, bytes, enum members, None)
    trans = z3.ForAll([m_, n_, x2], z3.Implies(z3.And(M.typeof(x2) == M.typeof(m_), M.typeof(m_) == M.typeof(n_), M.eq(x2, m_), M.eq(m_, n_)), M.eq(x2, n_)))
    pr = discharge.Prover(uni.axioms() + [trans])
    for ob in ex.obls:
        r = pr.prove(list(ob.pc), ob.goal); rep.add(f'C19.LiteralTypeHint.{ob.kind}#{ob.name.rsplit(".", 1)[-1]}', r.status, time=r.time, backend=r.backend, where=ob.where)
    for i, (s, v) in enumerate(outs):
        r = pr.prove(list(s.pc) + [ex.truth(v), lit_mean(SA, X)], lit_mean(OA, X))
        rep.add(f'C19.LiteralTypeHint._is_subhint.post.sound_vs_literal.path{i}', r.status, time=r.time, backend=r.backend, reason=r.reason,
                where='Literal[a...] <= Literal[b...] only if every object equal to (and of the type of) some a is equal to (and of the type of) some b; any number of members')
    if not outs: rep.error('C19.LiteralTypeHint: no path')
    # ---- AnnotatedTypeHint._is_subhint_branch: meaning = metahint AND validators; equal metadata tuples validate the same objects
    import beartype.door._cls.pep.doorpep593 as amod
    fobj, node, _ = funcmode.load('beartype/door/_cls/pep/doorpep593.py', 'AnnotatedTypeHint._is_subhint_branch')
    isann = z3.Bool('branch_is_annotated'); VAL = z3.Function('validators_hold', M.Obj, M.Obj, z3.BoolSort())
    def m_isinst_ann(ex_, s, f, a, kw, w):
        if isinstance(a[0], VObj) and a[0].t.eq(BR) and isinstance(a[1], VPy) and a[1].o is amod.AnnotatedTypeHint: return [(s, VBool(isann))]
        return Exec.b_isinstance(ex_, s, a, kw, w)
    def m_suppress(ex_, s, f, a, kw, w): return [(s, VObj(z3.Const('suppress_cm', M.Obj)))]
    ex = Exec(uni, dict(amod.__dict__), call_model={isinstance: m_isinst_ann, '.is_subhint': m_le, amod.suppress: m_suppress}, name='annotated'); ex.fields_mode = True; ex.method_names = {'is_subhint'}
    MHS, MHB = z3.Select(F('_metahint_wrapper'), SELF), z3.Select(F('_metahint_wrapper'), BR); MDS, MDB = z3.Select(F('_metadata'), SELF), z3.Select(F('_metadata'), BR)
    pre = (M.inst(MDS, uni.const(tuple)), M.inst(MDB, uni.const(tuple)))
    try: outs = ex.run_function(node, St((), pre), (VObj(SELF), VObj(BR)), {}, fobj)
    except symx.Unsupported as e: rep.error(f'C19.AnnotatedTypeHint: unsupported: {e}'); outs = []
    p_, q_ = z3.Consts('md_p md_q', M.Obj)
    cong = z3.ForAll([p_, q_, x_], z3.Implies(z3.And(M.eq(p_, q_), VAL(p_, x_)), VAL(q_, x_)))      # == on metadata tuples: the same validators in the same order
    pr = discharge.Prover(uni.axioms() + [IH, cong])
    for ob in ex.obls:
        r = pr.prove(list(ob.pc), ob.goal); rep.add(f'C19.AnnotatedTypeHint.{ob.kind}#{ob.name.rsplit(".", 1)[-1]}', r.status, time=r.time, backend=r.backend, where=ob.where)
    mean_self = z3.And(MEAN(MHS, X), VAL(MDS, X))
    mean_br = z3.If(isann, z3.And(MEAN(MHB, X), VAL(MDB, X)), MEAN(BR, X))
    for i, (s, v) in enumerate(outs):
        r = pr.prove(list(s.pc) + [ex.truth(v), mean_self], mean_br)
        rep.add(f'C19.AnnotatedTypeHint._is_subhint_branch.post.sound.path{i}', r.status, time=r.time, backend=r.backend, reason=r.reason,
                where='True => every object satisfying the metahint and the validators of self satisfies the branch (its metahint and equal validators, or the branch itself if it is not Annotated)')
    if not outs: rep.error('C19.AnnotatedTypeHint: no path')
    # ---- the contract every wrapper's `_is_args_ignorable` owes its callers (the branch lemmas above and below USE it as a hypothesis):
    #      True  =>  the hint means no more than isinstance(x, origin): every instance of the origin class satisfies it
    IGN_ALL = z3.Function('child_is_ignorable_contract', M.Obj, z3.BoolSort())
    ch_, y2_ = z3.Consts('ign_child ign_y', M.Obj)
    ign_contract = z3.ForAll([ch_], z3.Implies(M.truthy(z3.Select(F('is_ignorable'), ch_)), z3.ForAll([y2_], MEAN(ch_, y2_))))     # TypeHint.is_ignorable: contract of the callee (C19 palette checks it against is_bearable)
    ORIG = z3.Select(F('_origin'), SELF); ARGSW = z3.Select(F('_args_wrapped_tuple'), SELF)
    MH_ = z3.Select(F('_metahint_wrapper'), SELF); MD_ = z3.Select(F('_metadata'), SELF); LA_ = z3.Select(F('_args'), SELF)
    SC3 = [z3.Const(f'fixed_child{i}', M.Obj) for i in range(2)]
    import beartype.door._cls.doorsuper as smod, beartype.door._cls.pep.pep484.doorpep484any as anymod
    IGN_TARGETS = [
        ('beartype/door/_cls/doorsuper.py', 'TypeHint._is_args_ignorable', smod,
         # a subscripted hint over an origin class constrains nothing beyond its children: if every child accepts everything, an instance of the origin satisfies it
         lambda x: z3.Implies(z3.ForAll([ch_], z3.Implies(M.mem(ARGSW, ch_), z3.ForAll([y2_], MEAN(ch_, y2_)))), z3.BoolVal(True)), 'generic'),
        ('beartype/door/_cls/pep/pep484/doorpep484class.py', 'ClassTypeHint._is_args_ignorable', cmod, lambda x: z3.BoolVal(True), 'class'),
        ('beartype/door/_cls/pep/pep484/doorpep484any.py', 'AnyTypeHint._is_args_ignorable', anymod, lambda x: z3.BoolVal(True), 'any'),
        ('beartype/door/_cls/pep/doorpep593.py', 'AnnotatedTypeHint._is_args_ignorable', amod, lambda x: z3.And(MEAN(MH_, x), VAL(MD_, x)), 'annotated'),
        ('beartype/door/_cls/pep/doorpep586.py', 'LiteralTypeHint._is_args_ignorable', lmod, lambda x: lit_mean(LA_, x), 'literal'),
    ]
    try:
        import beartype.door._cls.pep.pep484585.doorpep484585tuple as tmod0
        IGN_TARGETS.append(('beartype/door/_cls/pep/pep484585/doorpep484585tuple.py', 'TupleFixedTypeHint._is_args_ignorable', tmod0,
                            lambda x: z3.And(M.len_(x) == 2, MEAN(SC3[0], M.item(x, 0)), MEAN(SC3[1], M.item(x, 1))), 'tuple_fixed'))
    except Exception: pass
    for rel, qual, qmod, mean_beyond_origin, tag in IGN_TARGETS:
        try:
            fobj, node, _ = funcmode.load(rel, qual)
            ex = Exec(uni, dict(qmod.__dict__), call_model={}, name=qual); ex.fields_mode = True; ex.quantify_allany = True
            outs = ex.run_function(node, St((), (M.inst(ARGSW, uni.const(tuple)),)), (VObj(SELF),), {}, fobj)
        except symx.Unsupported as e: rep.error(f'C19.{qual}: unsupported: {e}'); continue
        pr = discharge.Prover(uni.axioms() + [ign_contract])
        if not outs: rep.error(f'C19.{qual}: no path'); continue
        for i, (s_, v) in enumerate(outs):
            goal = mean_beyond_origin(X)
            if tag == 'generic': goal = z3.ForAll([ch_], z3.Implies(M.mem(ARGSW, ch_), z3.ForAll([y2_], MEAN(ch_, y2_))))
            r = pr.prove(list(s_.pc) + [ex.truth(v), M.inst(X, ORIG)], goal)
            rep.add(f'C19.{qual}.post.true_only_if_origin_suffices.path{i}', r.status, time=r.time, backend=r.backend, reason=r.reason,
                    where='_is_args_ignorable returns True only if every instance of the origin class satisfies the hint (what ClassTypeHint / tuple / callable / generic / subscripted comparisons assume of an "args-ignorable" branch)')
    # ---- UnionTypeHint._is_subhint: any number of branches on both sides
    import beartype.door._cls.pep.doorpep484604 as umod
    fobj, node, _ = funcmode.load('beartype/door/_cls/pep/doorpep484604.py', 'UnionTypeHint._is_subhint')
    isun = z3.Bool('other_is_union'); OTHER_U = z3.Const('other_u', M.Obj)
    def m_isinst_un(ex_, s, f, a, kw, w):
        if isinstance(a[0], VObj) and a[0].t.eq(OTHER_U) and isinstance(a[1], VPy) and a[1].o is umod.UnionTypeHint: return [(s, VBool(isun))]
        return Exec.b_isinstance(ex_, s, a, kw, w)
    ex = Exec(uni, dict(umod.__dict__), call_model={isinstance: m_isinst_un, '.is_subhint': m_le}, name='union'); ex.fields_mode = True; ex.method_names = {'is_subhint'}; ex.quantify_allany = True
    BS, BO = z3.Select(F('_branches'), SELF), z3.Select(F('_branches'), OTHER_U)
    pre = (M.inst(BS, uni.const(tuple)), M.inst(BO, uni.const(tuple)))
    try: outs = ex.run_function(node, St((), pre), (VObj(SELF), VObj(OTHER_U)), {}, fobj)
    except symx.Unsupported as e: rep.error(f'C19.UnionTypeHint: unsupported: {e}'); outs = []
    br_ = z3.Const('br_', M.Obj)
    def un_mean(branches, x): return z3.Exists([br_], z3.And(M.mem(branches, br_), MEAN(br_, x)))
    pr = discharge.Prover(uni.axioms() + [IH])
    for ob in ex.obls:
        r = pr.prove(list(ob.pc), ob.goal); rep.add(f'C19.UnionTypeHint.{ob.kind}#{ob.name.rsplit(".", 1)[-1]}', r.status, time=r.time, backend=r.backend, where=ob.where)
    for i, (s, v) in enumerate(outs):
        r = pr.prove(list(s.pc) + [ex.truth(v), un_mean(BS, X)], z3.If(isun, un_mean(BO, X), MEAN(OTHER_U, X)))
        rep.add(f'C19.UnionTypeHint._is_subhint.post.sound.path{i}', r.status, time=r.time, backend=r.backend, reason=r.reason,
                where='a union is a subhint only if every object satisfying one of its branches satisfies the other hint (one of ITS branches if it is a union); any number of branches')
    if not outs: rep.error('C19.UnionTypeHint: no path')
    # ---- TupleFixedTypeHint._is_subhint_branch vs another fixed tuple, per arity
    import beartype.door._cls.pep.pep484585.doorpep484585tuple as tmod
    fobj, node, _ = funcmode.load('beartype/door/_cls/pep/pep484585/doorpep484585tuple.py', 'TupleFixedTypeHint._is_subhint_branch')
    for n, m in ((0, 0), (1, 1), (2, 2), (3, 3), (1, 2), (2, 1), (0, 1)):
        SC = [z3.Const(f'self_child{i}', M.Obj) for i in range(n)]; BC = [z3.Const(f'branch_child{i}', M.Obj) for i in range(m)]
        class Fixed: pass
        def m_len(ex_, s, f, a, kw, w):
            t = a[0]
            if isinstance(t, VObj) and t.t.eq(SELF): return [(s, symx.VInt(z3.IntVal(n)))]
            if isinstance(t, VObj) and t.t.eq(BR): return [(s, symx.VInt(z3.IntVal(m)))]
            return Exec.b_len(ex_, s, a, kw, w)
        def m_isinst(ex_, s, f, a, kw, w):
            # branch is a TupleFixedTypeHint (this case), not a TupleVariableTypeHint
            if isinstance(a[0], VObj) and a[0].t.eq(BR) and isinstance(a[1], VPy):
                if a[1].o is tmod.TupleFixedTypeHint: return [(s, VBool(z3.BoolVal(True)))]
                if a[1].o is tmod.TupleVariableTypeHint: return [(s, VBool(z3.BoolVal(False)))]
            return Exec.b_isinstance(ex_, s, a, kw, w)
        ex = Exec(uni, dict(tmod.__dict__), call_model={len: m_len, isinstance: m_isinst, '.__le__': m_le, '.is_subhint': m_le}, name=f'tuple{n}x{m}'); ex.fields_mode = True
        # children tuples are concrete-length tuples of abstract wrappers; `a <= b` on wrappers is is_subhint
        orig_getattr = ex.getattr_
        def ga(s, b, name, _o=orig_getattr):
            if isinstance(b, VObj) and name == '_args_wrapped_tuple':
                if b.t.eq(SELF): return [(s, VTup(tuple(VObj(c) for c in SC)))]
                if b.t.eq(BR): return [(s, VTup(tuple(VObj(c) for c in BC)))]
            return _o(s, b, name)
        ex.getattr_ = ga
        orig_cmp = ex.compare
        def cmp(s, op, l, r, _o=orig_cmp):
            if isinstance(op, ast.LtE) and isinstance(l, VObj) and isinstance(r, VObj): return [(s, VBool(LE(l.t, r.t)))]
            return _o(s, op, l, r)
        ex.compare = cmp
        notign = z3.Not(M.truthy(z3.Select(F('_is_args_ignorable'), BR)))
        try: outs = ex.run_function(node, St((), (notign,)), (VObj(SELF), VObj(BR)), {}, fobj)
        except symx.Unsupported as e:
            rep.error(f'C19.TupleFixed[{n}x{m}]: unsupported: {e}'); continue
        pr = discharge.Prover(uni.axioms() + [IH])
        mean_self = z3.And(M.inst(X, uni.const(tuple)), M.len_(X) == n, *[MEAN(SC[i], M.item(X, i)) for i in range(n)])
        mean_br = z3.And(M.inst(X, uni.const(tuple)), M.len_(X) == m, *[MEAN(BC[i], M.item(X, i)) for i in range(m)])
        for i, (s, v) in enumerate(outs):
            r = pr.prove(list(s.pc) + [ex.truth(v), mean_self], mean_br)
            rep.add(f'C19.TupleFixedTypeHint._is_subhint_branch.post.sound.arity{n}x{m}.path{i}', r.status, time=r.time, backend=r.backend, where='True => same length and componentwise inclusion (children by the induction hypothesis)', bounded=True)
    # ---- TypeHint._is_subhint_branch (the generic branch of every subscripted wrapper: list[T], Mapping[K, V], set[T], ...), per arity.
    #      Meaning of a subscripted hint with origin O and children c_0..c_{n-1}: isinstance(x, O) and, for every position j, every component of
    #      x at parameter position j satisfies c_j (COMP_j: an uninterpreted relation - items, keys, values, ...; positions of a subclass
    #      origin correspond to those of its base: assumption, cf. KF-C01/C02-generic-parameter-order).  Covariant reading, as is_subhint documents.
    fobj, node, _ = funcmode.load('beartype/door/_cls/doorsuper.py', 'TypeHint._is_subhint_branch')
    from beartype.roar import BeartypeDoorIsSubhintException
    uni.const(BeartypeDoorIsSubhintException)
    COMP = [z3.Function(f'component_at_{j}', M.Obj, M.Obj, z3.BoolSort()) for j in range(3)]
    yy = z3.Const('comp_y', M.Obj)
    same_wrapper = z3.Bool('branch_is_same_wrapper_class')
    for n, m in ((1, 1), (2, 2), (3, 3), (0, 0), (1, 2), (2, 1)):
        SC = [z3.Const(f'gen_self_child{i}', M.Obj) for i in range(n)]; BC = [z3.Const(f'gen_branch_child{i}', M.Obj) for i in range(m)]
        def m_isinst(ex_, s, f, a, kw, w):
            if isinstance(a[0], VObj) and a[0].t.eq(BR) and not isinstance(a[1], VPy): return [(s, VBool(same_wrapper))]      # isinstance(branch, type(self))
            return Exec.b_isinstance(ex_, s, a, kw, w)
        def m_type(ex_, s, f, a, kw, w): return [(s, VObj(z3.Const('type_of_self', M.Obj)))]
        ex = Exec(uni, dict(smod.__dict__), call_model={isinstance: m_isinst, type: m_type, '.is_subhint': m_le}, name=f'generic{n}x{m}'); ex.fields_mode = True; ex.method_names = {'is_subhint'}
        orig_getattr = ex.getattr_
        def ga(s, b, name, _o=orig_getattr):
            if isinstance(b, VObj) and name == '_args_wrapped_tuple':
                if b.t.eq(SELF): return [(s, VTup(tuple(VObj(c) for c in SC)))]
                if b.t.eq(BR): return [(s, VTup(tuple(VObj(c) for c in BC)))]
            return _o(s, b, name)
        ex.getattr_ = ga
        OS_, OB_ = z3.Select(F('_origin'), SELF), z3.Select(F('_origin'), BR)
        pre = (M.inst(OS_, uni.const(type)), M.inst(OB_, uni.const(type)))
        try: outs = ex.run_function(node, St((), pre), (VObj(SELF), VObj(BR)), {}, fobj)
        except symx.Unsupported as e:
            rep.error(f'C19.TypeHint._is_subhint_branch[{n}x{m}]: unsupported: {e}'); continue
        ign_br = M.truthy(z3.Select(F('_is_args_ignorable'), BR))
        mean_self = z3.And(M.inst(X, OS_), *[z3.ForAll([yy], z3.Implies(COMP[j](X, yy), MEAN(SC[j], yy))) for j in range(n)])
        mean_br_sub = z3.And(M.inst(X, OB_), *[z3.ForAll([yy], z3.Implies(COMP[j](X, yy), MEAN(BC[j], yy))) for j in range(m)])
        # what the branch means: its own subscripted meaning when it is the same kind of wrapper; when it reports args-ignorable, the proved contract of
        # _is_args_ignorable applies (every instance of its origin satisfies it)
        br_ax = [z3.Implies(same_wrapper, MEAN(BR, X) == mean_br_sub), z3.Implies(ign_br, z3.Implies(M.inst(X, OB_), MEAN(BR, X)))]
        pr = discharge.Prover(uni.axioms() + cls_ax + [IH])
        for ob in ex.obls:
            r = pr.prove(list(ob.pc), ob.goal); rep.add(f'C19.TypeHint._is_subhint_branch[{n}x{m}].{ob.kind}#{ob.name.rsplit(".", 1)[-1]}', r.status, time=r.time, backend=r.backend, where=ob.where)
        k_ret = 0
        for i, (s, v) in enumerate(outs):
            k_ret += 1
            r = pr.prove(list(s.pc) + br_ax + [ex.truth(v), mean_self], MEAN(BR, X))
            rep.add(f'C19.TypeHint._is_subhint_branch.post.sound.arity{n}x{m}.path{i}', r.status, time=r.time, backend=r.backend, reason=r.reason, bounded=True,
                    where='True => the origin is a subclass and either the branch is args-ignorable or it is the same kind of wrapper with pairwise included children: every object satisfying self satisfies the branch')
        for i, (s, v) in enumerate(ex.raised):
            cls_ = getattr(v, 'cls', None)
            rep.add(f'C19.TypeHint._is_subhint_branch.post.raises_only_door_exception.arity{n}x{m}.path{i}', 'proved' if cls_ is BeartypeDoorIsSubhintException else 'refuted', backend='structural', where=f'raises {getattr(cls_, "__name__", v)} (differing numbers of children)')
        if not k_ret and n == m: rep.error(f'C19.TypeHint._is_subhint_branch[{n}x{m}]: no returning path')

