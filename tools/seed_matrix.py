#!/usr/bin/env python3
"""Run, for every seeded regression, the check of its property (plus optional extra checks) against a scratch worktree of
/repo HEAD + the seeded patch, and record in seeded/<name>/meta.json which obligations reported it."""
import json, os, re, subprocess, sys
V = os.path.dirname(os.path.dirname(os.path.abspath(__file__)))
EXTRA = {'C03-a': ['C17'], 'C09-a': ['C03'], 'C12-a': ['C01'], 'C14-a': [], 'C01-a': ['C02']}
only = sys.argv[1:]
rows = []
for name in sorted(os.listdir(os.path.join(V, 'seeded'))):
    if only and name not in only: continue
    meta_p = os.path.join(V, 'seeded', name, 'meta.json'); meta = json.load(open(meta_p))
    prop = meta['property']; det = {}
    for chk in [prop] + EXTRA.get(name, []):
        out = subprocess.run([os.path.join(V, 'tools', 'try_seed.sh'), name, chk], capture_output=True, text=True).stdout
        m = re.search(r'exit=(\d+) violations=(\d+) reproduced=(\d+)', out)
        log = f'/tmp/wt/try_{name}.out/{chk}.log'
        obls = []
        try:
            for l in open(log):
                if l.startswith('  obligation: '): obls.append(l[14:].split('  --')[0].split('  [')[0].strip())
        except OSError: pass
        det[chk] = dict(exit=int(m.group(1)) if m else None, violations=int(m.group(2)) if m else None, reproduced_inputs=int(m.group(3)) if m else None, obligations=sorted(set(re.sub(r'\.path\d+.*', '', o) for o in obls))[:8])
        rows.append((name, chk, det[chk]['exit'], det[chk]['violations'], det[chk]['reproduced_inputs'], (det[chk]['obligations'] or [''])[0][:90]))
    meta['detected_by'] = det
    json.dump(meta, open(meta_p, 'w'), indent=1)
for r in rows: print(*r, sep=' | ')
