# get_is_color() compares "is_color" to the ARG_VALUE_UNPASSED magic integer
# with "==" rather than "is": any object comparing equal to 0xBABECAFE is
# accepted as if "is_color" had not been passed; objects whose __eq__ does not
# return a bool (e.g. numpy arrays) escape with a non-beartype exception.
import sys
from decimal import Decimal
from fractions import Fraction
from beartype import BeartypeConf
from beartype.roar import BeartypeConfParamException

bad = False
for value in (1.0, 3133065982.0, Fraction(3133065982), Decimal(3133065982), 3133065982):
    try:
        conf = BeartypeConf(is_color=value)
        print(f'is_color={value!r}: ACCEPTED, is BeartypeConf(): {conf is BeartypeConf()}, reads back {conf.is_color!r}')
        bad = True
    except BeartypeConfParamException:
        print(f'is_color={value!r}: rejected')

class Arrayish:           # stand-in for numpy.ndarray (same outcome with numpy.array([1, 2]))
    def __eq__(self, other): return self
    def __bool__(self): raise ValueError('truth value of an array is ambiguous')
try:
    BeartypeConf(is_color=Arrayish())
except BeartypeConfParamException:
    print('array-like is_color: rejected with BeartypeConfParamException')
except Exception as e:
    print('array-like is_color:', type(e).__name__, e); bad = True
sys.exit(1 if bad else 0)
