"""Counterexample concretisation (DESIGN 2.5): the refuting model over Obj/len/item/inst/... is re-solved with small-size
side constraints and turned into a *source expression* (evaluated in pyvc.shapes.NS) that builds real Python values
whose isinstance / len / item / == facts are those of the model.  Best effort: a candidate only counts once the replay
reproduces the failure on the real code."""
import z3, collections, collections.abc as cabc, itertools
from . import model as M
from .shapes import NS
from . import replaylib as RL

def _true(m, f): return z3.is_true(m.eval(f, model_completion=True))
def _int(m, f):
    v = m.eval(f, model_completion=True)
    try: return v.as_long()
    except Exception: return 0

CANDIDATES = None
def candidates():
    global CANDIDATES
    if CANDIDATES is None:
        CANDIDATES = [type(None), bool, int, float, str, bytes, list, tuple, set, frozenset, collections.deque, dict, collections.defaultdict,
                      collections.OrderedDict, collections.Counter, collections.ChainMap, type({}.keys()), type({}.values()), type({}.items()),
                      NS['L2'], NS['L0'], NS['L1'], NS['LA'], NS['HasMeth'], NS['GL'], NS['GLI'], NS['GL2'], NS['GLI3'], NS['GDI'], NS['GD'], NS['GS'], NS['GI'], NS['G'], type, RL.UserSeq, RL.UserSet, RL.UserColl,
                      RL.UserMap, RL.SizedOneShot, RL.OneShot, RL.SizedOnly, RL.Opaque, range, complex]
    return CANDIDATES

def ns_name(o):
    for k, v in NS.items():
        if v is o and not k.startswith('_'): return k
    return None

class Concretiser:
    def __init__(self, m, uni, counting=False):
        self.m, self.uni, self.counting = m, uni, counting
        self.user_funcs = [(zc, o) for zc, o in uni.values() if callable(o) and ns_name(o)]
        self.lits = [(zc, o) for zc, o in uni.values() if isinstance(o, (int, str, float, bytes, type(None), bool))]
    def const_src(self, o):
        if isinstance(o, type) or callable(o):
            n = ns_name(o)
            if n: return n
            if o.__module__ == 'builtins': return o.__name__
            return None
        if isinstance(o, float) and o != o: return ns_name(o)      # a NaN is only itself: refer to it by its name in the shape namespace
        if isinstance(o, (int, str, float, bytes, type(None), bool)): return repr(o)
        return ns_name(o)
    def build(self, term, depth=0):
        m = self.m
        e = m.eval(term, model_completion=True)
        for zc, o in self.uni.consts.values():
            if z3.is_true(m.eval(zc == e, model_completion=True)) if False else m.eval(zc, model_completion=True).eq(e):
                s = self.const_src(o)
                if s is not None: return s
        if depth > 4: return 'Opaque()'
        # attributes the model says exist (IsAttr): build a plain namespace object carrying them
        attrs = [(o, zc) for zc, o in self.uni.values() if isinstance(o, str) and o.isidentifier() and _true(m, M.hasattr_(term, zc))]
        if attrs and not any(_true(m, M.inst(term, zc)) for zc, C in self.uni.classes() if C not in (object,) and C.__module__ == 'builtins'):
            return 'Attrs(' + ', '.join(f'{n}={self.build(M.attr(term, zc), depth + 1)}' for n, zc in attrs) + ')'
        regs = self.uni.classes()
        tc = [o for zc, o in regs if _true(m, M.inst(term, zc))]
        best, bestscore = RL.Opaque, -1
        for K in candidates():
            score = 0; exact = True
            for zc, C in regs:
                try: real = issubclass(K, C)
                except TypeError: real = False
                if real == (C in tc): score += 1
                else: exact = False
            if exact: best = K; break
            if score > bestscore: best, bestscore = K, score
        return self.make(best, term, depth)
    def pick_scalar(self, K, term):
        """choose a value of class K matching the model's eq / callres facts (checked against the REAL callables)"""
        m = self.m
        pools = {int: [7, -7, 0, 2, 3, 5, 1, 4, 10 ** 6], bool: [True, False], float: [2.5, -1.5, 0.0, 5.0, 1.0], str: ['zz', 'a', '', 'b'],
                 bytes: [b'zz', b''], complex: [1j]}
        pool = [o for _, o in self.lits if type(o) is K] + pools.get(K, [])
        want_eq = [(o, _true(m, M.eq(term, zc))) for zc, o in self.lits]
        want_fn = [(f, _true(m, M.truthy(M.callres(zc, term)))) for zc, f in self.user_funcs]
        for v in pool:
            ok = True
            for o, w in want_eq:
                try:
                    if bool(v == o) != w: ok = False; break
                except Exception: pass
            if ok:
                for f, w in want_fn:
                    try:
                        if bool(f(v)) != w: ok = False; break
                    except Exception: pass
            if ok: return repr(v)
        return repr(pool[0]) if pool else 'Opaque()'
    def make(self, K, term, depth):
        m = self.m; n = max(0, min(_int(m, M.len_(term)), 2000))
        wrap = lambda src, base: (f'{RL.COUNTING[base].__name__}({src})' if self.counting and base in RL.COUNTING else src)
        if K is type(None): return 'None'
        if K in (bool, int, float, str, bytes, complex): return self.pick_scalar(K, term)
        if K is type:
            for name in ('L0', 'L1', 'L2', 'LA', 'int', 'str', 'object', 'float', 'list', 'HasMeth'):
                k = NS.get(name) or __builtins__.get(name) if isinstance(__builtins__, dict) else NS.get(name, getattr(__import__('builtins'), name, None))
                if all((issubclass(k, C)) == _true(m, M.subc(term, zc)) for zc, C in self.uni.classes()): return name
            return 'Opaque'
        if K in (list, tuple, collections.deque, RL.UserSeq, NS['GL'], NS['GLI'], NS['GL2'], NS['GLI3'], range):
            items = [self.build(M.item(term, z3.IntVal(i)), depth + 1) for i in range(n)] if n <= 40 else None
            if items is None:
                special = {0: self.build(M.item(term, z3.IntVal(0)), depth + 1)}
                dflt = self.build(M.item(term, z3.IntVal(n - 1)), depth + 1)
                body = f'[{dflt}] * {n}'
                return wrap({list: body, tuple: f'tuple({body})'}.get(K, f'{ns_name(K) or K.__name__}({body})'), K)
            body = '[' + ', '.join(items) + ']'
            if K is list: return wrap(body, list)
            if K is tuple: return wrap('(' + ', '.join(items) + (',' if len(items) == 1 else '') + ')', tuple)
            if K is range: return f'range({n})'
            return wrap(f'{ns_name(K) or K.__name__}({body})', K)
        if K in (set, frozenset, RL.UserSet, RL.UserColl, RL.OneShot, RL.SizedOneShot, type({}.keys()), type({}.values()), NS['GS']):
            mem = [self.build(M.first(term), depth + 1)] if n > 0 else []
            # further members: universe elements that are members in the model
            body = '[' + ', '.join(mem * (1 if K in (set, frozenset) else n)) + ']'
            if K is set: return wrap('set(' + body + ')', set) if mem else wrap('set()', set)
            if K is frozenset: return wrap(f'frozenset({body})', frozenset)
            if K is type({}.keys()): return '{' + ', '.join(f'{x}: 0' for x in mem) + '}.keys()'
            if K is type({}.values()): return '{' + ', '.join(f'{i}: {x}' for i, x in enumerate(mem)) + '}.values()'
            return f'{ns_name(K)}({body})'
        if K is RL.SizedOnly: return f'SizedOnly({n})'
        if K in (dict, collections.defaultdict, collections.OrderedDict, collections.Counter, collections.ChainMap, RL.UserMap, type({}.items()), NS['GD'], NS['GI'], NS['GDI']):
            if n > 0:
                k0 = self.build(M.first(term), depth + 1); v0 = self.build(M.mget(term, M.first(term)), depth + 1)
                body = '{' + f'{k0}: {v0}' + '}'
            else: body = '{}'
            if K is dict: return wrap(body, dict)
            if K is collections.defaultdict: return f'defaultdict(list, {body})'
            if K is type({}.items()): return body + '.items()'
            return f'{ns_name(K) or K.__name__}({body})'
        if K is NS['LA']:
            nm = None
            for zc, o in self.uni.values():
                if o == 'x': nm = zc
            if nm is not None and _true(m, M.hasattr_(term, nm)): return f'LA(x={self.build(M.attr(term, nm), depth + 1)})'
            return 'LA()'
        n_ = ns_name(K)
        if n_: return f'{n_}()'
        return 'Opaque()'

def resolve_small(res, extra_terms=(), bounds=(1, 2, 3, 6, None)):
    """yield models of the refuted query under progressively weaker size constraints"""
    s = res.solver
    if s is None:
        return
    y = z3.Const('y_sz', M.Obj)
    for b in bounds:
        s.push()
        try:
            if b is not None:
                s.add(z3.ForAll([y], M.len_(y) <= b))
            s.set('timeout', 5000)
            if s.check() == z3.sat:
                yield b, s.model()
        finally:
            s.pop()
