# NumPy arrays (environment: numpy 2.5.3, where numpy.typing.NDArray is a PEP 695 alias).
import numpy as np
from beartype.door import infer_hint, is_bearable
bad = 0
for name, obj in (('np.zeros(3)', np.zeros(3)), ('np.array([1, 2], dtype=np.uint8)', np.array([1, 2], dtype=np.uint8)),
                  ("np.array(['a', None], dtype=object)", np.array(['a', None], dtype=object))):
    hint = infer_hint(obj)
    try:
        ok = is_bearable(obj, hint)
        print(f'{name}: hint={hint!r} -> {ok}'); bad += ok is not True
    except Exception as e:
        print(f'{name}: hint={hint!r} -> is_bearable raised {type(e).__name__}: {str(e)[:160]}'); bad += 1
raise SystemExit(1 if bad else 0)
