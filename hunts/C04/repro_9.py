# The wrapper's "def" line interpolates func.__name__ verbatim, so annotated
# callables whose __name__ is not a plain identifier cannot be decorated at all
# (and a crafted __name__ is executed as code).
from beartype import beartype

bugs = []

def make_case(n):
    def test(x: int):
        return ('ran', x)
    test.__name__ = f'test[{n}]'          # common in generated/parametrised callables
    return test

try:
    dec = beartype(make_case(3))
    assert dec(1) == ('ran', 1)
except Exception as e:
    bugs.append(f'(a) {e.__class__.__name__}: {str(e)[:120]!r}')

lam = lambda x: ('ran', x)
lam.__annotations__ = {'x': int}
try:
    assert beartype(lam)(1) == ('ran', 1)
except Exception as e:
    bugs.append(f'(b) annotated lambda: {e.__class__.__name__}')

import sys
def inj(x: int): return ('ran', x)
inj.__name__ = 'inj(x): pass\nimport sys; sys.modules["pwned"] = sys\ndef g'
try:
    beartype(inj)
except Exception:
    pass
if 'pwned' in sys.modules:
    bugs.append('(c) code embedded in __name__ was executed at decoration time')

for b in bugs: print('BUG', b)
raise SystemExit(1 if bugs else 0)
