#!/usr/bin/env python3
"""Regenerates /verif/MANIFEST.json from the table below (kept valid at all times)."""
import json, os
V = os.path.dirname(os.path.dirname(os.path.abspath(__file__)))
GEN_NOTE = ("Assumed/trusted: pyvc itself (VC generator) ; z3/cvc5 ; the Python semantics encoded in pyvc/model.py (listed in the evidence) ; "
            "inputs respect the collections.abc protocol laws ; composition of generated code beyond the enumerated depth (node shapes = induction "
            "step with opaque leaf children proved for all objects and draws; composed shapes bounded: depth<=3 quick, <=4 thorough) ; typing's own normalisation.")
CHECKS = {
 'C01': dict(cat='proof', tech='contract-based deductive verification: VCs generated from the captured real generated checker text + sidecar spec, discharged by z3 (cvc5 on unknown); per-shape bounded composition',
   text="For every enumerated hint shape the text that beartype's real generator hands to make_func() is captured and executed symbolically; the solver proves, for ALL objects and ALL 32-bit sampler draws, that [[H]](x) (full-depth conformance, written from typing introspection only) implies acceptance, and that the checker is defined (no IndexError/KeyError/ZeroDivisionError/NameError/TypeError) on every protocol-respecting object. Node shapes (children = opaque classes = abstract predicates) give the induction step; composed shapes check the composition up to a bounded depth.",
   note=GEN_NOTE, ref='3, 4 (C01)'),
 'C02': dict(cat='proof', tech='contract-based deductive verification (same engine as C01): must-reject / reachability / consistency postconditions on the captured generated text, z3 + cvc5',
   text="Same captured text as C01; proved for all objects and draws: MustReject_H(x) => rejected (violation at an unsampled position or every item violating), for root-reachable sequences item i violating => draw r=i rejects (is_random) / item 0 violating => rejected (is_random=False), and accepted => a consistent sampled path exists. Ignorable hints must be universal.",
   note=GEN_NOTE + ' Reachability is stated with len(x) <= 2**32.', ref='3, 4 (C02)'),
 'C09': dict(cat='proof', tech='contract-based deductive verification: symbolic cost (item reads) of every path of the captured generated text bounded by a hint-only constant, z3',
   text="On every path of every captured checker the symbolic number of container-item reads (x[i], x[k], next(iter(x))), including reads hidden in all()/any()/tuple()/in, is proved <= a constant computed from the hint alone (1 per container level, 2 per mapping level, n per fixed tuple), for containers of ANY length.",
   note=GEN_NOTE + ' len() and isinstance are not item reads; only the fast path (generated checker) is covered here, the error path is under C03/C09 function-mode obligations when built.', ref='4 (C09)'),
 'C10': dict(cat='proof', tech='contract-based deductive verification: effect/frame obligations on every path of the captured generated text, z3',
   text="Every operation the captured checker text can execute on its subject is proved to be in the read-only whitelist, iteration (iter/next) only under an established isinstance(x, Collection), object-key subscription only with a key proved present (no defaultdict insertion); any other method call or construct aborts as unsupported (exit 3) rather than passing.",
   note=GEN_NOTE + ' iter() of a real Collection returns a fresh iterator; __len__/__getitem__/__iter__ of builtin containers are read-only (CPython contract).', ref='4 (C10)'),
}
CHECKS['C12'] = dict(cat='proof', tech='contract-based deductive verification: the real is_valid callables and the real validator code strings executed symbolically (pyvc) and proved equivalent to the boolean meaning, z3 + cvc5',
   text="For every validator of the palette the REAL is_valid callable (lambdas / nested defs / closures of the factories, located by code object in the working tree, callee validators inlined) and the REAL is_valid_code string under the real is_valid_code_locals are executed symbolically and each proved equivalent, for ALL objects (incl. objects lacking the attribute, non-classes for IsSubclass), to the boolean meaning written from the property text; definedness (no issubclass on a non-class, no read of an unassigned walrus temporary) and closedness of the code string are obligations. Node shapes use abstract operands Is[f1], Is[f2] (induction step).",
   note='Trusted: pyvc, z3/cvc5, Python semantics of pyvc/model.py. Assumed: user callables deterministic and bool-like; no attribute value is the private SENTINEL; nesting beyond depth 4 by induction from the node lemmas; Annotated[T, V...] acceptance itself is proved on generated checkers under C01/C02; the message verdict is computed via is_valid (C03).', ref='4 (C12)')
CHECKS['C18'] = dict(cat='proof', tech='contract-based deductive verification: program equivalence of two captured real generated checkers (rewriting conf vs hand-rewritten hint), one z3 query per pair for all objects and draws',
   text="For every enumerated shape containing float / complex / an overridden hint, the checker generated under the rewriting configuration (is_pep484_tower, hint_overrides incl. NewType and subscripted keys and self-referential overrides, violation_*type) and the checker generated for the hand-rewritten hint under the default configuration are captured from the real generator and proved logically equivalent for ALL objects and ALL draws; both are also proved defined.",
   note='Trusted: pyvc, z3/cvc5, Python semantics of pyvc/model.py. Bounded in the shape (depth <= 3, seeded sample); the hand rewrite is a single simultaneous textual substitution; aliases hiding the overridden class (NewType/TypeVar over it) are excluded as not being textual occurrences; the explanation path is not covered.', ref='4 (C18)')
CHECKS['C04'] = dict(cat='proof', tech='contract-based deductive verification: the captured real wrapper text executed symbolically for arbitrary args/kwargs (loop summaries with quantified invariants), postconditions from the language-reference binding rule, z3 + cvc5; iter_func_args bounded run-time contract',
   text="For every enumerated signature (five parameter kinds, annotated subsets, defaults) the wrapper source that @beartype really generates is captured and executed symbolically with args an ARBITRARY tuple and kwargs an ARBITRARY dict. Proved on every path: a raised parameter violation names an annotated parameter, its value is a value Python binds to that parameter and does not conform, no earlier passed annotated parameter is left unchecked, the original is not called before; whenever the original is called it is called exactly once with *args/**kwargs unchanged after every passed annotated value (incl. each *args item and each non-parameter keyword) conformed; the returned object is the callee's result and a callee exception propagates as the same object; args/kwargs are only read. iter_func_args is covered by a bounded run-time contract against inspect.signature (labelled bounded).",
   note='Trusted: pyvc, z3/cvc5, Python semantics of pyvc/model.py, the binding rule as written in pyvc/wrapcheck.py. Bounded in the signature shape (<=2 params exhaustive + all 3-kind sequences + sample of 5-7 params in quick; <=4 exhaustive + 300 in thorough), unbounded in calls. Assumes no passed value is the private sentinel __beartype_get_violation. make_func_signature/code_check_args assembly is covered only through the enumerated signatures.', ref='4 (C04)')
CHECKS['C17'] = dict(cat='proof', tech='contract-based deductive verification: function-mode symbolic execution of the real BeartypeConf.__new__/__eq__/__hash__ (validation helpers inlined from source), memo table as ghost map modulo ==/hash, z3 + cvc5',
   text="The real BeartypeConf.__new__ is executed symbolically with all 17 option values symbolic and the memo table a ghost map whose lookups identify keys modulo ==/hash (so 1 and True collide as in CPython). Proved on every path: a configuration is only returned after ITS OWN options passed die_if_conf_kwargs_invalid (uniform rejection), a miss allocates a fresh object and stores it exactly once under the tuple of ALL options in order, a hit returns the stored object, a raising path raises BeartypeConfParamException and stores nothing, every private field equals the option it is named after (read-back), the hash field is the hash of the key tuple; __eq__ compares the key tuples, __hash__ returns the hash field, each public property returns its own field. BeartypeConf(**conf.kwargs) is conf is an obligation (refuted: known finding).",
   note='Trusted: pyvc, z3/cvc5, Python semantics of pyvc/model.py incl. dict lookup modulo ==/hash. Assumed contracts: get_is_color, sanify_conf_kwargs_is_pep484_tower, issue_warning_deprecated_option; deprecated alias parameters left at None; keyword order irrelevant (language); thread clause under C15.', ref='4 (C17)')
NA = {}
def main():
    props = [json.loads(l) for l in open(os.path.join(V, 'properties.jsonl'))]
    m = {'version': 1, 'setup_cmd': './setup.sh',
         'hooks': {'guard': 'BEARTYPE_VERIF', 'enable': 'no source hooks: capture points are reached by rebinding names (make_func, getrandbits) from the sidecar; nothing in /repo is guarded',
                   'baseline_off_cmd': 'cd /repo && /venv/bin/python -m pytest -ra -q -p no:cacheprovider --timeout=900 --continue-on-collection-errors',
                   'source_commits': [], 'add_only': True},
         'engines': [{'name': 'pyvc', 'path': 'pyvc/', 'serves_properties': sorted(CHECKS), 'kind_free_text': 'own VC generator (Python ast -> z3/cvc5) over text extracted from /repo on every run; sidecar contracts'}],
         'checks': [], 'not_applicable': [],
         'notes': 'See DESIGN.md. Exit codes: 0 held / 1 VIOLATION / 2 undecided / 3 checker error. known_findings.json lists recorded genuine defects.'}
    for p in props:
        i = p['id']
        if i in CHECKS:
            c = CHECKS[i]
            m['checks'].append({'property_id': i, 'quick_cmd': f'./check {i} --tier quick', 'thorough_cmd': f'./check {i} --tier thorough',
                                'evidence_file': f'evidence/{i}.json', 'replay_cmd_template': '.venv/bin/python {path}', 'engine': 'pyvc',
                                'level_claimed': {'category': c['cat'], 'text': c['text'], 'design_ref': 'DESIGN.md section ' + c['ref']},
                                'level_note': c['note'], 'technique': c['tech']})
        else:
            m['not_applicable'].append({'property_id': i, 'reason': NA.get(i, 'check not built yet (framework under construction; see DESIGN.md section 7.4)')})
    json.dump(m, open(os.path.join(V, 'MANIFEST.json'), 'w'), indent=1)
    import jsonschema
    jsonschema.validate(m, json.load(open('/root/.vp/MANIFEST.schema.json')))
    print('MANIFEST.json written:', len(m['checks']), 'checks,', len(m['not_applicable']), 'not applicable')
main()
