# Non-runtime-checkable Protocol classes and TypedDict classes stored in a container.
from typing import Protocol, TypedDict
from beartype.door import infer_hint, is_bearable

class SupportsClose(Protocol):
    def close(self) -> None: ...
class Movie(TypedDict):
    title: str

bad = 0
for name, obj in (('[SupportsClose]', [SupportsClose]), ("{'schema': Movie}", {'schema': Movie}),
                  ('(1, Movie)', (1, Movie))):
    hint = infer_hint(obj)
    try:
        ok = is_bearable(obj, hint)
        print(f'{name}: hint={hint!r} -> {ok}'); bad += ok is not True
    except Exception as e:
        print(f'{name}: hint={hint!r} -> is_bearable raised {type(e).__name__}: {str(e)[:200]}'); bad += 1
raise SystemExit(1 if bad else 0)
