"""C01 / C02 / C09 / C10: obligations on the real generated checkers, swept over node shapes (the induction step,
children = opaque leaf classes = abstract predicates) and over enumerated composed shapes (bounded composition)."""
import os, sys, time, traceback, multiprocessing as mp
from pyvc import report, REPO

ANCHORS = ['beartype/_check/code/codemain.py', 'beartype/_check/cls/logic/logcls.py', 'beartype/_check/code/_pep/pep484/codepep484604union.py',
           'beartype/_data/check/code/pep/datacodepep484585.py', 'beartype/_data/check/code/pep/datacodepep484604.py',
           'beartype/_data/check/code/pep/datacodepep586.py', 'beartype/_data/check/code/pep/datacodepep593.py',
           'beartype/_data/check/code/func/datacodefunccheck.py', 'beartype/_check/checkmake.py', 'beartype/vale/_util/_valeutilsnip.py']

def _worker(task):
    shape, conf, want, vac = task
    from pyvc import gencheck
    return gencheck.shape_obligations(shape, conf, want=want, vacuity=vac)

def tasks_for(tier, seed, prop):
    from pyvc import shapes
    want = (prop,)
    T = []; seen = set()
    def add(s, c, kind, vac=False):
        if (s, c) in seen: return
        seen.add((s, c)); T.append(((s, shapes.CONFS[c], want, vac), kind))
    nodes = shapes.node_shapes()
    for s in nodes:
        add(s, 'default', 'node', True); add(s, 'nonrandom', 'node')
    for s in ['float', 'complex', 'list[float]', 'dict[str, complex]', 'tuple[float, int]', 'Union[float, str]', 'Optional[complex]', 'set[float]',
              'Iterable[float]', 'type[float]', 'Mapping[float, list[complex]]']:
        add(s, 'tower', 'node'); add(s, 'nonrandom_tower', 'node')
    n2, n3, n4 = (150, 60, 0) if tier == 'quick' else (1500, 500, 120)
    for s in shapes.sample_shapes(2, n2, seed): add(s, 'default', 'depth2')
    for s in shapes.sample_shapes(3, n3, seed + 1): add(s, 'default', 'depth3')
    for s in shapes.sample_shapes(4, n4, seed + 2): add(s, 'default', 'depth4')
    if tier == 'thorough':
        for f in shapes.UNARY:
            for g in shapes.UNARY:
                for l in ('L0', 'int'):
                    s = f.format(g.format(l))
                    if shapes.valid(s): add(s, 'default', 'depth2x')
        for s in shapes.sample_shapes(2, 300, seed + 3): add(s, 'nonrandom', 'depth2'); add(s, 'On', 'depth2')
    return T

def main(prop, tier, seed):
    rep = report.Report(prop, tier, seed, 'proof', f'./check {prop} --tier {tier}')
    from pyvc import model as M
    T = tasks_for(tier, seed, prop)
    kinds = {}
    t0 = time.time()
    nproc = int(os.environ.get('VERIF_PROCS', '16'))
    with mp.get_context('fork').Pool(nproc, maxtasksperchild=40) as pool:
        recs = pool.map(_worker, [t for t, _ in T], chunksize=2)
    nshape = 0; by_kind = {}
    for (task, kind), rec in zip(T, recs):
        shape, conf = rec['shape'], rec['conf']; nshape += 1
        by_kind[kind] = by_kind.get(kind, 0) + 1
        tag = f'{prop}.gen[{shape}|{conf}]'
        if rec.get('gen_exception'):
            # a supported hint for which the generator raises: no conforming object can be accepted
            rep.add(f'{tag}.generator_raises', 'refuted', kind='post', shape=shape, conf=conf, where=rec['error'][:300],
                    solver_output='generator raised (no solver query)', replay=rec.get('gen_replay'))
            continue
        if rec['error']:
            rep.error(f'{tag}: {rec["error"]}'); continue
        for o in rec['obligations']:
            if o.get('prop') not in (prop, 'vacuity') and not (prop in ('C01', 'C02') and o['kind'].startswith('defined')) and o['kind'] != 'frame': continue
            if o['kind'] == 'vacuity':
                if o['status'] != 'ok': rep.error(f'{tag}.{o["name"]}: vacuity guard failed ({o["status"]})')
                continue
            rep.add(f'{tag}.{o["name"]}', o['status'], kind=o['kind'], time=o['time'], backend=o['backend'], where=o.get('where'),
                    replay=o.get('replay'), solver_output=o.get('solver_output'), reason=o.get('reason'), shape=shape, conf=conf, bounded=(kind != 'node'))
        rep.dropped += rec.get('dropped', [])
        if len(rep.samples) < 6 and rec['obligations']:
            rep.samples.append(dict(shape=shape, conf=conf, paths=rec['paths'], generated_code=(rec.get('code') or '')[-600:],
                                    obligations=[f"{o['name']}:{o['status']}" for o in rec['obligations'][:10]]))
    if prop == 'C09':
        from props import errpath
        rep_functions_extra = []
    rep.functions = [f'{p}@{report.src_hash(p)} (templates instantiated by the real make_check_expr / make_func_checker; mode G)' for p in ANCHORS]
    rep.trusted = ['pyvc (VC generator: pyvc/symx.py, pyvc/gencheck.py, pyvc/spec.py)', 'z3 5.1', 'cvc5 1.0.3 (second opinion on unknown)'] + M.ASSUMED_SEMANTICS
    rep.assumptions = ['composition of generated code beyond the enumerated depth/arity is assumed (induction step = node shapes with opaque leaf '
                       'children is proved for all objects and draws; composed shapes are checked up to the bounded depth)',
                       "typing's own normalisation of Union/Literal/Optional", 'len(x) <= 2**32 in the reachability lemma',
                       'Is[...] validators return bool-likes (contract of the closure _is_valid_bool; its body is verified under C12)',
                       'no attribute value is beartype\'s private SENTINEL']
    rep.bounded = [dict(kind='per-shape proofs (bounded in the SHAPE only; each obligation is for all objects and all draws)',
                        shapes=nshape, by_kind=by_kind, depth='<=3 (quick) / <=4 (thorough)', seed=seed)]
    if prop == 'C09':
        errpath.safe(errpath.add_enumerators, rep, 'C09.errpath')
        errpath.safe(errpath.add_finders_o1, rep, 'C09.errpath')      # the mapping finder under the constant-time strategy (+ bounded read count)
    if prop == 'C01':
        try: wrapper_no_false_alarm(rep)
        except Exception: rep.error('C01 wrapper_no_false_alarm: ' + traceback.format_exc()[-1500:])
        try: protocol_cache(rep)
        except Exception: rep.error('C01 protocol_cache: ' + traceback.format_exc()[-1500:])
    if prop == 'C02':
        try: nested_reach(rep)
        except Exception: rep.error('C02 nested_reach: ' + traceback.format_exc()[-1500:])
        from props import c02_fields
        c02_fields.safe(rep)
        try: wrapper_must_reject(rep)
        except Exception: rep.error('C02 wrapper_must_reject: ' + traceback.format_exc()[-1500:])
    if prop == 'C10':
        from props import errpath
        errpath.safe(errpath.add_finders, rep, 'C10.errpath')
        errpath.safe(errpath.add_shallow, rep, 'C10.errpath')
        # the item getters of the explanation path: every subscription of the pith is defined (a Sequence index in range) - an undefined one
        # is not "indexing of a re-iterable collection": on a defaultdict-like mapping it INSERTS the invented key
        errpath.safe(errpath.add_enumerators, rep, 'C10.errpath')
        errpath.safe(errpath.add_explain_bounded, rep, 'C10.errpath')
    rep.extra['explanation'] = ('each obligation is a z3 query over all objects x and all 32-bit draws r on the text captured from the real generator; '
                                'node shapes = induction step, composed shapes = bounded composition check')
    return rep.finish()


NESTED = [('list[list[int]]', "[[1, 'a'], [3, 4]]"), ('list[list[int]]', "[[1, 2], ['a', 4]]"), ('tuple[tuple[int, ...], ...]', "((1, 'a'), (3, 4))"),
          ('list[dict[str, list[int]]]', "[{'k': [1, 'a']}, {'k': [3, 4]}]"), ('Sequence[list[int]]', "[[0, 0, 0, 'a'], [0] * 4, [0] * 4, [0] * 4]"),
          ('list[list[int]]', "[['a', 2], [3, 4]]"), ('list[list[int]]', "[[1, 2, 3], [4, 'a', 6]]")]
def nested_reach(rep):
    """bounded (NOT counted as proved): 'for sequences under random sampling every index is reachable: if only item i violates, some draw rejects the
    object' read for a sequence NESTED in a sequence: one violating innermost item, all draws 0..4095 forced through the real is_bearable"""
    from pyvc import shapes, replaylib
    from beartype import BeartypeConf
    conf = BeartypeConf(); n = 0
    for hint_src, obj_src in NESTED:
        hint = shapes.ev(hint_src); rejected = None
        for r in range(4096):
            obj = eval(obj_src, dict(shapes.NS))
            v, e = replaylib.real_verdict(obj, hint, conf, r)
            if v == 'reject': rejected = r; break
        n += 1
        if rejected is None:
            rep.add(f'C02.nested_reach[{hint_src}|{obj_src}]', 'refuted', backend='runtime-contract', where='exactly one innermost item violates the hint, yet no draw in 0..4095 rejects the object (all nesting levels index with the SAME draw)',
                    solver_output='bounded run-time contract on the real API (not a proof)', replay=dict(reproduced=True, detail=f'is_bearable({obj_src}, {hint_src}) is True for every forced draw 0..4095'),
                    replay_script=f"from pyvc import shapes, replaylib\nfrom beartype import BeartypeConf\nbad = [r for r in range(4096) if replaylib.real_verdict(eval({obj_src!r}, dict(shapes.NS)), shapes.ev({hint_src!r}), BeartypeConf(), r)[0] == 'reject']\nprint('draws that reject:', bad[:5]); sys.exit(0 if bad else 1)\n")
    rep.bounded.append(dict(kind='reachability of a single violating item of a sequence nested in a sequence, all draws 0..4095 (bounded stand-in, NOT counted as proved)', scenarios=n))


C01_SIGS = [[('pk', False, False), ('vk', True, False)], [('ko', False, False), ('vk', True, False)], [('pk', True, False), ('pk', False, True), ('vk', True, False)],
            [('po', True, False), ('va', True, False), ('ko', False, True), ('vk', True, False)], [('pk', False, False), ('va', True, False)], [('po', False, False), ('pk', True, True), ('ko', True, False)],
            [('pk', True, False), ('ko', False, False), ('ko', True, True), ('vk', True, False)], [('po', True, True), ('vk', False, False)], [('pk', False, True), ('pk', True, True)], [('va', True, False), ('vk', True, False)]]
def _c01_wrap_worker(sig):
    from pyvc import wrapcheck
    return wrapcheck.wrapper_obligations(sig, True)
PROTO_SRC = """
import sys
from typing import Union
from beartype import beartype
from beartype.door import is_bearable, die_if_unbearable
from beartype.typing import Protocol
bad = []
def world():
    class P(Protocol):
        def meth(self) -> int: ...
    class Impl(P):
        def meth(self) -> int: return 1
        def extra(self) -> int: return 0
    class Sub(Impl): pass
    class Duck:
        def meth(self) -> int: return 2
    return P, Impl, Sub, Duck
# histories: a conforming object (structurally a P) is first checked against a class that merely INHERITS from P
for label, first in (('Impl first', lambda P, Impl, Sub, Duck: is_bearable(Duck(), Impl)), ('Sub first', lambda P, Impl, Sub, Duck: is_bearable(Duck(), Sub)),
                     ('isinstance(Impl) first', lambda P, Impl, Sub, Duck: isinstance(Duck(), Impl)), ('nothing first', lambda *a: None)):
    P, Impl, Sub, Duck = world(); first(P, Impl, Sub, Duck)
    if is_bearable(Duck(), P) is not True: bad.append(f'{label}: is_bearable(Duck(), P) is False although Duck defines every member of P')
    if is_bearable(Impl(), P) is not True or is_bearable(Sub(), Impl) is not True: bad.append(f'{label}: an instance of a subclass is rejected')
for hint_of, label in ((lambda P, Impl: Union[Impl, P], 'Union[Impl, P]'), (lambda P, Impl: list[Union[Impl, P]], 'list[Union[Impl, P]]'), (lambda P, Impl: Union[P, Impl], 'Union[P, Impl]')):
    P, Impl, Sub, Duck = world(); h = hint_of(P, Impl); o = [Duck()] if label.startswith('list') else Duck()
    if is_bearable(o, h) is not True: bad.append(f'{label}: conforming object rejected')
    @beartype
    def f(x: h) -> h: return x
    try: f(o)
    except Exception as e: bad.append(f'{label}: decorated call raised {type(e).__name__}')
print(bad[:3]); sys.exit(1 if bad else 0)
"""
def protocol_cache(rep):
    """C01 through beartype.typing.Protocol: isinstance() against a caching protocol is memoised per class in `_abc_inst_check_cache`.  Ownership
    obligation (function mode on the real metaclass __new__): on EVERY returning path the new class owns a FRESH empty table - a table shared
    with a base class would serve the base's or a sibling's verdicts.  (b) history scenarios in a fresh interpreter."""
    import z3
    from pyvc import funcmode, model as M, symx, REPO
    from pyvc.symx import Exec, St, VObj, VPy
    import beartype.typing._typingpep544 as mod
    fobj, node, _ = funcmode.load('beartype/typing/_typingpep544.py', '_CachingProtocolMeta.__new__')
    uni = M.Universe(); CLS = z3.Const('new_cls', M.Obj)
    def m_new(ex, s, f, a, kw, w): return [(s.ev('alloc_cls'), VObj(CLS))]
    def m_fresh(tag): return lambda ex, s, f, a, kw, w: [(s, VObj(M.fresh(tag)))]
    cm = {'super.__new__': m_new, '.get': m_fresh('got'), mod.runtime_checkable: m_fresh('rc')}
    ex = Exec(uni, dict(mod.__dict__), call_model=cm, name='proto_new'); ex.fields_mode = True; ex.method_names = {'get', '__new__'}; ex.quantify_allany = True
    args = tuple(VObj(z3.Const(n, M.Obj)) for n in ('mcls', 'name', 'bases', 'namespace'))
    try: outs = ex.run_function(node, St(), args, {}, fobj)
    except symx.Unsupported as e: rep.error(f'C01.protocol_cache: unsupported: {e}'); outs = []
    for i, (s_, v) in enumerate(outs):
        t = z3.simplify(z3.Select(ex.field(s_, '_abc_inst_check_cache'), CLS)); allocs = {f'dictref_{e[1]}' for e in s_.events if e[0] == 'alloc_dict' and e[2] == 0}
        ok = isinstance(v, VObj) and v.t.eq(CLS) and str(t) in allocs
        rep.add(f'C01.protocol_cache.new.post.fresh_table_per_class.path{i}', 'proved' if ok else 'refuted', backend='structural',
                where=f'_CachingProtocolMeta.__new__ returns the new class with _abc_inst_check_cache = ' + ('a dictionary allocated empty in this very call' if ok else f'{t} (not a table created for this class: inherited / shared verdicts)'))
    if not outs: rep.error('C01.protocol_cache: no returning path')
    import subprocess
    env = dict(os.environ); env['PYTHONPATH'] = REPO
    p = subprocess.run([sys.executable, '-c', PROTO_SRC], capture_output=True, text=True, timeout=120, env=env, cwd='/')
    if p.returncode not in (0, 1) or (p.returncode == 1 and not p.stdout.strip().startswith('[')): rep.error('C01 protocol_cache harness: ' + (p.stdout + p.stderr)[-600:]); return
    if p.returncode == 1:
        rep.add('C01.protocol_cache.history.conforming_object_rejected', 'refuted', backend='runtime-contract', bounded=True, where=p.stdout.strip()[-400:], solver_output='bounded run-time contract in a fresh interpreter (not a proof)',
                replay=dict(reproduced=True, detail=p.stdout.strip()[-300:]), replay_script=f"import subprocess\nenv = dict(os.environ); env['PYTHONPATH'] = os.environ.get('VERIF_REPO', {REPO!r})\np = subprocess.run([sys.executable, '-c', {PROTO_SRC!r}], env=env, cwd='/')\nsys.exit(p.returncode)\n")
    rep.bounded.append(dict(kind='beartype.typing.Protocol: conforming objects after / next to checks against inheriting classes (bounded stand-in, NOT counted as proved)', scenarios=7, failing=int(p.returncode == 1)))
    rep.functions.append('beartype/typing/_typingpep544.py:_CachingProtocolMeta.__new__ (mode F: the per-class isinstance cache is a fresh table)')

C02_SIGS = [[('po', False, False), ('vk', True, False)], [('va', False, False), ('vk', True, False)], [('po', False, False), ('pk', True, False), ('va', False, False), ('vk', True, False)],
            [('po', True, False), ('po', False, True), ('ko', False, False), ('vk', True, False)]]
def wrapper_must_reject(rep):
    """C02 through a decorated callable (captured wrapper text, arbitrary args/kwargs): "rejected on every call": the original is called only after
    EVERY value Python binds to an annotated parameter - whatever the call shape, incl. excess keywords named like a positional-only or variadic
    parameter, which Python binds to **kwargs - was accepted by that parameter's check"""
    sigs = C01_SIGS + C02_SIGS
    with mp.get_context('fork').Pool(min(14, int(os.environ.get('VERIF_PROCS', '16')))) as pool:
        recs = pool.map(_c01_wrap_worker, sigs)
    n = 0
    for rec in recs:
        tag = f'C02.wrap[{rec.get("src", str(rec["sig"])).splitlines()[0][4:-1] if rec.get("src") else rec["sig"]}]'
        if rec['error']: rep.error(f'{tag}: {rec["error"]}'); continue
        for o in rec['obligations']:
            if not o['name'].startswith(('post.b.', 'post.d.', 'post.return_checked')): continue
            n += 1; rp = o.get('replay'); script = None
            if rp and rp.get('reproduced'):
                script = (f'from pyvc import wrapcheck\nok, d = wrapcheck.replay_c04({rec["sig"]!r}, True, "BeartypeConf()", {rp.get("args")!r}, {rp.get("kwargs")!r})\n'
                          'print("REPRODUCED" if ok else "not reproduced", d)\nsys.exit(1 if ok else 0)\n')
            rep.add(f'{tag}.{o["name"]}', o['status'], time=o.get('time'), backend=o.get('backend'), where=o.get('where'), replay=rp, solver_output=o.get('solver_output'), replay_script=script, bounded=True)
    if not n: rep.error('C02 wrapper_must_reject: no obligation')
    rep.functions.append('wrapper text generated for 14 signatures (mode G; shared with C01 / C03 / C04): the original is only called after every bound annotated value was accepted')

def wrapper_no_false_alarm(rep):
    """C01 through a decorated callable (captured wrapper text, arbitrary args/kwargs): a parameter violation is only ever raised about a value
    Python binds to an ANNOTATED parameter and that does not conform to its hint - so a call whose passed annotated values all conform is
    never rejected, however the values were passed and whatever unannotated parameters sit next to them."""
    with mp.get_context('fork').Pool(min(10, int(os.environ.get('VERIF_PROCS', '16')))) as pool:
        recs = pool.map(_c01_wrap_worker, C01_SIGS)
    n = 0
    for rec in recs:
        tag = f'C01.wrap[{rec.get("src", str(rec["sig"])).splitlines()[0][4:-1] if rec.get("src") else rec["sig"]}]'
        if rec['error']: rep.error(f'{tag}: {rec["error"]}'); continue
        for o in rec['obligations']:
            if not (o['name'].startswith('post.a.') or o['name'].startswith('post.return_violation_justified') or o['name'].startswith('defined')): continue
            n += 1; rp = o.get('replay'); script = None
            if rp and rp.get('reproduced'):
                script = (f'from pyvc import wrapcheck\nok, d = wrapcheck.replay_c04({rec["sig"]!r}, True, "BeartypeConf()", {rp.get("args")!r}, {rp.get("kwargs")!r})\n'
                          'print("REPRODUCED" if ok else "not reproduced", d)\nsys.exit(1 if ok else 0)\n')
            rep.add(f'{tag}.{o["name"]}', o['status'], time=o.get('time'), backend=o.get('backend'), where=o.get('where'), replay=rp, solver_output=o.get('solver_output'), replay_script=script, bounded=True)
    if not n: rep.error('C01 wrapper_no_false_alarm: no obligation')
    rep.functions.append('wrapper text generated for 10 signatures with annotated variadics next to unannotated parameters (mode G; shared with C04)')
