# A generic subclass that parametrises its generic base with its OWN type
# variable of the same name as one of the base's type variables (the usual
# "T = TypeVar('T')" module convention) gets its type variables resolved wrongly:
# objects whose every key / fixed-tuple position violates are always accepted
# (and valid objects are rejected).
from typing import TypeVar, Dict
from beartype.door import is_bearable

T = TypeVar('T'); U = TypeVar('U'); V = TypeVar('V')

class A(dict[T, U]): pass          # A's parameters: (T, U)
class B(A[U, int]): pass           # B's parameter:  (U,)  =>  B[str] is a dict[str, int]
class B2(A[V, int]): pass          # identical, but with a differently *named* TypeVar

class GL(list[T]): pass
class GP(GL[tuple[T, int]]): pass  # GP[str] is a list[tuple[str, int]]

class TA(Dict[T, U]): pass         # same with typing.Dict
class TB(TA[U, int]): pass

bad = 0
def check(label, obj, hint, expected):
    global bad
    got = {is_bearable(obj, hint) for _ in range(50)}
    flag = '' if got == {expected} else '   <-- WRONG'
    bad += bool(flag)
    print(f'{label:50} expected {expected!s:5} got {sorted(got)}{flag}')

check("B[str]  <- B({1: 1})      (every key violates)",  B({1: 1}),     B[str],  False)
check("B[str]  <- B({'a': 1})    (valid)",               B({'a': 1}),   B[str],  True)
check("B2[str] <- B2({1: 1})     (control, TypeVar V)",  B2({1: 1}),    B2[str], False)
check("B2[str] <- B2({'a': 1})   (control, TypeVar V)",  B2({'a': 1}),  B2[str], True)
check("TB[str] <- TB({1: 1})     (typing.Dict flavour)", TB({1: 1}),    TB[str], False)
check("GP[str] <- GP([(1, 1)])   (tuple position 0)",    GP([(1, 1)]),  GP[str], False)
raise SystemExit(1 if bad else 0)
