# Finding 2: rejection by an IsEqual[...] validator turns into the private
# _BeartypeValeUtilException when "pith == value" returns a falsy non-bool
# (e.g. numpy scalars, whose __eq__ returns numpy.bool_).
import sys
from typing import Annotated
import beartype
assert beartype.__file__.startswith('/tmp/wt/hunt_C03'), beartype.__file__
from beartype import beartype as bt
from beartype.door import is_bearable, die_if_unbearable
from beartype.roar import BeartypeDoorHintViolation, BeartypeCallHintParamViolation
from beartype.vale import IsEqual

class NotQuiteBool:                 # pure-Python stand-in for numpy.bool_
    def __init__(self, v): self.v = v
    def __bool__(self): return self.v
class MyFloat(float):               # pure-Python stand-in for numpy.float64
    def __eq__(self, other): return NotQuiteBool(float(self) == other)
    __hash__ = float.__hash__

piths = [MyFloat(1.5)]
try:
    import numpy as np
    piths.append(np.float64(1.5))   # numpy.float64 *is* a float subclass
except ImportError:
    pass

Hint = Annotated[float, IsEqual[1.0]]
@bt
def f(x: Hint): pass

bad = 0
for pith in piths:
    print('is_bearable ->', is_bearable(pith, Hint))      # False: a rejection
    for label, call, exp in (
        ('die_if_unbearable', lambda: die_if_unbearable(pith, Hint), BeartypeDoorHintViolation),
        ('@beartype param  ', lambda: f(pith), BeartypeCallHintParamViolation),
    ):
        try:
            call()
            print(label, 'accepted?!')
        except exp as e:
            print(label, 'OK violation')
        except Exception as e:
            bad += 1
            print(label, 'BUG:', type(e).__module__ + '.' + type(e).__name__, str(e)[:200])
sys.exit(1 if bad else 0)
