"""Specification functions, written from the property statements and from `typing` introspection only
(typing.get_origin / get_args / TypeVar / NewType attributes) - independent of beartype's signs, reducers, templates.

  conforms(H, x)      [[H]](x): x conforms to H under the hint's published meaning, at full depth      (C01 premise)
  must_reject(H, x)   the violation lies where no sampling is involved, or every item violates         (C02 premise)
  consistent(H, x)    at each container level the hint describes, emptiness or one consistent item     (C02 conclusion)
  read_bound(H)       constant bound on container-item reads fixed by the hint alone                   (C09)

Interpretation choices are listed in DESIGN.md appendix A."""
import typing as t, types, collections, collections.abc as cabc, z3, itertools
from . import model as M
from .model import Obj

_cnt = itertools.count()
VDESC = {}   # id(validator) -> (desc, validator)     registered by pyvc.shapes constructors

class Spec:
    def __init__(self, uni, conf=None):
        self.uni = uni
        self.tower = bool(conf is not None and getattr(conf, 'is_pep484_tower', False))
        self.overrides = dict(getattr(conf, 'hint_overrides', None) or {}) if conf is not None else {}
        # the tower is folded into hint_overrides by BeartypeConf; the SPEC applies it from the property text instead
        if self.tower:
            self.overrides = {k: v for k, v in self.overrides.items() if k not in (float, complex)}
    C = property(lambda s: s.uni.const)
    # ---- hint destructuring (typing introspection only)
    @staticmethod
    def kind(h):
        if h is t.Any or h is object: return ('any',)
        if h is None or h is type(None): return ('cls', type(None))
        if isinstance(h, t.TypeVar):
            if h.__bound__ is not None: return ('alias', h.__bound__)
            if h.__constraints__: return ('union', tuple(h.__constraints__))
            return ('any',)
        if hasattr(h, '__supertype__'): return ('alias', h.__supertype__)
        if isinstance(h, getattr(t, 'TypeAliasType', ())): return ('alias', h.__value__)          # PEP 695 `type X = ...`
        if h is getattr(t, 'LiteralString', None): return ('cls', str)
        o = t.get_origin(h); a = t.get_args(h)
        if o is None:
            if h is t.NoReturn or h is t.Never: return ('never',)
            if isinstance(h, type):
                ob = getattr(h, '__orig_bases__', None)
                if ob and h.__module__ not in ('builtins', 'collections', 'collections.abc', 'typing', 'enum', 'abc'):
                    # a bare user class whose bases are subscripted generics (class IntItems(Items[int])): an instance also satisfies each of them
                    bases = [b for b in ob if t.get_origin(b) is not None and t.get_origin(b) not in (t.Generic, t.Protocol) and not getattr(b, '__parameters__', ())]
                    if bases: return ('generic', h, tuple(bases))
                return ('cls', h)
            raise NotImplementedError(f'spec: unsupported hint {h!r}')
        if isinstance(o, getattr(t, 'TypeAliasType', ())):                                       # subscripted PEP 695 alias: parameters substituted
            return ('alias', o.__value__[a if len(a) != 1 else a[0]])
        if o is t.Final or o is t.ClassVar: return ('alias', a[0])
        if o is t.Union or o is types.UnionType: return ('union', a)
        if o is t.Literal: return ('literal', a)
        if o is t.Annotated: return ('annotated', a[0], h.__metadata__)
        if o is type:
            if not a or a[0] is t.Any: return ('cls', type)
            k = Spec.kind(a[0])
            if k[0] == 'union': return ('subclass', tuple(k[1]))
            if k[0] == 'alias': return ('subclass', (k[1],))
            if k[0] == 'any': return ('cls', type)
            return ('subclass', (a[0],))
        if o is tuple:
            if len(a) == 2 and a[1] is Ellipsis: return ('items', tuple, a[0])
            if a == () or a == ((),): return ('fixed', ())
            # PEP 646: an unpacked fixed-length tuple child (`*tuple[A, B]` / Unpack[tuple[A, B]]) is spliced in place: still a fixed-length tuple
            flat = []
            def splice(args):
                for c in args:
                    inner = None
                    if getattr(c, '__unpacked__', False) and t.get_origin(c) is tuple: inner = t.get_args(c)
                    elif t.get_origin(c) is t.Unpack and t.get_origin(t.get_args(c)[0]) is tuple: inner = t.get_args(t.get_args(c)[0])
                    if inner is None:
                        if isinstance(c, t.TypeVarTuple) or t.get_origin(c) is t.Unpack or getattr(c, '__unpacked__', False):
                            raise NotImplementedError(f'spec: variadic unpacking inside a tuple hint {h!r}')
                        flat.append(c)
                    elif len(inner) == 2 and inner[1] is Ellipsis: raise NotImplementedError(f'spec: unbounded unpacked tuple inside {h!r}')
                    elif inner == ((),): pass
                    else: splice(inner)
            splice(a)
            return ('fixed', tuple(flat))
        if isinstance(o, type) and getattr(o, '__orig_bases__', None) and o.__module__ not in ('builtins', 'collections', 'collections.abc', 'typing'):
            # user generic: an instance of the class that also satisfies each subscripted pseudo-superclass with the
            # type parameters substituted (PEP 484 / 585 generics)
            params = getattr(o, '__parameters__', ())
            if not params:
                params = []
                for b in o.__orig_bases__:
                    for p in getattr(b, '__parameters__', ()):
                        if p not in params: params.append(p)
            sub = dict(zip(params, a))
            bases = []
            for b in o.__orig_bases__:
                bo = t.get_origin(b)
                if bo is None or bo is t.Generic or bo is t.Protocol: continue
                try: bases.append(b[tuple(sub.get(p, p) for p in b.__parameters__)] if getattr(b, '__parameters__', ()) else b)
                except TypeError: bases.append(b)
            return ('generic', o, tuple(bases))
        if o is collections.Counter: return ('mapping', o, a[0], int)
        if isinstance(o, type) and issubclass(o, cabc.ItemsView) and len(a) == 2: return ('items', o, tuple[a[0], a[1]])
        if isinstance(o, type) and issubclass(o, cabc.Mapping) and len(a) == 2: return ('mapping', o, a[0], a[1])
        if isinstance(o, type) and o.__module__ in ('builtins', 'collections', 'collections.abc', 'typing') and len(a) == 1 \
           and (issubclass(o, (cabc.Iterable, cabc.Container))) \
           and not issubclass(o, (cabc.Iterator, cabc.AsyncIterable, cabc.Awaitable)):
            return ('items', o, a[0])
        if isinstance(o, type): return ('cls', o)       # shallow: Iterator, Generator, Callable, Awaitable, ...
        raise NotImplementedError(f'spec: unsupported hint {h!r}')
    def k(self, h):
        try:
            if h in self.overrides: return ('alias_override', self.overrides[h])
        except TypeError: pass
        k = self.kind(h)
        if self.tower and k[0] == 'cls' and k[1] is float: return ('union_raw', (float, int))
        if self.tower and k[0] == 'cls' and k[1] is complex: return ('union_raw', (complex, float, int))
        if self.tower and k[0] == 'subclass':
            # "each float replaced by float | int ... at every nesting depth" (C18) - including inside type[...]
            out = []
            for c in k[1]:
                out += [float, int] if c is float else [complex, float, int] if c is complex else [c]
            return ('subclass', tuple(out))
        return k
    def _cls(self, x, c): return M.inst(x, self.C(c))

    # ---- [[H]](x)
    def conforms(self, h, x, seen=()):
        k = self.k(h); K = k[0]
        if K == 'any': return z3.BoolVal(True)
        if K == 'never': return z3.BoolVal(False)
        if K == 'cls': return self._cls(x, k[1])
        if K == 'union_raw': return z3.Or(*[self._cls(x, c) for c in k[1]])
        if K == 'alias': return self.conforms(k[1], x)
        if K == 'generic': return z3.And(self._cls(x, k[1]), *[self.conforms(b, x, seen) for b in k[2]])
        if K == 'alias_override':
            if h in seen: return self.conforms_noov(h, x)
            return self.conforms(k[1], x, seen + (h,)) if True else None
        if K == 'union': return z3.Or(*[self.conforms(m, x, seen) for m in k[1]])
        if K == 'literal':
            return z3.Or(*[z3.And(self._cls(x, type(l)), M.exacttype(x, self.C(type(l))), M.eq(x, self.C(l))) for l in k[1]])
        if K == 'annotated':
            return z3.And(self.conforms(k[1], x, seen), *[self.vmeaning(v, x) for v in k[2] if self.is_validator(v)])
        if K == 'subclass': return z3.And(self._cls(x, type), z3.Or(*[M.subc(x, self.C(c)) for c in k[1]]))
        if K == 'fixed':
            n = len(k[1])
            return z3.And(self._cls(x, tuple), M.len_(x) == n, *[self.conforms(c, M.item(x, i), seen) for i, c in enumerate(k[1])])
        if K == 'items':
            y = z3.Const(f'y{next(_cnt)}', Obj)
            return z3.And(self._cls(x, k[1]), z3.Implies(self._cls(x, cabc.Collection),
                          z3.ForAll([y], z3.Implies(M.mem(x, y), self.conforms(k[2], y, seen)), patterns=[M.mem(x, y)])))
        if K == 'mapping':
            y = z3.Const(f'k{next(_cnt)}', Obj)
            return z3.And(self._cls(x, k[1]), z3.ForAll([y], z3.Implies(M.mem(x, y),
                          z3.And(self.conforms(k[2], y, seen), self.conforms(k[3], M.mget(x, y), seen))), patterns=[M.mem(x, y)]))
        raise NotImplementedError(K)
    def conforms_noov(self, h, x):
        sv = self.overrides; self.overrides = {}
        try: return self.conforms(h, x)
        finally: self.overrides = sv

    # ---- must-reject (C02)
    def must_reject(self, h, x, seen=()):
        k = self.k(h); K = k[0]
        if K == 'any': return z3.BoolVal(False)
        if K == 'never': return z3.BoolVal(True)
        if K == 'cls': return z3.Not(self._cls(x, k[1]))
        if K == 'union_raw': return z3.And(*[z3.Not(self._cls(x, c)) for c in k[1]])
        if K == 'alias': return self.must_reject(k[1], x, seen)
        if K == 'generic': return z3.Or(z3.Not(self._cls(x, k[1])), *[self.must_reject(b, x, seen) for b in k[2]])
        if K == 'alias_override':
            if h in seen:
                sv = self.overrides; self.overrides = {}
                try: return self.must_reject(h, x)
                finally: self.overrides = sv
            return self.must_reject(k[1], x, seen + (h,))
        if K == 'union': return z3.And(*[self.must_reject(m, x, seen) for m in k[1]])
        if K == 'literal':
            return z3.Or(z3.And(*[z3.Not(M.eq(x, self.C(l))) for l in k[1]]), z3.And(*[z3.Not(self._cls(x, type(l))) for l in k[1]]))
        if K == 'annotated':
            return z3.Or(self.must_reject(k[1], x, seen), *[z3.Not(self.vmeaning(v, x)) for v in k[2] if self.is_validator(v)])
        if K == 'subclass': return z3.Not(z3.And(self._cls(x, type), z3.Or(*[M.subc(x, self.C(c)) for c in k[1]])))
        if K == 'fixed':
            n = len(k[1])
            return z3.Or(z3.Not(self._cls(x, tuple)), M.len_(x) != n, *[self.must_reject(c, M.item(x, i), seen) for i, c in enumerate(k[1])])
        if K == 'items':
            y = z3.Const(f'y{next(_cnt)}', Obj)
            return z3.Or(z3.Not(self._cls(x, k[1])), z3.And(self._cls(x, cabc.Collection), M.len_(x) > 0,
                         z3.ForAll([y], z3.Implies(M.mem(x, y), self.must_reject(k[2], y, seen)), patterns=[M.mem(x, y)])))
        if K == 'mapping':
            y = z3.Const(f'k{next(_cnt)}', Obj); y2 = z3.Const(f'k{next(_cnt)}', Obj)
            return z3.Or(z3.Not(self._cls(x, k[1])), z3.And(M.len_(x) > 0, z3.Or(
                z3.ForAll([y], z3.Implies(M.mem(x, y), self.must_reject(k[2], y, seen)), patterns=[M.mem(x, y)]),
                z3.ForAll([y2], z3.Implies(M.mem(x, y2), self.must_reject(k[3], M.mget(x, y2), seen)), patterns=[M.mem(x, y2)]))))
        raise NotImplementedError(K)

    # ---- consistent sampled path (C02 last sentence)
    def consistent(self, h, x, seen=()):
        k = self.k(h); K = k[0]
        if K == 'any': return z3.BoolVal(True)
        if K == 'never': return z3.BoolVal(False)
        if K == 'cls': return self._cls(x, k[1])
        if K == 'union_raw': return z3.Or(*[self._cls(x, c) for c in k[1]])
        if K == 'alias': return self.consistent(k[1], x, seen)
        if K == 'generic': return z3.And(self._cls(x, k[1]), *[self.consistent(b, x, seen) for b in k[2]])
        if K == 'alias_override':
            if h in seen:
                sv = self.overrides; self.overrides = {}
                try: return self.consistent(h, x)
                finally: self.overrides = sv
            return self.consistent(k[1], x, seen + (h,))
        if K == 'union': return z3.Or(*[self.consistent(m, x, seen) for m in k[1]])
        if K == 'literal':
            return z3.And(z3.Or(*[self._cls(x, type(l)) for l in k[1]]), z3.Or(*[M.eq(x, self.C(l)) for l in k[1]]))
        if K == 'annotated':
            return z3.And(self.consistent(k[1], x, seen), *[self.vmeaning(v, x) for v in k[2] if self.is_validator(v)])
        if K == 'subclass': return z3.And(self._cls(x, type), z3.Or(*[M.subc(x, self.C(c)) for c in k[1]]))
        if K == 'fixed':
            n = len(k[1])
            return z3.And(self._cls(x, tuple), M.len_(x) == n, *[self.consistent(c, M.item(x, i), seen) for i, c in enumerate(k[1])])
        if K == 'items':
            y = z3.Const(f'y{next(_cnt)}', Obj)
            return z3.And(self._cls(x, k[1]), z3.Or(z3.Not(self._cls(x, cabc.Collection)), M.len_(x) == 0,
                          z3.Exists([y], z3.And(M.mem(x, y), self.consistent(k[2], y, seen)))))
        if K == 'mapping':
            y = z3.Const(f'k{next(_cnt)}', Obj)
            return z3.And(self._cls(x, k[1]), z3.Or(M.len_(x) == 0,
                          z3.Exists([y], z3.And(M.mem(x, y), self.consistent(k[2], y, seen), self.consistent(k[3], M.mget(x, y), seen)))))
        raise NotImplementedError(K)

    # ---- C09: constant bound on item reads fixed by the hint alone
    def read_bound(self, h, seen=()):
        k = self.k(h); K = k[0]
        if K in ('any', 'never', 'cls', 'union_raw', 'literal', 'subclass'): return 0
        if K == 'alias': return self.read_bound(k[1], seen)
        if K == 'generic': return sum(self.read_bound(b, seen) for b in k[2])
        if K == 'alias_override':
            if h in seen: return 0
            return self.read_bound(k[1], seen + (h,))
        if K == 'union': return sum(self.read_bound(m, seen) for m in k[1])
        if K == 'annotated': return self.read_bound(k[1], seen)
        if K == 'fixed': return sum(1 + self.read_bound(c, seen) for c in k[1])
        if K == 'items': return 1 + self.read_bound(k[2], seen)
        if K == 'mapping': return 2 + self.read_bound(k[2], seen) + self.read_bound(k[3], seen)
        raise NotImplementedError(K)

    # ---- C09: "at most one item, or one key and its value, per container nesting level reached"
    def level_nodes(self, hs, seen=()):
        """container nodes of the hints `hs` that apply DIRECTLY to their common subject (through aliases, unions, Annotated, generics)"""
        out = []
        for h in hs:
            k = self.k(h); K = k[0]
            if K == 'alias': out += self.level_nodes([k[1]], seen)
            elif K == 'alias_override':
                if h not in seen: out += self.level_nodes([k[1]], seen + (h,))
            elif K == 'generic': out += self.level_nodes(list(k[2]), seen)
            elif K == 'union': out += self.level_nodes(list(k[1]), seen)
            elif K == 'annotated': out += self.level_nodes([k[1]], seen)
            elif K in ('fixed', 'items', 'mapping'): out.append(k)
        return out
    def level_budget(self, hs, t, reads, depth=0):
        """-> list of (container term, reads seen, reads allowed) for every level at which one evaluation read MORE than the container
        nodes of the hint applying to that very object allow (one item per sequence/collection node, one key + one value per mapping
        node, each position once per fixed-tuple node).  `reads` = the path's read events (kind, container, result, index)."""
        nodes = self.level_nodes(hs)
        mine = [e for e in reads if e[1].eq(t)]
        over = []
        n_item = sum(1 for k in nodes if k[0] == 'items'); n_map = sum(1 for k in nodes if k[0] == 'mapping'); fixed = [k for k in nodes if k[0] == 'fixed']
        # positions of fixed tuples are read by constant index: each position once per fixed node having it
        const_reads = {}; other = 0; key_reads = 0; val_reads = 0
        for kind, _, res, idx in mine:
            ci = None
            if kind == 'item' and idx is not None:
                si = z3.simplify(idx)
                if z3.is_int_value(si): ci = si.as_long()
            if ci is not None and any(len(k[1]) > ci >= 0 for k in fixed): const_reads[ci] = const_reads.get(ci, 0) + 1
            elif kind == 'value': val_reads += 1
            else: other += 1
        for ci, c in const_reads.items():
            allowed = sum(1 for k in fixed if len(k[1]) > ci)
            if c > allowed: over.append((t, f'position {ci}: {c} reads', allowed))
        if other > n_item + n_map: over.append((t, f'{other} item/key reads', n_item + n_map))
        if val_reads > n_map: over.append((t, f'{val_reads} value reads', n_map))
        if depth > 12: return over
        done = []
        for kind, _, res, idx in mine:
            if any(res.eq(d) for d in done): continue
            done.append(res); child = []
            ci = None
            if kind == 'item' and idx is not None and z3.is_int_value(z3.simplify(idx)): ci = z3.simplify(idx).as_long()
            for k in nodes:
                if k[0] == 'items' and kind in ('item', 'first'): child.append(k[2])
                elif k[0] == 'mapping': child.append(k[3] if kind == 'value' else k[2])
                elif k[0] == 'fixed' and ci is not None and 0 <= ci < len(k[1]): child.append(k[1][ci])
            if child: over += self.level_budget(child, res, reads, depth + 1)
        return over

    # ---- sequence positions reachable from the root without passing a sampled level (C02 reachability)
    def root_sequences(self, h, x, path=z3.BoolVal(True)):
        """yield (sequence_origin, item_hint, term of the sequence object, condition under which this node decides)"""
        k = self.k(h); K = k[0]
        if K in ('alias',): yield from self.root_sequences(k[1], x, path)
        elif K == 'generic':
            for b in k[2]: yield from self.root_sequences(b, x, path)
        elif K == 'annotated': yield from self.root_sequences(k[1], x, path)
        elif K == 'fixed':
            for i, c in enumerate(k[1]): yield from self.root_sequences(c, M.item(x, i), path)
        elif K == 'items' and k[1] in (list, tuple, cabc.Sequence, cabc.MutableSequence):
            yield (k[1], k[2], x)
        elif K == 'items' and k[1] in (cabc.Iterable, cabc.Container, cabc.Reversible):
            # the hints whose check samples an item by index when the OBJECT is a sequence: "for sequences under random sampling every
            # index is reachable" is then about the object being a Sequence, whatever the (broader) origin of the hint
            yield (cabc.Sequence, k[2], x)

    # ---- validators
    @staticmethod
    def is_validator(v):
        from beartype.vale._core._valecore import BeartypeValidator
        return isinstance(v, BeartypeValidator)
    def vmeaning(self, v, x):
        d = VDESC.get(id(v))
        if d is None: raise NotImplementedError(f'validator without registered description: {v!r}')
        return self._vm(d[0], x)
    def _vm(self, d, x):
        K = d[0]
        if K == 'is': return M.truthy(M.callres(self.C(d[1]), x))
        if K == 'eq': return M.eq(x, self.C(d[1]))
        if K == 'inst': return z3.Or(*[self._cls(x, c) for c in d[1]])
        if K == 'sub': return z3.And(self._cls(x, type), z3.Or(*[M.subc(x, self.C(c)) for c in d[1]]))
        if K == 'attr': return z3.And(M.hasattr_(x, self.C(d[1])), self._vm(d[2], M.attr(x, self.C(d[1]))))
        if K == 'and': return z3.And(self._vm(d[1], x), self._vm(d[2], x))
        if K == 'or': return z3.Or(self._vm(d[1], x), self._vm(d[2], x))
        if K == 'not': return z3.Not(self._vm(d[1], x))
        raise NotImplementedError(K)
