# Finding 5: the generated check and the violation explainer read container items through
# different protocols, so containers for which those protocols differ turn a rejection into a
# non-violation exception:
#   Mapping hints     : check  = key := next(iter(pith)); pith[key]     explainer = next(iter(pith.items()))
#   fixed tuple hints : check  = pith[0], pith[1], ...                  explainer = enumerate(pith)
#   sequences under On: check  = pith[random % len(pith)]               explainer = enumerate(pith)
#  (a) dict subclass overriding __getitem__ (dict.items() bypasses __getitem__) => desynchronisation error
#  (b) virtual Mapping (collections.abc.Mapping.register) without .items()       => AttributeError
#  (c) tuple subclass overriding __getitem__, hint tuple[Callable, int]           => desynchronisation error
#  (d) list subclass overriding __getitem__, hint list[Callable], strategy On     => desynchronisation error
import sys
from collections.abc import Mapping, Callable
import beartype
assert beartype.__file__.startswith('/tmp/wt/hunt_C03'), beartype.__file__
from beartype import beartype as bt, BeartypeConf, BeartypeStrategy
from beartype.door import is_bearable, die_if_unbearable
from beartype.roar import BeartypeDoorHintViolation, BeartypeCallHintParamViolation

class LazyDict(dict):
    '''dict whose callable values are evaluated on item access.'''
    def __getitem__(self, key):
        value = super().__getitem__(key)
        return value() if callable(value) else value

class MiniMap:
    '''Minimal read-only mapping registered as a virtual Mapping.'''
    def __init__(self, d): self._d = d
    def __len__(self): return len(self._d)
    def __iter__(self): return iter(self._d)
    def __getitem__(self, k): return self._d[k]
Mapping.register(MiniMap)

class LazyTuple(tuple):
    def __getitem__(self, index):
        value = super().__getitem__(index)
        return value() if callable(value) else value
class LazyList(list):
    def __getitem__(self, index):
        value = super().__getitem__(index)
        return value() if callable(value) else value

O1 = BeartypeConf()
ON = BeartypeConf(strategy=BeartypeStrategy.On)
cases = [
    ('(a) LazyDict ', LazyDict(a=lambda: 'not callable'), dict[str, Callable], O1),
    ('(b) MiniMap  ', MiniMap({'a': 'b'}), Mapping[str, int], O1),
    ('(c) LazyTuple', LazyTuple((lambda: 'not callable', 1)), tuple[Callable, int], O1),
    ('(d) LazyList ', LazyList([lambda: 'not callable']), list[Callable], ON),
]
bad = 0
for label, obj, hint, conf in cases:
    print(label, 'is_bearable ->', is_bearable(obj, hint, conf=conf))   # False: rejected
    @bt(conf=conf)
    def f(x: hint): pass
    for entry, call, exp in (
        ('die_if_unbearable', lambda: die_if_unbearable(obj, hint, conf=conf), BeartypeDoorHintViolation),
        ('@beartype param  ', lambda: f(obj), BeartypeCallHintParamViolation),
    ):
        try:
            call(); print(label, entry, 'accepted')
        except exp:
            print(label, entry, 'OK violation')
        except Exception as e:
            bad += 1
            print(label, entry, 'BUG:', type(e).__name__, str(e)[:150])
sys.exit(1 if bad else 0)
