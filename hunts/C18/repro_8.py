# beartype.FrozenDict does not override dict.__ior__ (nor guard against a second
# __init__ call), so "frozen |= {...}" silently mutates it in place while its
# precomputed hash stays unchanged. A BeartypeConf built from it (and every
# checker memoised under that conf) then disagrees with itself about which
# hints are overridden.
import sys
from beartype import BeartypeConf, FrozenDict
from beartype.door import is_bearable
class A: pass
class B: pass
class C: pass
overrides = FrozenDict({A: B})
conf = BeartypeConf(hint_overrides=overrides)
assert is_bearable(C(), C, conf=conf)            # memoises a checker for (C, conf)
h = hash(overrides)
try:
    overrides |= {C: B}
except Exception as e:
    print('FrozenDict |= raised', type(e).__name__, '(fine)'); sys.exit(0)
print('FrozenDict mutated in place by |= :', dict(conf.hint_overrides), '| hash unchanged:', hash(overrides) == h)
root   = (is_bearable(C(), C, conf=conf), is_bearable(B(), C, conf=conf))
nested = (is_bearable([C()], list[C], conf=conf), is_bearable([B()], list[C], conf=conf))
print('hint C       (C(), B()) accepted? ->', root,   ' <- stale: C not overridden')
print('hint list[C] (C(), B()) accepted? ->', nested, ' <- fresh: C overridden by B')
sys.exit(1)
