# Views of an OrderedDict crash infer_hint().
import collections, types
from beartype.door import infer_hint, is_bearable

od = collections.OrderedDict(a=1)
bad = 0
for name, obj in (('od.keys()', od.keys()), ('od.values()', od.values()),
                  ('[od.keys()]', [od.keys()]),
                  ('mappingproxy(od).values()', types.MappingProxyType(od).values())):
    try:
        hint = infer_hint(obj)
        ok = is_bearable(obj, hint)
        print(f'{name}: hint={hint!r} -> {ok}')
        bad += ok is not True
    except Exception as e:
        print(f'{name}: infer_hint raised {type(e).__name__}: {e}')
        bad += 1
raise SystemExit(1 if bad else 0)
