# hint_overrides={A: B, B: A}: every occurrence of A should be checked as B (and
# vice versa). Instead overrides are chained (A -> B -> A) until the recursion
# guard trips, so the configuration is a silent no-op.
import sys
from beartype import beartype, BeartypeConf, FrozenDict
from beartype.door import is_bearable
class A: pass
class B: pass
conf = BeartypeConf(hint_overrides=FrozenDict({A: B, B: A}))
rows = [
    ('is_bearable(B(), A)',         is_bearable(B(), A, conf=conf),             is_bearable(B(), B)),
    ('is_bearable(A(), A)',         is_bearable(A(), A, conf=conf),             is_bearable(A(), B)),
    ('is_bearable([B()], list[A])', is_bearable([B()], list[A], conf=conf),     is_bearable([B()], list[B])),
    ('is_bearable([A()], list[B])', is_bearable([A()], list[B], conf=conf),     is_bearable([A()], list[A])),
]
bad = 0
for label, got, hand in rows:
    print(f'{label:32} conf={got!s:6} hand-rewritten={hand}')
    bad += got != hand
sys.exit(1 if bad else 0)
