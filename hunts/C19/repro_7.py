# Transitivity: callable parameters are compared with "not (self_param > branch_param)", which holds
# for *incomparable* parameter hints (same arity throughout, so unrelated to arity being ignored).
import sys
from typing import Callable
from beartype.door import is_subhint
A, B, C = Callable[[int], int], Callable[[str], int], Callable[[bool], int]
ab, bc, ac = is_subhint(A, B), is_subhint(B, C), is_subhint(A, C)
print(f'A <= B: {ab}; B <= C: {bc}; A <= C: {ac}')
sys.exit(1 if (ab and bc and not ac) else 0)
