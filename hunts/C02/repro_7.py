# Generated wrappers reference builtins (len, isinstance, tuple, int, type, ...)
# by bare name and are exec'd in the decorated callable's module globals, so a
# module-level name shadowing a builtin silently subverts the checks.
from typing import List
from beartype import beartype
from beartype.roar import BeartypeCallHintViolation

def len(thing):            # an innocent module-level helper shadowing builtins.len
    return 0

@beartype
def f(x: int, y: List[str]) -> None: pass

bad = 0
for args in (('not an int', ['ok']), (1, [1, 2, 3]), (1, 'not a list')):
    try:
        f(*args); print('accepted', args); bad += 1
    except BeartypeCallHintViolation:
        print('rejected', args)
raise SystemExit(1 if bad else 0)
