# Finding 1: a composite (|, ~ or nested &) validator that was short-circuited
# by an earlier sibling makes the violation *message* generation raise the
# user's exception, although is_valid and the generated code both cleanly
# report "False".
import sys
import beartype
assert beartype.__file__.startswith('/tmp/wt/hunt_C12'), beartype.__file__
from typing import Annotated
from beartype import beartype as bt
from beartype.door import is_bearable, die_if_unbearable
from beartype.roar import BeartypeCallHintViolation, BeartypeDoorHintViolation
from beartype.vale import Is

NonEmpty  = Is[lambda l: len(l) > 0]
FirstPos  = Is[lambda l: l[0] > 0]
FirstNone = Is[lambda l: l[0] is None]

bad = 0
for name, V in (
    ('NonEmpty & (FirstPos | FirstNone)', NonEmpty & (FirstPos | FirstNone)),
    ('NonEmpty & ~FirstNone',             NonEmpty & ~FirstNone),
    ('NonEmpty & (NonEmpty & ~FirstNone)', NonEmpty & (NonEmpty & ~FirstNone)),
):
    H = Annotated[list, V]
    # Boolean meaning: [] is a list, NonEmpty([]) is False, "and" short-circuits => False.
    print(name)
    print('  is_valid([])     =', V.is_valid([]))
    print('  is_bearable([])  =', is_bearable([], H))
    try:
        die_if_unbearable([], H)
        print('  die_if_unbearable: accepted?!'); bad += 1
    except BeartypeDoorHintViolation:
        print('  die_if_unbearable: violation (expected)')
    except Exception as e:
        print('  die_if_unbearable: BUG ->', type(e).__name__, e); bad += 1

    @bt
    def f(x: H): return x
    try:
        f([])
        print('  @beartype f([]): accepted?!'); bad += 1
    except BeartypeCallHintViolation:
        print('  @beartype f([]): violation (expected)')
    except Exception as e:
        print('  @beartype f([]): BUG ->', type(e).__name__, e); bad += 1

sys.exit(1 if bad else 0)
