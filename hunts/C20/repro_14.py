# Callables carrying a __wrapped__ attribute.
import signal
from beartype.door import infer_hint, is_bearable

class Deco:                                   # class-based decorator
    def __init__(self, func): self.__wrapped__ = func
    def __call__(self, *args, **kwargs): return self.__wrapped__(*args, **kwargs)
@Deco
def f(x: int) -> str: return str(x)

def g(*args, **kwargs): pass
g.__wrapped__ = g                             # self-referential wrapper chain

def on_alarm(*_): raise TimeoutError('infer_hint() did not terminate within 5s')
signal.signal(signal.SIGALRM, on_alarm)
bad = 0
for name, obj in (('Deco-wrapped f', f), ('g.__wrapped__ = g', g)):
    signal.alarm(5)
    try:
        hint = infer_hint(obj)
        ok = is_bearable(obj, hint)
        print(f'{name}: hint={hint!r} -> {ok}'); bad += ok is not True
    except Exception as e:
        print(f'{name}: raised {type(e).__name__}: {e}'); bad += 1
    finally:
        signal.alarm(0)
raise SystemExit(1 if bad else 0)
