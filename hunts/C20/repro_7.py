# C-based unbound method descriptors / slot wrappers / method-wrappers crash infer_hint().
from beartype.door import infer_hint, is_bearable

bad = 0
for name, obj in (('str.upper', str.upper), ('list.append', list.append), ('dict.get', dict.get),
                  ('int.__add__', int.__add__), ('object.__init__', object.__init__),
                  ('[].__len__', [].__len__), ("dict.__dict__['fromkeys']", dict.__dict__['fromkeys']),
                  ('[str.upper, len]', [str.upper, len])):
    try:
        hint = infer_hint(obj)
        ok = is_bearable(obj, hint)
        print(f'{name}: hint={hint!r} -> {ok}')
        bad += ok is not True
    except Exception as e:
        print(f'{name} ({type(obj).__name__}): infer_hint raised {type(e).__name__}: {e}')
        bad += 1
raise SystemExit(1 if bad else 0)
