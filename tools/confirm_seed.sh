#!/bin/bash
# usage: confirm_seed.sh <dir containing SEED/{patch.diff,demo.py,notes.md}> <seed name> <property id>
# Confirms independently, in a fresh scratch worktree: patch applies; demo exits 0 without / non-zero with the patch;
# pinned suite (stable_pass) still passes with the patch.  On success copies into /verif/seeded/<name>/ with meta.json.
set -u
SRC=$1; NAME=$2; PROP=$3
WT=/tmp/wt/confirm_$NAME
git -C /repo worktree remove --force $WT >/dev/null 2>&1
git -C /repo worktree add --detach $WT HEAD >/dev/null 2>&1 || exit 3
mkdir -p $WT/SEED; cp $SRC/SEED/patch.diff $SRC/SEED/demo.py $WT/SEED/
cd $WT
PYTHONPATH=$WT timeout 600 /venv/bin/python SEED/demo.py >/tmp/wt/confirm_$NAME.demo0.log 2>&1; D0=$?
git apply SEED/patch.diff; AP=$?
PYTHONPATH=$WT timeout 600 /venv/bin/python SEED/demo.py >/tmp/wt/confirm_$NAME.demo1.log 2>&1; D1=$?
python3 /verif/tools/baseline_check.py $WT >/tmp/wt/confirm_$NAME.base.log 2>&1; BL=$?
cd /; git -C /repo worktree remove --force $WT >/dev/null 2>&1
echo "seed=$NAME apply=$AP demo_clean=$D0 demo_patched=$D1 baseline_patched=$BL"
if [ $AP -eq 0 ] && [ $D0 -eq 0 ] && [ $D1 -ne 0 ] && [ $BL -eq 0 ]; then
  mkdir -p /verif/seeded/$NAME
  cp $SRC/SEED/patch.diff $SRC/SEED/demo.py /verif/seeded/$NAME/
  [ -f $SRC/SEED/notes.md ] && cp $SRC/SEED/notes.md /verif/seeded/$NAME/notes.md
  python3 - <<PY
import json
json.dump({"property": "$PROP", "name": "$NAME",
 "needs_to_manifest": open("$SRC/SEED/notes.md").read()[:1500] if __import__('os').path.exists("$SRC/SEED/notes.md") else "",
 "confirmed_by": "tools/confirm_seed.sh in a fresh scratch worktree of /repo HEAD",
 "ran": ["git apply SEED/patch.diff (exit $AP)", "demo.py on clean tree (exit $D0)", "demo.py on patched tree (exit $D1)", "tools/baseline_check.py on patched tree: all 422 stable_pass tests pass (exit $BL)"],
 "detected_by": "TBD"}, open("/verif/seeded/$NAME/meta.json", "w"), indent=1)
PY
  echo "seed=$NAME KEPT"
else
  echo "seed=$NAME REJECTED"; tail -5 /tmp/wt/confirm_$NAME.demo0.log /tmp/wt/confirm_$NAME.demo1.log /tmp/wt/confirm_$NAME.base.log
fi
