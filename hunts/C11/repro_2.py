import sys, traceback, warnings
import beartype
from beartype.roar import BeartypeException, BeartypeWarning
assert beartype.__file__.startswith('/tmp/wt/hunt_C11'), beartype.__file__
BAD = []
def check(label, fn, user_excs=()):
    """Run fn(); flag anything other than a public beartype.roar exception (or an
    explicitly allowed user exception) and any non-beartype warning."""
    with warnings.catch_warnings(record=True) as w:
        warnings.simplefilter('always')
        try:
            fn(); print(f'[ok: no exception]   {label}')
        except user_excs as e:
            print(f'[ok: user exception] {label}: {type(e).__name__}')
        except BeartypeException as e:
            if type(e).__name__.startswith('_'):
                BAD.append(label)
                print(f'[VIOLATION private]  {label}: {type(e).__name__}: {str(e)[:140]!r}')
            else:
                print(f'[ok: beartype exc]   {label}: {type(e).__name__}')
        except BaseException as e:
            BAD.append(label)
            fr = traceback.extract_tb(e.__traceback__)[-1]
            print(f'[VIOLATION]          {label}: {type(e).__name__}: {str(e)[:140]} (raised at {fr.filename}:{fr.lineno})')
    for x in w:
        if not issubclass(x.category, BeartypeWarning):
            BAD.append(label)
            print(f'[VIOLATION warning]  {label}: {x.category.__name__}: {str(x.message)[:120]}')
def finish():
    print(f'{len(BAD)} violation(s)'); sys.exit(1 if BAD else 0)
# ---------------------------------------------------------------------------
# Finding 2: C-level method descriptors / method-wrappers (and classes lacking or having an
# unhashable __module__) passed as hints leak AttributeError / TypeError from get_hint_pep_sign_or_none().
from beartype import beartype
from beartype.door import is_bearable, die_if_unbearable, is_subhint, TypeHint
for name, hint in [('int.__add__', int.__add__), ('str.join', str.join), ('[].__len__', [].__len__),
                   ("dict.__dict__['fromkeys']", dict.__dict__['fromkeys'])]:
    check(f'is_bearable(1, {name})', lambda: is_bearable(1, hint))
    check(f'TypeHint({name})', lambda: TypeHint(hint))
    check(f'is_subhint({name}, int)', lambda: is_subhint(hint, int))
    def decorate():
        def f(x): pass
        f.__annotations__['x'] = hint
        beartype(f)
    check(f'@beartype def f(x: {name})', decorate)
# A class created in a namespace without __name__ has no __module__ at all:
NoModule = eval('type("NoModule", (), {})', {})
check('is_bearable(1, <class without __module__>)', lambda: is_bearable(1, NoModule))
class UnhashableModule: pass
UnhashableModule.__module__ = []
check('is_bearable(1, <class with __module__ = []>)', lambda: is_bearable(1, UnhashableModule))
finish()
