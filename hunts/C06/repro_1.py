# beartype_all() / beartyping() make every first import of a source module fail with
# ImportError (circular import of "hashlib") unless "hashlib" happens to be imported already.
import sys
assert 'hashlib' not in sys.modules   # true for a plain "python script.py"
import beartype
assert beartype.__file__.startswith('/tmp/wt/hunt_C06'), beartype.__file__
from beartype.claw import beartype_all, beartyping
assert 'hashlib' not in sys.modules   # importing beartype.claw does not import it either

bad = 0
# (1) context manager
try:
    with beartyping():
        import colorsys            # any pure-Python module not yet imported
    print('beartyping(): import colorsys OK')
except ImportError as e:
    bad += 1
    print('beartyping(): import colorsys FAILED:', type(e).__name__, e)

# (2) global hook
beartype_all()
try:
    import colorsys
    print('beartype_all(): import colorsys OK')
except ImportError as e:
    bad += 1
    print('beartype_all(): import colorsys FAILED:', type(e).__name__, e)
sys.exit(1 if bad else 0)
