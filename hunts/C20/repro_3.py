# Counter with non-int counts: the inferred hint ignores the values.
from collections import Counter
from beartype.door import infer_hint, is_bearable

bad = 0
for obj in (Counter({'a': 1.5}), Counter(a=None), [Counter({'x': 0.5})]):
    hint = infer_hint(obj)
    ok = is_bearable(obj, hint)
    print(f'{obj!r}: hint={hint!r} -> is_bearable={ok}')
    bad += ok is not True
raise SystemExit(1 if bad else 0)
