# @beartype on a generator-based coroutine (@types.coroutine) returns a plain
# generator function: the result can no longer be awaited.
import asyncio, types
from beartype import beartype

@types.coroutine
def orig(a: int):
    yield
    return a * 2

async def main(fn):
    return await fn(21)

assert asyncio.run(main(orig)) == 42
dec = beartype(orig)
try:
    assert asyncio.run(main(dec)) == 42
    raise SystemExit(0)
except TypeError as e:
    print('BUG valid call raised TypeError:', e)
    raise SystemExit(1)
