# Finding 3: IsEqual.__getitem__ is memoised on the *equality* of its argument,
# so IsEqual[True] / IsEqual[1.0] / IsEqual[IntEnum member] silently return the
# validator previously created for IsEqual[1] (or vice versa). The resulting
# validator tests "obj == <the other object>".
import sys
import beartype
assert beartype.__file__.startswith('/tmp/wt/hunt_C12'), beartype.__file__
from typing import Annotated
from beartype.door import is_bearable, die_if_unbearable
from beartype.vale import IsEqual

class Strict:
    '''Payload that only equals objects of exactly the payload's type.'''
    def __init__(self, v): self.v = v
    def __eq__(self, other): return type(other) is type(self.v) and other == self.v
    def __hash__(self): return hash(self.v)
    def __repr__(self): return f'Strict({self.v!r})'

one  = IsEqual[1]        # somebody, somewhere, created this first
true = IsEqual[True]     # ... and now this is the *same* object
print('IsEqual[True] is IsEqual[1]:', true is one, '| repr(IsEqual[True]) =', repr(true))

p = Strict(1)
expected = bool(p == True)                      # ordinary meaning of IsEqual[True]
got_valid = bool(true.is_valid(p))
got_code  = bool(is_bearable(p, Annotated[object, IsEqual[True]]))
print(f'p == True -> {expected}; IsEqual[True].is_valid(p) -> {got_valid}; is_bearable(p, Annotated[object, IsEqual[True]]) -> {got_code}')
bad = (got_valid != expected) or (got_code != expected)

# The same conflation with NumPy (if installed): a list is accepted as "== 1".
try:
    import numpy as np
    IsEqual[np.int64(7)]                         # e.g. created by some other library
    r = is_bearable([7], Annotated[object, IsEqual[7]])
    print(f'[7] == 7 -> {[7] == 7}; is_bearable([7], Annotated[object, IsEqual[7]]) -> {r!r}; repr(IsEqual[7]) = {IsEqual[7]!r}')
    bad = bad or bool(r) != ([7] == 7)
except ImportError:
    pass
sys.exit(1 if bad else 0)
