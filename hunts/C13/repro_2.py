# Decorating a class injects a brand new pure-Python __sizeof__() into the class
# (not equivalent to decorating its members) and that method shadows the
# __sizeof__() of builtin bases later in the MRO of subclasses.
import sys
from beartype import beartype

class Mixin:
    def hello(self, x: int) -> int: return x

class MyList(Mixin, list): pass

big = MyList(range(1000))
keys_before = set(Mixin.__dict__)
size_before = sys.getsizeof(big)

beartype(Mixin)

keys_after = set(Mixin.__dict__)
size_after = sys.getsizeof(big)
print('new class members:', keys_after - keys_before)
print('sys.getsizeof(big) before/after:', size_before, size_after)

# Equivalent member-wise decoration for comparison.
class Mixin2:
    def hello(self, x: int) -> int: return x
Mixin2.hello = beartype(Mixin2.__dict__['hello'])
class MyList2(Mixin2, list): pass
print('member-wise decoration getsizeof:', sys.getsizeof(MyList2(range(1000))))

sys.exit(1 if (keys_after != keys_before or size_before != size_after) else 0)
