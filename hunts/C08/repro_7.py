# Finding 7 (minor, inherent to wrapping): the wrapper keeps its own reference
# to every argument in its "*args/**kwargs" for the whole life of the produced
# generator, so a body that drops its last reference to an argument ("del res")
# no longer triggers that argument's finaliser at that point.
import sys
from beartype import beartype

class Res:
    def __init__(self, log): self.log = log
    def __del__(self): self.log.append('released')

def scenario(decorate):
    log = []
    def gen(res: Res):
        yield 1
        del res                      # body releases the resource early
        log.append('after del')
        yield 2
    f = beartype(gen) if decorate else gen
    it = f(Res(log))
    next(it); next(it)
    log.append('second yield reached')
    del it
    return log

orig, bear = scenario(False), scenario(True)
print('orig:', orig)
print('bear:', bear)
sys.exit(orig != bear)
