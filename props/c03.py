"""C03 - all entry points agree; every rejection is the configured, explained violation.
 (1) proof (mode G): tester / raiser / wrapper-parameter / wrapper-return texts captured from the real generator for the
     same shape are proved to accept exactly the same (x, r); a rejecting raiser path raises (or, for a Warning class,
     warns and falls through) exactly the object returned by get_violation(obj=<the pith>, random_int=<the same draw>).
 (2) proof (mode F): _find_hint_object_violation_cause selects the configured class; get_hint_object_violation builds
     culprits beginning with the rejected object; _make_code_raiser_violation picks warn vs raise from the right flag;
     enumerate_cause_items / _get_cause_enumerator_item_* inspect the same item as the fast path (also C09 error path).
 (3) bounded: the explanation path agrees with the fast path (no desynchronisation, configured class, culprits, message)
     over an enumerated hint x object x draw space, as a run-time contract on the real API."""
import ast, os, sys, time, z3, traceback, itertools, random, multiprocessing as mp
from pyvc import report

# ------------------------------------------------------------------ (1)
def _agree_worker(task):
    shape, conf_src = task
    rec = dict(shape=shape, conf=conf_src, obligations=[], error=None)
    try:
        from pyvc import shapes, capture, gencheck, model as M, discharge, symx
        from pyvc.symx import Exec, St, VObj, VPy, VInt, VStar
        import collections.abc as cabc
        from beartype.door import is_bearable, die_if_unbearable
        from beartype import beartype
        from beartype.roar import BeartypeException
        import warnings
        class MyW(UserWarning): pass
        shapes.NS['MyW'] = MyW
        capture.install()
        hint = shapes.ev(shape); conf = shapes.ev(conf_src)
        uni = M.Universe()
        for c in (cabc.Sized, cabc.Collection, cabc.Sequence, cabc.Mapping, cabc.Iterable, cabc.Set, tuple, dict, type(None)): uni.const(c)
        x = z3.Const('x', M.Obj); r = z3.Int('r')
        progs = {}
        # --- tester
        capture.clear_beartype_caches(); capture.drain(); is_bearable(None, hint, conf=conf); caps = capture.drain()
        if not caps:
            rec['ignorable'] = True; return rec
        ex, _, _, outs = gencheck.run_tester(caps[-1].code, caps[-1].scope, uni, shape)
        progs['tester'] = (ex, [(st.pc, ex.truth(v)) for k, st, v in outs if k == 'return'], [k for k, st, v in outs if k != 'return'])
        # --- raiser
        capture.clear_beartype_caches(); capture.drain()
        with warnings.catch_warnings():
            warnings.simplefilter('ignore')
            try: die_if_unbearable(None, hint, conf=conf)
            except BeartypeException: pass
        caps = capture.drain(); cap = caps[-1]
        VIOL = z3.Const('violation', M.Obj)
        def m_getv(ex_, s, f, args, kw, where):
            kw = dict(kw)
            return [(s.ev('get_violation', {k: (ex_.obj(v) if not isinstance(v, VInt) else v.t) for k, v in kw.items() if k in ('obj', 'random_int', 'hint', 'conf')}), VObj(VIOL))]
        def m_warn(ex_, s, f, args, kw, where): return [(s.ev('warn', [ex_.obj(a) for a in args]), VPy(None))]
        def m_str(ex_, s, f, args, kw, where): return [(s, VObj(z3.Function('str_of', M.Obj, M.Obj)(ex_.obj(args[0]))))]
        cm = {cap.scope['__beartype_get_violation']: m_getv, str: m_str}
        if '__beartype_warn' in cap.scope: cm[cap.scope['__beartype_warn']] = m_warn
        ex, _, _, outs = gencheck.run_tester(cap.code, cap.scope, uni, shape, extra_models=cm)
        acc = []; frames_ok = True; why = ''
        is_warn = issubclass(conf.violation_door_type, Warning)
        for k, st, v in outs:
            evs = [e for e in st.events if e[0] in ('get_violation', 'warn')]
            gv = [e for e in evs if e[0] == 'get_violation']; wn = [e for e in evs if e[0] == 'warn']
            if k == 'next' and not gv: acc.append((st.pc, z3.BoolVal(True)))          # falls off the end without a violation: accepted
            elif (k == 'raise' and not is_warn) or (k == 'next' and is_warn and gv):
                acc.append((st.pc, z3.BoolVal(False)))
                kw = gv[-1][1] if gv else {}
                ok = (len(gv) == 1 and kw.get('obj') is not None and kw['obj'].eq(x) and (kw.get('random_int') is None or kw['random_int'].eq(r))
                      and kw.get('hint') is not None and kw['hint'].eq(uni.const(cap.scope['__beartype_raiser_hint'])) and kw['conf'].eq(uni.const(cap.scope['__beartype_conf'])))
                # the violation itself is warned: either the instance (warn(v): category and text are the instance's own) or its text under its class
                if is_warn: ok = ok and len(wn) == 1 and (wn[0][1][0].eq(VIOL) or wn[0][1][0].eq(z3.Function('str_of', M.Obj, M.Obj)(VIOL)))
                else: ok = ok and isinstance(v, VObj) and v.t.eq(VIOL) and not wn
                if not ok: frames_ok = False; why = f'path {k}: get_violation kwargs {list(kw)} warn={len(wn)}'
            else: frames_ok = False; why = f'unexpected completion {k}'
        rec['obligations'].append(dict(name='frame.raiser', status='proved' if frames_ok else 'refuted', backend='structural', time=0,
                                       where=why or 'a rejecting path calls get_violation(obj=pith, random_int=draw, hint, conf) once and raises / warns exactly its result'))
        progs['raiser'] = (ex, acc, [])
        # --- decorated identity function: parameter check and return check
        from pyvc import wrapcheck
        ns = dict(shapes.NS); ns['H'] = hint
        exec('def f(p0: H, /) -> H:\n    return p0\n', ns); capture.drain()
        g = beartype(conf=conf)(ns['f']); caps = capture.drain(); cap = caps[-1]
        tree = ast.parse(cap.code); fn = tree.body[0]
        A = z3.Const('args', M.Obj); K = z3.Const('kwargs', M.Obj)
        def m_func(ex_, s, f, args, kw, where):
            return [(s.ev('call_func'), VObj(x))]            # the identity function returns its argument
        def m_getv2(ex_, s, f, args, kw, where):
            kw = dict(kw); return [(s.ev('get_violation', kw.get('pith_name').o if 'pith_name' in kw else None), VObj(M.fresh('viol')))]
        cm = {cap.scope['__beartype_func']: m_func, cap.scope['__beartype_get_violation']: m_getv2, str: m_str}
        if '__beartype_getrandbits' in cap.scope: cm[cap.scope['__beartype_getrandbits']] = gencheck.GetRandBits(r)
        if '__beartype_warn' in cap.scope: cm[cap.scope['__beartype_warn']] = m_warn
        cm.update({k_: v_ for k_, v_ in gencheck.qualname_models(cap.scope, r).items() if k_ not in cm})
        exw = Exec(uni, cap.scope, call_model=cm, name='wrapper')
        pre = (M.inst(A, uni.const(tuple)), M.inst(K, uni.const(dict)), z3.And(0 <= r, r < 2 ** 32), M.len_(A) == 1, M.item(A, 0) == x)
        outs = exw.exec_block(fn.body, St((('args', VObj(A)), ('kwargs', VObj(K))), pre))
        accp = []; accr = []
        pwarn = issubclass(conf.violation_param_type, Warning); rwarn = issubclass(conf.violation_return_type, Warning)
        for k, st, v in outs:
            called = any(e[0] == 'call_func' for e in st.events)
            pviol = any(e[0] == 'get_violation' and e[1] == 'p0' for e in st.events); rviol = any(e[0] == 'get_violation' and e[1] == 'return' for e in st.events)
            accp.append((st.pc, z3.BoolVal(not pviol)))
            if not pviol: accr.append((st.pc, z3.BoolVal(not rviol)))
            # frame: a configured Warning class is warned and the call proceeds; anything else is raised
            warned = any(e[0] == 'warn' for e in st.events)
            if pviol and not rviol:
                okf = (k == 'raise' and not warned and not called) if not pwarn else (warned and called)
                rec['obligations'].append(dict(name=f'frame.param_signal.{len(rec["obligations"])}', status='proved' if okf else 'refuted', backend='structural', time=0,
                                               where=f'parameter violation under violation_param_type={"Warning" if pwarn else "exception"}: completion {k}, warned={warned}, original called={called}'))
            if rviol:
                nw = sum(1 for e in st.events if e[0] == 'warn')
                okf = (k == 'raise' and called) if not rwarn else (k == 'return' and nw >= 1 and called)
                rec['obligations'].append(dict(name=f'frame.return_signal.{len(rec["obligations"])}', status='proved' if okf else 'refuted', backend='structural', time=0,
                                               where=f'return violation under violation_return_type={"Warning" if rwarn else "exception"}: completion {k}, warnings={nw}'))
        progs['param'] = (exw, accp, []); progs['return'] = (exw, accr, [])
        axioms = uni.axioms(); prover = discharge.Prover(axioms)
        for nm in ('tester', 'raiser', 'param'):
            for ob in progs[nm][0].obls:
                rr = prover.prove(list(ob.pc), ob.goal)
                rec['obligations'].append(dict(name=f'{nm}.{ob.kind}#{ob.name.rsplit(".", 1)[-1]}', status=rr.status, time=rr.time, backend=rr.backend, where=ob.where))
        rng = z3.And(0 <= r, r < 2 ** 32)
        def accf(P): return z3.Or(*[z3.And(*pc, t) for pc, t in P]) if P else z3.BoolVal(False)
        def cov(P): return z3.Or(*[z3.And(*pc) for pc, t in P]) if P else z3.BoolVal(False)
        T = progs['tester'][1]
        for nm in ('raiser', 'param', 'return'):
            P = progs[nm][1]
            hy = [rng, cov(T), cov(P)]
            if nm in ('param', 'return'): hy += list(pre)
            rr = prover.prove(hy, accf(T) == accf(P))
            o = dict(name=f'agree.tester_vs_{nm}', status=rr.status, time=rr.time, backend=rr.backend, solver_output=f'{rr.backend}: {rr.status}', where='same accept/reject verdict for every object and draw')
            if rr.status == 'refuted': o['replay'] = replay_agree(rr, uni, x, r, shape, conf_src)
            rec['obligations'].append(o)
    except Exception:
        rec['error'] = 'crash: ' + traceback.format_exc()[-1500:]
    return rec

def replay_agree(res, uni, x, r, shape, conf_src):
    from pyvc import concretise
    out = dict(kind='C03', reproduced=False, tried=[])
    try:
        for b, m in concretise.resolve_small(res, bounds=(1, 2, 3, None)):
            obj_src = concretise.Concretiser(m, uni).build(x); rv = concretise._int(m, r)
            ok, detail = entrypoints_agree(shape, conf_src, obj_src, rv)
            out['tried'].append(dict(obj=obj_src, r=rv, reproduced=ok, detail=detail[:300]))
            if ok: out.update(reproduced=True, obj=obj_src, r=rv, detail=detail[:300]); break
    except Exception as e: out['error'] = str(e)[:200]
    return out

def entrypoints_agree(shape, conf_src, obj_src, r):
    """run the four real entry points on one (hint, object, draw); -> (disagree?, detail)"""
    from pyvc import shapes, replaylib
    import warnings
    from beartype.door import is_bearable, die_if_unbearable, TypeHint
    from beartype import beartype
    from beartype.roar import BeartypeCallHintViolation, BeartypeDoorHintViolation
    class MyW(UserWarning): pass
    shapes.NS.setdefault('MyW', MyW)
    hint = shapes.ev(shape); conf = shapes.ev(conf_src)
    from beartype._util.cache.utilcacheclear import clear_caches
    verdicts = {}
    def run(label, thunk):
        obj = eval(obj_src, shapes.NS)
        replaylib.force_draw(r); clear_caches()
        with warnings.catch_warnings(record=True) as w:
            warnings.simplefilter('always')
            try: res = thunk(obj); verdicts[label] = ('reject' if (res is False or any(issubclass(x.category, UserWarning) for x in w)) else 'accept')
            except (BeartypeCallHintViolation, BeartypeDoorHintViolation) as e: verdicts[label] = 'reject'
            except Exception as e: verdicts[label] = f'EXC {type(e).__name__}: {e}'[:150]
    run('is_bearable', lambda o: is_bearable(o, hint, conf=conf))
    run('die_if_unbearable', lambda o: die_if_unbearable(o, hint, conf=conf))
    run('TypeHint.is_bearable', lambda o: TypeHint(hint).is_bearable(o, conf=conf))
    run('TypeHint.die_if_unbearable', lambda o: TypeHint(hint).die_if_unbearable(o, conf=conf))
    ns = dict(shapes.NS); ns['H'] = hint
    exec('def fp(p0: H, /):\n    return None\ndef fr(p0, /) -> H:\n    return p0\n', ns)
    gp = beartype(conf=conf)(ns['fp']); gr = beartype(conf=conf)(ns['fr'])
    run('parameter', lambda o: gp(o, __beartype_getrandbits=lambda n: r) if False else gp(o))
    run('return', lambda o: gr(o))
    vs = set(verdicts.values())
    if len(vs) > 1: return True, f'obj={obj_src} draw={r}: ' + ', '.join(f'{k}={v}' for k, v in verdicts.items())
    return False, f'all {vs}'

# ------------------------------------------------------------------ (3) bounded run-time contract on the explanation path
def _explain_worker(task):
    shape, conf_name = task
    out = dict(shape=shape, conf=conf_name, cases=0, fails=[])
    try:
        from pyvc import shapes, replaylib
        import warnings
        from beartype import BeartypeConf, beartype
        from beartype.door import is_bearable, die_if_unbearable
        from beartype.roar import BeartypeDoorHintViolation, BeartypeCallHintParamViolation, BeartypeCallHintReturnViolation, BeartypeException
        class VDoor(Exception): pass
        class VParam(Exception): pass
        class VRet(Exception): pass
        class WDoor(UserWarning): pass
        class CulpritWarning(UserWarning):
            # a Warning class whose constructor follows beartype's own violation signature (message, culprits)
            def __init__(self, message, culprits=None):
                super().__init__(message); self.culprits = culprits
        class CulpritWarning2(UserWarning):
            def __init__(self, message, culprits):
                super().__init__(message); self.culprits = culprits
        from beartype import FrozenDict as _FD
        shapes.NS.setdefault('FrozenDict', _FD)
        CONFS = {'default': (BeartypeConf(), BeartypeDoorHintViolation, BeartypeCallHintParamViolation, BeartypeCallHintReturnViolation, False),
                 'custom': (BeartypeConf(violation_door_type=VDoor, violation_param_type=VParam, violation_return_type=VRet), VDoor, VParam, VRet, False),
                 'mixed': (BeartypeConf(violation_param_type=VParam, violation_return_type=WDoor, violation_door_type=WDoor), WDoor, VParam, WDoor, True),
                 'culpritwarn': (BeartypeConf(violation_type=CulpritWarning2), CulpritWarning2, CulpritWarning2, CulpritWarning2, True),
                 'ovorigin': (BeartypeConf(hint_overrides=shapes.NS['FrozenDict']({list: tuple, dict: shapes.NS['Mapping']})), BeartypeDoorHintViolation, BeartypeCallHintParamViolation, BeartypeCallHintReturnViolation, False),
                 'nonrandom': (BeartypeConf(is_random=False), BeartypeDoorHintViolation, BeartypeCallHintParamViolation, BeartypeCallHintReturnViolation, False),
                 'On': (BeartypeConf(strategy=shapes.NS['BeartypeStrategy'].On), BeartypeDoorHintViolation, BeartypeCallHintParamViolation, BeartypeCallHintReturnViolation, False)}
        conf, Vd, Vp, Vr, _ = CONFS[conf_name]
        replaylib.force_draw(0)      # before anything is generated: wrappers capture the sampler at decoration time
        hint = shapes.ev(shape)
        ns = dict(shapes.NS); ns['H'] = hint
        exec('def fp(p0: H, /):\n    return None\ndef fr(p0, /) -> H:\n    return p0\n', ns)
        with warnings.catch_warnings():
            warnings.simplefilter('ignore')
            gp = beartype(conf=conf)(ns['fp']); gr = beartype(conf=conf)(ns['fr'])
        from beartype._util.cache.utilcacheclear import clear_caches
        objs = object_palette()
        hrepr = repr(hint)
        for osrc in objs:
            for r in (0, 1, 2, 7):
                try: o = eval(osrc, shapes.NS)
                except Exception: continue
                replaylib.force_draw(r)
                out['cases'] += 1
                try: ok = is_bearable(o, hint, conf=conf)
                except Exception as e:
                    out['fails'].append((osrc, r, f'is_bearable raised {type(e).__name__}: {e}'[:200])); continue
                def expect(label, thunk, V):
                    with warnings.catch_warnings(record=True) as w:
                        warnings.simplefilter('always')
                        try: got = thunk(); raised = None
                        except BaseException as e: raised = e
                    warned = [x for x in w if issubclass(x.category, V)] if issubclass(V, Warning) else []
                    if ok:
                        if raised is not None or warned: return f'{label}: accepted by is_bearable but {type(raised).__name__ if raised else "warned"}'
                        return None
                    if issubclass(V, Warning):
                        if raised is not None: return f'{label}: configured Warning class but raised {type(raised).__name__}: {raised}'[:200]
                        if not warned: return f'{label}: rejected by is_bearable but no {V.__name__} warning and no exception'
                        if label == 'return' and got is not o: return f'return: the violation was only warned about, yet the wrapper returned {type(got).__name__} instead of the callable\'s own return value'
                        msg = str(warned[0].message)
                    else:
                        if raised is None: return f'{label}: rejected by is_bearable but returned silently'
                        if type(raised) is not V: return f'{label}: raised {type(raised).__name__} instead of the configured {V.__name__}: {raised}'[:250]
                        msg = str(raised)
                        cul = getattr(raised, 'culprits', None)
                        # "culprits begin with the rejected object": the object itself whenever it can be weakly referenced (it is alive here);
                        # its repr only for objects CPython cannot weakly reference (documented limitation: builtin scalars / containers)
                        import weakref
                        try: weakref.ref(o); can_ref = True
                        except TypeError: can_ref = False
                        if cul is not None and not (len(cul) >= 1 and (cul[0] is o or (not can_ref and isinstance(cul[0], str)))):
                            return f'{label}: culprits do not begin with the rejected object (weakly referenceable: {can_ref}): {cul!r}'[:200]
                    return None
                for label, thunk, V in (('die_if_unbearable', lambda: die_if_unbearable(o, hint, conf=conf), Vd), ('parameter', lambda: gp(o), Vp), ('return', lambda: gr(o), Vr)):
                    o = eval(osrc, shapes.NS); replaylib.force_draw(r)
                    d = expect(label, thunk, V)
                    if d: out['fails'].append((osrc, r, d))
    except Exception:
        out['error'] = traceback.format_exc()[-1200:]
    return out

def object_palette():
    base = ['1', '5', "'a'", 'L0()', 'L1()', 'L2()', 'None', 'True', '2.5', 'L0', 'int', "b'x'", 'LA(x=1)', 'LA(x=2)']
    out = list(base)
    for a in ('1', "'a'", 'L0()', 'L1()', '2.5', 'None', '[1]', "['a']", '(1,)', "{'a': 1}"):
        out += [f'[{a}]', f'[1, {a}]', f'[{a}, L0()]', f'({a},)', f'(1, {a})', f'({a}, {a})', f'deque([{a}])', f'OneShot([{a}])']
        if '[' not in a and '{' not in a:
            out += [f'{{{a}}}', f'frozenset([{a}])', f'{{{a}: {a}}}', f'{{1: {a}}}', f'{{{a}: 1}}', f'Counter([{a}])', f'defaultdict(list, {{{a}: {a}}})', f'{{{a}: 1}}.keys()', f'{{1: {a}}}.values()', f'{{{a}: 1}}.items()']
        else:
            out += [f'{{1: {a}}}', f"{{'a': {a}}}", f'{{1: {a}}}.values()']
    out += ['[]', '()', '{}', 'set()', 'deque()', 'frozenset()', 'OrderedDict()', 'EmptySized()', 'Counter()', '(x for x in [1])', "((x for x in [1]), 'bad')", "(OneShot([1]), 'bad')", "[OneShot(['bad']), 5]", "(1, OneShot([1]))"]
    return out

def explain(rep, tier, seed):
    from pyvc import shapes
    rnd = random.Random(seed)
    hints = [s for s in shapes.node_shapes() if 'GD[' not in s and 'GL[GL' not in s]
    hints += shapes.sample_shapes(2, 60 if tier == 'quick' else 500, seed + 7)
    hints += ['tuple[Iterable[int], int]', 'tuple[Iterator[int], str]', 'list[Iterable[int]]', 'tuple[Collection[int], int]', 'dict[str, Iterable[int]]', 'Union[Iterable[int], str]']
    confs = ['default', 'custom'] if tier == 'quick' else ['default', 'custom', 'mixed', 'nonrandom', 'On']
    # a validator that is only evaluated because an earlier operand short-circuits on the fast path
    hints += ['Annotated[list, AND(IS(nonempty), IS(firstpos))]', 'Annotated[list, AND(IS(nonempty), OR(IS(firstpos), ISEQ(5)))]', 'Annotated[list, AND(IS(nonempty), NOT(IS(firstpos)))]']
    hints += ['(int, list[int])', '(L0, str)', 'NoReturn' if False else 'tuple[()]']      # old-style tuple unions as root hints
    T = [(h, c) for h in hints for c in confs] + [(h, 'mixed') for h in hints[:40]] + [(h, 'culpritwarn') for h in hints[:12] + ['(int, list[int])']] + [(h, 'ovorigin') for h in ('list[int]', 'list[L0]', 'dict[str, int]', 'tuple[list[int], int]', 'Optional[list[str]]')] + [(h, 'On') for h in hints[::3]] + [(h, 'nonrandom') for h in hints[::5]]
    T = list(dict.fromkeys(T))
    with mp.get_context('fork').Pool(int(os.environ.get('VERIF_PROCS', '16')), maxtasksperchild=10) as pool:
        res = pool.map(_explain_worker, T, chunksize=2)
    cases = sum(r['cases'] for r in res); groups = {}
    for r in res:
        if r.get('error'): rep.error(f'C03.explain[{r["shape"]}|{r["conf"]}]: {r["error"]}'); continue
        for osrc, d, msg in r['fails']:
            sig = classify_explain(msg) + ('.under_origin_override' if r['conf'] == 'ovorigin' else ''); groups.setdefault(sig, []).append((r['shape'], r['conf'], osrc, d, msg))
    for sig, items in sorted(groups.items()):
        items.sort(key=lambda t: (len(t[0]), len(t[2]))); sh, cf, osrc, d, msg = items[0]
        script = (f'from props.c03 import _explain_worker\nr = _explain_worker(({sh!r}, {cf!r}))\nbad = [f for f in r["fails"] if f[0] == {osrc!r}]\nprint("REPRODUCED" if bad else "not reproduced", bad[:2])\nsys.exit(1 if bad else 0)\n')
        rep.add(f'C03.explain.{sig}', 'refuted', backend='runtime-contract', where=f'{len(items)} cases; smallest: hint {sh} conf {cf} object {osrc} draw {d}: {msg}'[:500],
                solver_output='bounded run-time contract on the real API (not a proof)', replay=dict(reproduced=True, detail=f'hint {sh}, object {osrc}, draw {d}: {msg}'[:300]), replay_script=script)
    rep.bounded.append(dict(kind='explanation path vs fast path: run-time contract on the real API over hints x objects x forced draws x configurations (bounded stand-in, NOT counted as proved)',
                            hint_conf_pairs=len(T), cases=cases, failing_groups=len(groups), objects=len(object_palette()), draws=[0, 1, 2, 7]))

TH_SRC = """
import sys
from typing import Annotated, TypeVar
from beartype.vale import Is
from beartype.door import TypeHint, is_bearable, die_if_unbearable
from beartype.roar import BeartypeDoorHintViolation
def below(limit): return Annotated[int, Is[lambda n: n < limit]]           # distinct hints, identical repr()
def cls_named(base):
    class Same(base): pass
    return Same
PAIRS = [(below(5), below(10), 7), (TypeVar('TX', bound=int), TypeVar('TX', bound=str), 'a'), (cls_named(int), cls_named(str), cls_named(str)('x')), (list[below(5)], list[below(10)], [7])]
bad = []
for first, second, obj in PAIRS:
    TypeHint(first)                                       # an earlier wrapper of a look-alike hint
    for h in (first, second):
        th = TypeHint(h)
        if th.hint is not h and th.hint != h: bad.append((repr(h)[:50], 'TypeHint(h).hint is another hint'))
        a, b = is_bearable(obj, h), th.is_bearable(obj)
        if a != b: bad.append((repr(h)[:50], f'is_bearable -> {a} but TypeHint.is_bearable -> {b}'))
        def raised(f):
            try: f(); return False
            except BeartypeDoorHintViolation: return True
        c, d = raised(lambda: die_if_unbearable(obj, h)), raised(lambda: th.die_if_unbearable(obj))
        if c != d or c == a: bad.append((repr(h)[:50], f'die_if_unbearable raised={c}, TypeHint.die_if_unbearable raised={d}, is_bearable={a}'))
print(bad); sys.exit(1 if bad else 0)
"""
def typehint_entrypoints(rep):
    """the remaining two entry points of the property: TypeHint(h).is_bearable / die_if_unbearable.  (F, structural on the real ASTs) both
    delegate to the module-level functions with hint=self._hint and the caller's obj / conf, and the metaclass memoises TypeHint(h) under the
    hint itself; (b) look-alike hints (same repr, same name) wrapped one after the other reach the verdict of the plain functions."""
    from pyvc import funcmode
    for meth, callee in (('is_bearable', 'is_bearable'), ('die_if_unbearable', 'die_if_unbearable')):
        fobj, node, _ = funcmode.load('beartype/door/_cls/doorsuper.py', f'TypeHint.{meth}')
        calls = [c for c in ast.walk(node) if isinstance(c, ast.Call) and isinstance(c.func, ast.Name) and c.func.id == callee]
        ok = len(calls) == 1
        if ok:
            kw = {k.arg: k.value for k in calls[0].keywords}
            ok = (isinstance(kw.get('hint'), ast.Attribute) and kw['hint'].attr == '_hint' and isinstance(kw['hint'].value, ast.Name) and kw['hint'].value.id == 'self'
                  and isinstance(kw.get('obj'), ast.Name) and kw['obj'].id == 'obj' and isinstance(kw.get('conf'), ast.Name) and kw['conf'].id == 'conf')
            rets = [r for r in ast.walk(node) if isinstance(r, ast.Return)]
            if meth == 'is_bearable': ok = ok and len(rets) == 1 and rets[0].value is calls[0]
        rep.add(f'C03.TypeHint.{meth}.delegates_with_own_hint', 'proved' if ok else 'refuted', backend='structural', where=f'TypeHint.{meth}(obj, conf) is {callee}(obj=obj, hint=self._hint, conf=conf) and nothing else')
    fobj, node, _ = funcmode.load('beartype/door/_cls/doormeta.py', '_TypeHintMetaclass.__call__')
    calls = [c for c in ast.walk(node) if isinstance(c, ast.Call) and isinstance(c.func, ast.Attribute) and c.func.attr == 'cache_or_get_cached_func_return_passed_arg']
    ok = len(calls) == 1 and any(k.arg == 'key' and isinstance(k.value, ast.Name) and k.value.id == 'hint' for k in calls[0].keywords) and any(k.arg == 'arg' and isinstance(k.value, ast.Name) and k.value.id == 'hint' for k in calls[0].keywords)
    rep.add('C03.TypeHint.wrapper_memoised_under_the_hint_itself', 'proved' if ok else 'refuted', backend='structural', where='TypeHint(h) is memoised under key=h and built from h (with the table contract of C14: the wrapper of h wraps a hint equal to h)')
    import subprocess, sys
    from pyvc import REPO
    env = dict(os.environ); env['PYTHONPATH'] = REPO
    p = subprocess.run([sys.executable, '-c', TH_SRC], capture_output=True, text=True, timeout=120, env=env, cwd='/')
    if p.returncode not in (0, 1) or (p.returncode == 1 and not p.stdout.strip().startswith('[')): rep.error('C03 typehint_entrypoints harness: ' + (p.stdout + p.stderr)[-600:]); return
    if p.returncode == 1:
        rep.add('C03.TypeHint.bounded.same_verdict_as_functions', 'refuted', backend='runtime-contract', where=p.stdout.strip()[-400:], solver_output='bounded run-time contract in a fresh interpreter (not a proof)',
                replay=dict(reproduced=True, detail=p.stdout.strip()[-400:]), replay_script=f"import subprocess\nenv = dict(os.environ); env['PYTHONPATH'] = {REPO!r}\np = subprocess.run([sys.executable, '-c', {TH_SRC!r}], env=env, cwd='/')\nsys.exit(p.returncode)\n")
    rep.bounded.append(dict(kind='TypeHint.is_bearable / die_if_unbearable vs the plain functions on look-alike hints (bounded stand-in, NOT counted as proved)', pairs=4, failing=int(p.returncode == 1)))

def classify_explain(msg):
    import re
    if 'has no len()' in msg: return 'finder_len_before_collection_test'
    if 'Desynchronization' in msg: return 'desynchronisation'
    m = re.search(r'raised (\w+)', msg)
    if m: return 'wrong_signal.' + m.group(1)
    if 'culprits' in msg: return 'culprits'
    if 'silently' in msg or 'no ' in msg: return 'rejection_without_signal'
    return 'other'

def _wrap_worker(sig):
    from pyvc import wrapcheck
    return wrapcheck.wrapper_obligations(sig, True)

def wrapper_agrees(rep):
    """the wrapper as an entry point: for signatures mixing annotated, unannotated and variadic parameters (captured wrapper text, arbitrary
    args / kwargs) a parameter violation is raised exactly about a value Python binds to the parameter carrying the hint and that the hint's
    own check rejects (the verdict is_bearable gives for that value), and the original is called only after every passed annotated value was
    accepted by that same check: the verdict of the decorator for `param: H` is the verdict for (value bound to param, H), never for a value
    bound to another parameter."""
    from props import gensweep
    with mp.get_context('fork').Pool(min(10, int(os.environ.get('VERIF_PROCS', '16')))) as pool:
        recs = pool.map(_wrap_worker, gensweep.C01_SIGS)
    n = 0
    for rec in recs:
        tag = f'C03.wrap[{rec.get("src", str(rec["sig"])).splitlines()[0][4:-1] if rec.get("src") else rec["sig"]}]'
        if rec['error']: rep.error(f'{tag}: {rec["error"]}'); continue
        for o in rec['obligations']:
            if not o['name'].startswith(('post.a.', 'post.b.', 'post.return_violation', 'post.return_checked')): continue
            n += 1; rp = o.get('replay'); script = None
            if rp and rp.get('reproduced'):
                script = (f'from pyvc import wrapcheck\nok, d = wrapcheck.replay_c04({rec["sig"]!r}, True, "BeartypeConf()", {rp.get("args")!r}, {rp.get("kwargs")!r})\n'
                          'print("REPRODUCED" if ok else "not reproduced", d)\nsys.exit(1 if ok else 0)\n')
            rep.add(f'{tag}.{o["name"]}', o['status'], time=o.get('time'), backend=o.get('backend'), where=o.get('where'), replay=rp, solver_output=o.get('solver_output'), replay_script=script, bounded=True)
    if not n: rep.error('C03 wrapper_agrees: no obligation')
    rep.functions.append('wrapper text generated for 10 signatures with annotated variadics next to unannotated parameters (mode G; shared with C01 / C04): the parameter check is about the value bound to that parameter')

def main(tier, seed):
    rep = report.Report('C03', tier, seed, 'proof', f'./check C03 --tier {tier}')
    from pyvc import shapes
    try:
        hints = [s for s in shapes.node_shapes()]
        hints += shapes.sample_shapes(2, 80 if tier == 'quick' else 800, seed + 3) + shapes.sample_shapes(3, 20 if tier == 'quick' else 300, seed + 4)
        confs = ['BeartypeConf()', 'BeartypeConf(is_random=False)', 'BeartypeConf(violation_door_type=MyW, violation_param_type=MyW, violation_return_type=MyW)']
        class MyW(UserWarning): pass
        shapes.NS['MyW'] = MyW
        confs += ['BeartypeConf(violation_param_type=MyW)', 'BeartypeConf(violation_return_type=MyW)', 'BeartypeConf(violation_door_type=MyW)']
        T = [(h, confs[0]) for h in hints] + [(h, confs[1]) for h in hints[::4]] + [(h, confs[2]) for h in hints[::3]] + [(h, c) for h in hints[::6] for c in confs[3:]]
        with mp.get_context('fork').Pool(int(os.environ.get('VERIF_PROCS', '16')), maxtasksperchild=20) as pool:
            recs = pool.map(_agree_worker, T, chunksize=2)
        n = 0
        for rec in recs:
            tag = f'C03.agree[{rec["shape"]}|{rec["conf"]}]'
            if rec['error']: rep.error(f'{tag}: {rec["error"]}'); continue
            if rec.get('ignorable'): continue
            n += 1
            for o in rec['obligations']:
                rp = o.get('replay'); script = None
                if rp and rp.get('reproduced'):
                    script = f'from props.c03 import entrypoints_agree\nok, d = entrypoints_agree({rec["shape"]!r}, {rec["conf"]!r}, {rp["obj"]!r}, {rp["r"]!r})\nprint("REPRODUCED" if ok else "not reproduced", d)\nsys.exit(1 if ok else 0)\n'
                rep.add(f'{tag}.{o["name"]}', o['status'], time=o.get('time'), backend=o.get('backend'), where=o.get('where'), replay=rp, solver_output=o.get('solver_output'), replay_script=script, bounded=True)
            if len(rep.samples) < 4: rep.samples.append(dict(shape=rec['shape'], conf=rec['conf'], obligations=[f"{o['name']}:{o['status']}" for o in rec['obligations'][-6:]]))
        rep.bounded.append(dict(kind='per-shape entry-point agreement proofs (each for all objects and draws)', shapes=n))
    except Exception: rep.error('C03 agree: ' + traceback.format_exc()[-2000:])
    try: typehint_entrypoints(rep)
    except Exception: rep.error('C03 typehint_entrypoints: ' + traceback.format_exc()[-1500:])
    try: wrapper_agrees(rep)
    except Exception: rep.error('C03 wrapper_agrees: ' + traceback.format_exc()[-1500:])
    try: explain(rep, tier, seed)
    except Exception: rep.error('C03 explain: ' + traceback.format_exc()[-2000:])
    extra_functions = []
    from props import errpath
    files = ['beartype/_check/checkmake.py', 'beartype/_data/check/code/func/datacodefunccheck.py', 'beartype/_check/error/errmain.py', 'beartype/_check/cls/hint/tree/hinttreeerror.py',
             'beartype/_check/error/_errmap.py', 'beartype/door/_func/doorfunc.py']
    rep.functions = [f'{p}@{report.src_hash(p)}' for p in files]
    errpath.safe(errpath.add_enumerators, rep, 'C03.errpath')
    from pyvc import model as M
    rep.trusted = ['pyvc', 'z3 5.1 / cvc5'] + M.ASSUMED_SEMANTICS
    rep.assumptions = ['TypeHint.is_bearable / die_if_unbearable delegate to the door functions (exercised in the replay and in the bounded part)',
                       'the agreement of the EXPLANATION path (cause finders) with the fast path, the configured class, culprits and message are covered by a bounded run-time contract only',
                       'culprits[0] is the rejected object or its repr (documented weakref limitation for builtin scalars/containers)']
    rep.extra['explanation'] = 'program equivalence of the captured real tester / raiser / wrapper texts per shape; raiser frame obligations; bounded run-time contract for the explanation path'
    return rep.finish()
