"""Symbolic object model (DESIGN.md section 2.2): one uninterpreted sort Obj for Python object identities, Python ints
are SMT Int (unbounded - no machine arithmetic assumption), and an uninterpreted vocabulary for the operations the
verified text performs.  Everything here is *semantics of Python assumed by the encoding* and is listed in the
evidence under trusted_base."""
import z3, itertools, collections.abc as cabc

Obj = z3.DeclareSort('Obj')
B, I = z3.BoolSort(), z3.IntSort()
inst = z3.Function('inst', Obj, Obj, B)          # isinstance(x, C)
subc = z3.Function('subc', Obj, Obj, B)          # issubclass(x, C)   (x a class)
len_ = z3.Function('len', Obj, I)                # len(x)
item = z3.Function('item', Obj, I, Obj)          # x[i], int i
first = z3.Function('first', Obj, Obj)           # next(iter(x))
mget = z3.Function('mget', Obj, Obj, Obj)        # x[k], object key
mem = z3.Function('mem', Obj, Obj, B)            # y is yielded by iterating x (for mappings: y is a key)
vmem = z3.Function('vmem', Obj, Obj, B)          # v is a value of mapping x
firstval = z3.Function('firstval', Obj, Obj)     # next(iter(x.values()))
firstitem = z3.Function('firstitem', Obj, Obj)   # next(iter(x.items()))
eq = z3.Function('eq', Obj, Obj, B)              # truth of x == y  (not assumed reflexive: NaN)
truthy = z3.Function('truthy', Obj, B)           # bool(x)
typeof = z3.Function('typeof', Obj, Obj)         # type(x)
exacttype = z3.Function('exacttype', Obj, Obj, B) # type(x) is C   (only ever used as an extra premise next to inst(x, C))
attr = z3.Function('attr', Obj, Obj, Obj)        # getattr(x, name)   name = constant of the str
hasattr_ = z3.Function('hasattr', Obj, Obj, B)
callres = z3.Function('callres', Obj, Obj, Obj)  # result of calling user callable f on one argument (deterministic: assumption)
box_int = z3.Function('box_int', I, Obj)
box_bool = z3.Function('box_bool', B, Obj)
unbox_int = z3.Function('unbox_int', Obj, I)
hashable = z3.Function('hashable', Obj, B)
id_ = z3.Function('id', Obj, I)                  # id(x): injective only among objects alive at the same time (no axiom relates ids of different objects)
eqc = z3.Function('eqc', Obj, Obj)              # class of x under ==/hash (dict and set lookups identify equal keys); x is y => same class
VOCAB = dict(inst=inst, subc=subc, len_=len_, item=item, first=first, mget=mget, mem=mem, vmem=vmem, firstval=firstval,
             firstitem=firstitem, eq=eq, truthy=truthy, typeof=typeof, attr=attr, hasattr_=hasattr_, callres=callres)

_fresh = itertools.count()
def fresh(prefix, sort=None):
    return z3.Const(f'{prefix}!{next(_fresh)}', sort if sort is not None else Obj)

def _issub(a, b):
    try: return issubclass(a, b)
    except Exception: return False

def _isinst(v, b):
    try: return isinstance(v, b)
    except Exception: return False

class Universe:
    """Registry of z3 constants standing for concrete Python objects found in real scopes (classes, literal values,
    sentinels, user callables), plus the axioms that follow from the REAL objects (class graph via issubclass,
    isinstance of literal values, == between literals)."""
    def __init__(self):
        self.consts = {}      # id(pyobj) -> (z3const, pyobj)
        self.order = []
        for c in (object, type):
            self.const(c)
    def const(self, o):
        # immutable scalars are keyed by (type, value) - two equal str/int literals are the same constant; others by identity
        k = ('v', type(o), o) if type(o) in (str, int, bool, float, bytes, type(None)) and o == o else id(o)
        if k not in self.consts:
            nm = getattr(o, '__qualname__', None) or type(o).__name__
            nm = ''.join(ch if ch.isalnum() else '_' for ch in str(nm))[:30]
            self.consts[k] = (z3.Const(f'py_{nm}_{len(self.consts)}', Obj), o)
            self.order.append(k)
            if not isinstance(o, type):
                try: self.const(type(o))
                except Exception: pass
        return self.consts[k][0]
    def pyobj_of(self, term):
        for zc, o in self.consts.values():
            if zc.eq(term): return o
        raise KeyError(term)
    def classes(self):
        return [(zc, o) for zc, o in (self.consts[k] for k in self.order) if isinstance(o, type)]
    def values(self):
        return [(zc, o) for zc, o in (self.consts[k] for k in self.order) if not isinstance(o, type)]

    def axioms(self):
        y, z, c = z3.Consts('y_ z_ c_', Obj); i = z3.Int('i_'); ax = []
        cs = self.classes(); vs = self.values()
        allc = [zc for zc, _ in cs] + [zc for zc, _ in vs]
        if len(allc) > 1: ax.append(z3.Distinct(*allc))
        # --- class graph from the real classes
        for za, a in cs:
            for zb, b in cs:
                if a is b: continue
                try: sub = issubclass(a, b)
                except Exception: continue
                if sub:
                    # issubclass() is not transitive for structural ABCs (issubclass(object, Hashable), issubclass(Mapping, object), but not
                    # issubclass(Mapping, Hashable): Mapping sets __hash__ = None).  The closure law for (a, b) is only stated when no
                    # registered class or value contradicts it in CPython; the ground facts below are stated either way.
                    if any(_issub(k, a) and not _issub(k, b) for _, k in cs) or any(_isinst(v, a) and not _isinst(v, b) for _, v in vs): pass
                    else:
                        ax.append(z3.ForAll([y], z3.Implies(inst(y, za), inst(y, zb))))
                        ax.append(z3.ForAll([c], z3.Implies(subc(c, za), subc(c, zb))))
                ax.append(subc(za, zb) == z3.BoolVal(bool(sub)))
            ax.append(subc(za, za))
            # a class object is an instance of its metaclass / of `type`
            facts = {}
            for zb, b in cs:
                try: facts[b] = (zb, isinstance(a, b))
                except Exception: pass
            for b, (zb, val) in facts.items():
                # structural classes (Protocols, ABCs with __subclasshook__) answer isinstance(<class object>, P) from the class's own attributes
                # and issubclass(P, Q) from P's: the two need not compose (isinstance(Sized, SupportsLen), issubclass(SupportsLen, Sized), not
                # isinstance(Sized, Sized)).  A positive fact that the real class graph contradicts is left unconstrained rather than asserted.
                if val and any(_issub(b, b2) and not v2 for b2, (_, v2) in facts.items()): continue
                ax.append(inst(za, zb) == z3.BoolVal(val))
        ax.append(z3.ForAll([y], inst(y, self.const(object))))
        # --- literal / sentinel values: real isinstance, real ==, real truthiness
        for zv, v in vs:
            for zb, b in cs:
                try: ax.append(inst(zv, zb) == z3.BoolVal(isinstance(v, b)))
                except Exception: pass
            ax.append(typeof(zv) == self.const(type(v)))
            try: ax.append(truthy(zv) == z3.BoolVal(bool(v)))
            except Exception: pass
            for zw, w in vs:
                try: r = bool(v == w)
                except Exception: continue
                ax.append(eq(zv, zw) == z3.BoolVal(r))
                if v is w: continue      # eqc(c) == eqc(c) holds by logic even for objects that are not equal to themselves
                try: ax.append((eqc(zv) == eqc(zw)) == z3.BoolVal(bool(r and hash(v) == hash(w))))
                except Exception: pass
            if isinstance(v, (tuple, list, str, bytes, frozenset, set, dict)):
                ax.append(len_(zv) == len(v))
        # boxing: the object a boolean expression evaluates to is as truthy as the boolean (a stored flag reads back as what was stored)
        ax += [truthy(box_bool(z3.BoolVal(True))), z3.Not(truthy(box_bool(z3.BoolVal(False))))]
        ax += self.protocol_axioms()
        return ax

    def protocol_axioms(self):
        """Input validity (DESIGN 2.2): an instance of a collections.abc class obeys that ABC's laws."""
        y, k = z3.Consts('y_ k_', Obj); i = z3.Int('i_'); ax = []
        C = self.const
        Sized, Coll, Seq, Map = C(cabc.Sized), C(cabc.Collection), C(cabc.Sequence), C(cabc.Mapping)
        ax.append(z3.ForAll([y], len_(y) >= 0))
        # truthiness of builtin containers is non-emptiness
        ax.append(z3.ForAll([y], z3.Implies(inst(y, Coll), truthy(y) == (len_(y) != 0))))
        # a Sequence iterates its items by index; its first yielded item is item 0
        ax.append(z3.ForAll([y, i], z3.Implies(z3.And(inst(y, Seq), 0 <= i, i < len_(y)), mem(y, item(y, i)))))
        ax.append(z3.ForAll([y], z3.Implies(z3.And(inst(y, Seq), len_(y) > 0), first(y) == item(y, 0))))
        # a non-empty Collection yields a member first; an empty one has no member
        ax.append(z3.ForAll([y], z3.Implies(z3.And(inst(y, Coll), len_(y) > 0), mem(y, first(y)))))
        ax.append(z3.ForAll([y, k], z3.Implies(z3.And(inst(y, Coll), len_(y) == 0), z3.Not(mem(y, k)))))
        # Mapping laws: iteration yields keys; values()/items()/__getitem__ agree with iteration
        ax.append(z3.ForAll([y, k], z3.Implies(z3.And(inst(y, Map), mem(y, k)), vmem(y, mget(y, k)))))
        ax.append(z3.ForAll([y], z3.Implies(z3.And(inst(y, Map), len_(y) > 0), firstval(y) == mget(y, first(y)))))
        # assumption: no attribute value is beartype's private SENTINEL placeholder (stated in evidence)
        return ax

ASSUMED_SEMANTICS = [
    'Python ints are mathematical integers (exact: Python ints are unbounded); % with positive modulus is SMT mod',
    'isinstance/issubclass are relations closed under the REAL class graph of the classes found in the real scope',
    'inputs are protocol-respecting: an instance of a collections.abc ABC obeys its laws (len>=0; Sequence iterates by index; '
    'Mapping iteration/values()/items()/__getitem__ agree); __len__/__bool__/__eq__/__iter__ of inputs do not raise or mutate',
    'object identity is an uninterpreted sort; `is` is equality on it; == is an arbitrary relation `eq` (no reflexivity)',
    'user callables (validators) are deterministic functions of their argument (callres uninterpreted)',
    'evaluation order, short-circuiting and walrus scoping as in the language reference',
]
