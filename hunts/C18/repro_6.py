# A forward-reference string is a supported hint, hence a legal override key.
# hint_overrides={'A': B} is honoured by beartype.door but ignored by @beartype
# (which resolves the string before consulting the overrides), so the two
# public APIs give opposite verdicts for the same hint, object and conf.
import sys
from beartype import beartype, BeartypeConf, FrozenDict
from beartype.door import is_bearable
from beartype.roar import BeartypeCallHintViolation
class A: pass
class B: pass
conf = BeartypeConf(hint_overrides=FrozenDict({'A': B}))
@beartype(conf=conf)
def f(x: 'A'): pass
def ok(o):
    try: f(o); return True
    except BeartypeCallHintViolation: return False
door = (is_bearable(A(), 'A', conf=conf), is_bearable(B(), 'A', conf=conf))
deco = (ok(A()), ok(B()))
print("hint 'A' under hint_overrides={'A': B}   (by hand: hint B -> (False, True))")
print('  beartype.door.is_bearable (A(), B()) ->', door)
print('  @beartype parameter       (A(), B()) ->', deco)
sys.exit(1 if door != deco else 0)
