# Finding 8: rejecting an object whose __repr__ raises surfaces that unrelated exception instead of
# the configured violation (is_bearable() correctly says False; every raising entry point blows up).
import sys
import beartype
assert beartype.__file__.startswith('/tmp/wt/hunt_C03'), beartype.__file__
from beartype import beartype as bt
from beartype.door import is_bearable, die_if_unbearable
from beartype.roar import BeartypeDoorHintViolation, BeartypeCallHintParamViolation, BeartypeCallHintReturnViolation

class Lazy:
    '''E.g. a half-initialised / proxy object whose repr needs a live connection.'''
    def __repr__(self): raise RuntimeError('connection closed')

obj = Lazy()
@bt
def f(x: int): pass
@bt
def g(x) -> int: return x

print('is_bearable ->', is_bearable(obj, int))
bad = 0
for label, call, exp in (
    ('die_if_unbearable', lambda: die_if_unbearable(obj, int), BeartypeDoorHintViolation),
    ('nested item      ', lambda: die_if_unbearable([obj], list[int]), BeartypeDoorHintViolation),
    ('@beartype param  ', lambda: f(obj), BeartypeCallHintParamViolation),
    ('@beartype return ', lambda: g(obj), BeartypeCallHintReturnViolation),
):
    try:
        call()
        print(label, 'accepted')
    except exp:
        print(label, 'OK violation')
    except Exception as e:
        bad += 1
        print(label, 'BUG:', type(e).__name__, str(e)[:160])
sys.exit(1 if bad else 0)
