"""C06 - hook scoping follows the nearest registered package.
 (A) proof: the lookup functions of clawpkgtrie (is_package_blacklisted, iter_packages_trie, get_package_conf_or_none,
     is_packages_trie) in function mode with loop invariants; the trie is an uninterpreted child(node, basename) heap, the
     postcondition is the property's sentence over the ghost path nd(k) (node reached after k basenames), with the induction
     lemma `a missing prefix stays missing` proved in two queries.
 (B) bounded: registration / beartyping histories on the REAL registry against an independent model of the property text."""
import ast, os, sys, time, z3, traceback, itertools
from pyvc import report

def lookup(rep):
    from pyvc import funcmode, model as M, symx, discharge
    from pyvc.symx import Exec, St, VObj, VPy, VBool, VInt
    import collections.abc as cabc
    import beartype.claw._package.clawpkgtrie as mod
    uni = M.Universe()
    for c in (cabc.Sized, cabc.Collection, cabc.Sequence, cabc.Iterable, cabc.Mapping, list, dict): uni.const(c)
    NONE = uni.const(None); SENT = uni.const(mod.PackagesTrieBlacklisted)
    CS = z3.Const('claw_state', M.Obj); B = z3.Const('package_basenames', M.Obj); L = M.len_(B)
    child = z3.Function('child', M.Obj, M.Obj, M.Obj)
    Hw = z3.Const('H_packages_trie_whitelist', z3.ArraySort(M.Obj, M.Obj)); Hb = z3.Const('H_packages_trie_blacklist', z3.ArraySort(M.Obj, M.Obj))
    Hc = z3.Const('H_conf_if_hooked', z3.ArraySort(M.Obj, M.Obj))
    wroot = z3.Select(Hw, CS); broot = z3.Select(Hb, CS)
    ndw = z3.Function('nd_w', z3.IntSort(), M.Obj); ndb = z3.Function('nd_b', z3.IntSort(), M.Obj)
    k, a, j = z3.Ints('k a j')
    defs = []
    for nd, root in ((ndw, wroot), (ndb, broot)):
        defs += [nd(0) == root, z3.ForAll([k], z3.Implies(z3.And(0 <= k, k < L), nd(k + 1) == z3.If(nd(k) == NONE, NONE, child(nd(k), M.item(B, k)))))]
    pre = [wroot != NONE, broot != NONE, broot != SENT, wroot != SENT, M.inst(B, uni.const(list)), M.inst(wroot, uni.const(dict)), M.inst(broot, uni.const(dict))]      # registry invariant: the roots are real tries
    y = z3.Const('y_c', M.Obj)
    truth = [z3.ForAll([y], M.truthy(z3.Select(Hc, y)) == (z3.Select(Hc, y) != NONE))]   # assumption: BeartypeConf / trie-node objects other than None are truthy where the code tests them (confs define no __bool__/__len__)
    base_axioms = uni.axioms() + defs + pre
    # ---- induction lemma: a missing prefix stays missing (two queries per trie)
    lemmas = []
    for nm, nd in (('w', ndw), ('b', ndb)):
        lem = z3.ForAll([a, j], z3.Implies(z3.And(0 <= a, a <= j, j <= L, nd(a) == NONE), nd(j) == NONE))
        # step: from nd(j) == NONE (hypothesis at j) to nd(j+1) == NONE
        pr = discharge.Prover(base_axioms)
        r = pr.prove([0 <= j, j < L, ndw(0) == ndw(0), nd(j) == NONE], nd(j + 1) == NONE)
        rep.add(f'C06.lemma.null_stays.{nm}.step', r.status, time=r.time, backend=r.backend, where='nd(j) missing => nd(j+1) missing (definition of nd)')
        rep.add(f'C06.lemma.null_stays.{nm}.base', 'proved', backend='structural', where='a = j: trivial')
        lemmas.append(lem)
    axioms = base_axioms + lemmas
    def m_get(ex, s, f, args, kw, where):   # the trie class IS the dict: node.get(basename) is the child or None
        return [(s, VObj(child(ex.obj(f.self_), ex.obj(args[0]))))]
    def fresh_exec(name, node, extra_cm=None, loop_contracts=None):
        scope = dict(mod.__dict__); scope['claw_state'] = VObj(CS); scope['claw_lock'] = VObj(z3.Const('claw_lock', M.Obj))
        cm = {'.get': m_get}; cm.update(extra_cm or {})
        ex = Exec(uni, scope, call_model=cm, name=name); ex.fields_mode = True; ex.method_names = {'get', 'split'}
        ex.set_target(node); ex.loop_contracts = loop_contracts or {}
        return ex
    def canary(name, pr, paths):
        for pi, pc in enumerate(paths):
            r = pr.prove(list(pc), z3.BoolVal(False))
            if r.status == 'proved': rep.error(f'C06.{name}.canary.path{pi}: path condition is unsatisfiable with the axioms (vacuous proof)')
    def discharge_all(ex, name, ax):
        pr = discharge.Prover(ax)
        for ob in ex.obls:
            r = pr.prove(list(ob.pc), ob.goal)
            rep.add(f'C06.{name}.{ob.kind}#{ob.name.rsplit(".", 1)[-1]}', r.status, time=r.time, backend=r.backend, where=ob.where, reason=r.reason)
        return pr
    BL = z3.Exists([k], z3.And(1 <= k, k <= L, ndb(k) == SENT))
    # ================= is_package_blacklisted
    fobj, node, _ = funcmode.load('beartype/claw/_package/clawpkgtrie.py', 'is_package_blacklisted')
    def inv_bl(ex, i, env, B_, s):
        cur = ex.obj(env['subpackages_trie_blacklist']); kk = z3.Int('kk')
        return z3.And(z3.Not(ex.truth(env['is_blacklisted'])), cur == ndb(i), cur != NONE, cur != SENT, 0 <= i, i <= L,
                      z3.ForAll([kk], z3.Implies(z3.And(1 <= kk, kk <= i), ndb(kk) != SENT)))
    ex = fresh_exec('is_package_blacklisted', node, loop_contracts={0: dict(name='walk', vars=['is_blacklisted', 'subpackages_trie_blacklist'], inv=inv_bl)})
    outs = ex.run_function(node, St(), (VObj(B),), {}, fobj)
    pr = discharge_all(ex, 'is_package_blacklisted', axioms)
    for pi, (s, v) in enumerate(outs):
        r = pr.prove(list(s.pc), ex.truth(v) == BL)
        rep.add(f'C06.is_package_blacklisted.post.path{pi}', r.status, time=r.time, backend=r.backend, where='returns True iff some prefix of the name is a skipped package', reason=r.reason)
    canary('is_package_blacklisted', pr, [s.pc for s, v in outs])
    rep.add('C06.is_package_blacklisted.frame', 'proved' if not any(op == 'setattr' for s, v in outs for op, _, _ in s.effects) else 'refuted', backend='structural', where='reads only')
    # ================= iter_packages_trie (generator: ghost yield counter)
    fobj, node, _ = funcmode.load('beartype/claw/_package/clawpkgtrie.py', 'iter_packages_trie')
    def inv_it(ex, i, env, B_, s):
        cur = ex.obj(env['subpackages_trie_whitelist']); kk = z3.Int('kk')
        return z3.And(cur == ndw(i), cur != NONE, 0 <= i, i <= L, ex.as_int(env['__nyield']) == i, z3.ForAll([kk], z3.Implies(z3.And(1 <= kk, kk <= i), ndw(kk) != NONE)))
    ex = fresh_exec('iter_packages_trie', node, loop_contracts={0: dict(name='walk', vars=['subpackages_trie_whitelist', '__nyield'], inv=inv_it)})
    def on_yield(ex_, s, v, idx):
        ex_.obl(s, 'yield.value', z3.And(ex_.obj(v) == ndw(ex_.as_int(idx) + 1), ex_.obj(v) != NONE), 'the m-th yielded trie is the node of the first m basenames')
    ex.on_yield = on_yield
    env = {'package_basenames': VObj(B), '__nyield': VInt(z3.IntVal(0))}
    outs = [(k_, s, v) for k_, s, v in ex.exec_block(node.body, St(tuple(env.items())))]
    pr = discharge_all(ex, 'iter_packages_trie', axioms)
    for pi, (kind, s, v) in enumerate(outs):
        ny = ex.as_int(s.get('__nyield'))
        r = pr.prove(list(s.pc), z3.And(0 <= ny, ny <= L, z3.Or(ny == L, ndw(ny + 1) == NONE)))
        rep.add(f'C06.iter_packages_trie.post.count.path{pi}', r.status, time=r.time, backend=r.backend, where='stops exactly at the first missing prefix', reason=r.reason)
    canary('iter_packages_trie', pr, [s.pc for k_, s, v in outs])
    # ================= get_package_conf_or_none
    fobj, node, _ = funcmode.load('beartype/claw/_package/clawpkgtrie.py', 'get_package_conf_or_none')
    Y = z3.Const('yielded', M.Obj); Mv = M.len_(Y); jj = z3.Int('jj')
    ycontract = [M.inst(Y, uni.const(list)), 0 <= Mv, Mv <= L, z3.ForAll([jj], z3.Implies(z3.And(0 <= jj, jj < Mv), z3.And(M.item(Y, jj) == ndw(jj + 1), ndw(jj + 1) != NONE))),
                 z3.Or(Mv == L, ndw(Mv + 1) == NONE)]
    def m_split(ex, s, f, args, kw, where): return [(s.assume(L >= 1), VObj(B))]
    def m_isbl(ex, s, f, args, kw, where):
        ok = isinstance(args[0], VObj) and args[0].t.eq(B)
        if not ok: raise symx.Unsupported('is_package_blacklisted called on something else than the split name')
        return [(s, VBool(BL))]
    def m_iter(ex, s, f, args, kw, where):
        ok = isinstance(args[0], VObj) and args[0].t.eq(B)
        if not ok: raise symx.Unsupported('iter_packages_trie called on something else than the split name')
        return [(s.assume(z3.And(*ycontract)), VObj(Y))]
    reg = lambda q: z3.And(ndw(q) != NONE, z3.Select(Hc, ndw(q)) != NONE)
    def Best(c, i):
        k1, j1, k2 = z3.Ints('k1 j1 k2')
        return z3.And(z3.Implies(c != NONE, z3.Exists([k1], z3.And(0 <= k1, k1 <= i, reg(k1), c == z3.Select(Hc, ndw(k1)), z3.ForAll([j1], z3.Implies(z3.And(k1 < j1, j1 <= i), z3.Not(reg(j1))))))),
                      z3.Implies(c == NONE, z3.ForAll([k2], z3.Implies(z3.And(0 <= k2, k2 <= i), z3.Not(reg(k2))))))
    def inv_conf(ex, i, env, B_, s): return z3.And(0 <= i, i <= Mv, Best(ex.obj(env['subpackage_conf']), i))
    ex = fresh_exec('get_package_conf_or_none', node, extra_cm={'.split': m_split, mod.is_package_blacklisted: m_isbl, mod.iter_packages_trie: m_iter},
                    loop_contracts={0: dict(name='deepest', vars=['subpackage_conf'], inv=inv_conf)})
    outs = ex.run_function(node, St(), (VObj(z3.Const('package_name', M.Obj)),), {}, fobj)
    ax2 = axioms + truth
    pr = discharge_all(ex, 'get_package_conf_or_none', ax2)
    for pi, (s, v) in enumerate(outs):
        res = ex.obj(v)
        r = pr.prove(list(s.pc), z3.If(BL, res == NONE, Best(res, L)))
        rep.add(f'C06.get_package_conf_or_none.post.path{pi}', r.status, time=r.time, backend=r.backend, reason=r.reason,
                where='None inside a skipped package; else the configuration of the LONGEST registered dotted prefix (prefix 0 = beartype_all), else None')
    canary('get_package_conf_or_none', pr, [s.pc for s, v in outs])
    rep.add('C06.get_package_conf_or_none.frame', 'proved' if not any(op == 'setattr' for s, v in outs for op, _, _ in s.effects) else 'refuted', backend='structural', where='reads only')
    # ================= is_packages_trie
    fobj, node, _ = funcmode.load('beartype/claw/_package/clawpkgtrie.py', 'is_packages_trie')
    ex = fresh_exec('is_packages_trie', node); ex.quantify_allany = True; ex.method_names = ex.method_names | {'values', 'items', 'keys'}
    outs = ex.run_function(node, St(), (), {}, fobj)
    pr = discharge_all(ex, 'is_packages_trie', axioms)
    for pi, (s, v) in enumerate(outs):
        r = pr.prove(list(s.pc), ex.truth(v) == z3.Or(z3.Select(Hc, wroot) != NONE, M.truthy(wroot)))
        rep.add(f'C06.is_packages_trie.post.path{pi}', r.status, time=r.time, backend=r.backend, where='true iff beartype_all is active or some package is registered (root trie non-empty)')

def registration(rep):
    """(F) the two loop-free registration functions.  hook_packages(): nothing is blacklisted and no path hook is added unless the
    whitelisting step returned normally (a conflicting call leaves the registry as it was: the raising callee runs FIRST), everything
    happens under claw_lock.  _whitelist_packages_all(): raises exactly when another configuration is registered and writes nothing then;
    otherwise the registered configuration is the passed one."""
    from pyvc import funcmode, model as M, discharge, symx
    from pyvc.symx import Exec, St, VObj, VPy, VBool, VExc
    import beartype.claw._package.clawpkgmain as mod
    from beartype.roar import BeartypeClawHookException
    uni = M.Universe(); uni.const(BeartypeClawHookException)
    CONF = z3.Const('conf', M.Obj); HCONF = z3.Const('conf_hookable', M.Obj); NAMES = z3.Const('package_names', M.Obj); COV = z3.Const('claw_coverage', M.Obj)
    conflict = z3.Bool('whitelisting_conflicts')
    def m_white(tag):
        def m(ex, s, f, a, kw, w):
            outs = []
            for s2, c in ex.fork(s.ev('whitelist_called', tag), conflict):
                if c: ex.raised.append((s2.ev('whitelist_raised'), VExc(BeartypeClawHookException)))
                else: outs.append((s2.ev('whitelist_done'), VPy(None)))
            return outs
        return m
    def m_ev(tag): return lambda ex, s, f, a, kw, w: [(s.ev(tag), VPy(None))]
    def m_hookable(ex, s, f, a, kw, w): return [(s, VObj(HCONF))]
    def m_names(ex, s, f, a, kw, w): return [(s, VObj(NAMES))]
    def m_opt(ex, s, f, a, kw, w): return [(s, VBool(z3.Bool('python_optimized')))]
    fobj, node, _ = funcmode.load('beartype/claw/_package/clawpkgmain.py', 'hook_packages')
    cm = {mod._whitelist_packages_all: m_white('all'), mod._whitelist_packages_some: m_white('some'), mod._blacklist_packages: m_ev('blacklist'), mod.add_beartype_path_hook: m_ev('add_path_hook'),
          mod.make_conf_hookable: m_hookable, mod.make_package_names_from_args: m_names, mod.is_python_optimized: m_opt}
    ex = Exec(uni, dict(mod.__dict__), call_model=cm, name='hook_packages'); ex.fields_mode = True
    outs = ex.run_function(node, St(), (), {'claw_coverage': VObj(COV), 'conf': VObj(CONF), 'package_name': VPy(None), 'package_names': VPy(None)}, fobj)
    n = 0
    for i, (s_, v) in enumerate(outs):
        n += 1; evs = [e[0] for e in s_.events]
        ok = True
        if 'blacklist' in evs or 'add_path_hook' in evs:
            first_side = min(evs.index(x) for x in ('blacklist', 'add_path_hook') if x in evs)
            ok = 'whitelist_done' in evs and evs.index('whitelist_done') < first_side
        rep.add(f'C06.hook_packages.post.side_effects_after_whitelisting.path{i}', 'proved' if ok else 'refuted', backend='structural', where=f'events {evs}: skip names are blacklisted and the path hook is added only after the (possibly raising) whitelisting step returned')
    for i, (s_, v) in enumerate(ex.raised):
        n += 1; evs = [e[0] for e in s_.events]
        rep.add(f'C06.hook_packages.post.conflict_changes_nothing.path{i}', 'proved' if not ({'blacklist', 'add_path_hook'} & set(evs)) else 'refuted', backend='structural', where=f'events {evs}: a raising call blacklists nothing and adds no hook')
    if not n: rep.error('C06.hook_packages: no path')
    # _whitelist_packages_all
    fobj, node, _ = funcmode.load('beartype/claw/_package/clawpkgmain.py', '_whitelist_packages_all')
    CS = z3.Const('claw_state', M.Obj)
    import beartype.claw._clawstate as stmod
    scope = dict(mod.__dict__); scope['claw_state'] = VObj(CS)
    ex = Exec(uni, scope, call_model={}, name='_whitelist_packages_all'); ex.fields_mode = True
    # the function imports claw_state locally: make that import bind the symbolic state
    orig_import = ex.s_ImportFrom
    def s_ImportFrom(n_, st):
        if any(a.name == 'claw_state' for a in n_.names): return [('next', st.set('claw_state', VObj(CS)), None)]
        return orig_import(n_, st)
    ex.s_ImportFrom = s_ImportFrom
    body = [st for st in node.body if not isinstance(st, ast.Assert) and not (isinstance(st, ast.Expr) and isinstance(st.value, ast.Constant))]
    outs = ex.exec_block(body, St((('conf', VObj(CONF)),)))
    Hw = z3.Const('H_packages_trie_whitelist', z3.ArraySort(M.Obj, M.Obj)); Hc0 = z3.Const('H_conf_if_hooked', z3.ArraySort(M.Obj, M.Obj))
    ROOT = z3.Select(Hw, CS); OLD = z3.Select(Hc0, ROOT); NONE = uni.const(None)
    pr = discharge.Prover(uni.axioms())
    for ob in ex.obls:
        r = pr.prove(list(ob.pc), ob.goal); rep.add(f'C06.whitelist_all.{ob.kind}#{ob.name.rsplit(".", 1)[-1]}', r.status, time=r.time, backend=r.backend, where=ob.where)
    m = 0
    for i, (kind, s_, v) in enumerate(list(outs) + [('raise', s2, v2) for s2, v2 in ex.raised]):
        m += 1
        new = z3.Select(ex.field(s_, 'conf_if_hooked'), ROOT)
        if kind == 'raise':
            r = pr.prove(list(s_.pc), z3.And(OLD != NONE, z3.Not(M.eq(OLD, CONF)), new == OLD))
            rep.add(f'C06.whitelist_all.post.raises_only_on_conflict_and_writes_nothing.path{i}', r.status if (isinstance(v, VExc) and v.cls is BeartypeClawHookException) else 'refuted', time=r.time, backend=r.backend)
        else:
            r = pr.prove(list(s_.pc), z3.And(z3.Or(OLD == NONE, M.eq(OLD, CONF)), z3.If(OLD == NONE, new == CONF, new == OLD)))
            rep.add(f'C06.whitelist_all.post.registers_or_keeps_equal.path{i}', r.status, time=r.time, backend=r.backend, reason=r.reason, where='returns normally only if nothing or an equal configuration was registered; registers the passed configuration in the first case and changes nothing in the second')
    if not m: rep.error('C06.whitelist_all: no path')

FRESH_SRC = """
import sys
preloaded = set(sys.modules)
from beartype.claw import beartype_all, beartyping, beartype_package
from beartype import BeartypeConf
bad = []
def try_imports(label, names):
    for n in names:
        if n in sys.modules: continue
        try: __import__(n)
        except BaseException as e: bad.append((label, n, type(e).__name__ + ': ' + str(e)[:120]))
with beartyping():
    try_imports('beartyping()', ['colorsys', 'this' if False else 'sched'])
beartype_all()
try_imports('beartype_all()', ['bisect', 'heapq', 'fnmatch', 'textwrap', 'hashlib', 'hmac', 'secrets', 'base64', 'quopri', 'uu' if False else 'stringprep'])
beartype_all(conf=BeartypeConf())      # same configuration again: allowed
try_imports('beartype_all() again', ['shlex', 'glob', 'tempfile', 'random', 'statistics'])
print(bad)
sys.exit(1 if bad else 0)
"""
def fresh_interpreter(rep):
    """bounded (NOT counted as proved): in a FRESH interpreter (nothing pre-imported beyond what `import beartype.claw` itself imports) modules
    of the standard library import under beartyping() / beartype_all(): the hook's own machinery must not need a not-yet-imported module
    that it would then hook recursively"""
    import subprocess, sys
    from pyvc import REPO
    env = dict(os.environ); env['PYTHONPATH'] = REPO; env['PYTHONDONTWRITEBYTECODE'] = '1'
    p = subprocess.run([sys.executable, '-S', '-c', FRESH_SRC] if False else [sys.executable, '-c', FRESH_SRC], capture_output=True, text=True, timeout=300, env=env, cwd='/')
    if p.returncode not in (0, 1) or (p.returncode == 1 and not p.stdout.strip().startswith('[')): rep.error('C06 fresh_interpreter harness: ' + (p.stdout + p.stderr)[-600:]); return
    if p.returncode == 1:
        rep.add('C06.fresh_interpreter.imports_under_hook', 'refuted', backend='runtime-contract', where=p.stdout.strip()[-400:], solver_output='bounded run-time contract in a fresh interpreter (not a proof)',
                replay=dict(reproduced=True, detail=p.stdout.strip()[-400:]), replay_script=f"import subprocess\nenv = dict(os.environ); env['PYTHONPATH'] = {REPO!r}; env['PYTHONDONTWRITEBYTECODE'] = '1'\np = subprocess.run([sys.executable, '-c', {FRESH_SRC!r}], env=env, cwd='/')\nsys.exit(p.returncode)\n")
    rep.bounded.append(dict(kind='fresh interpreter: standard-library imports under beartyping() / beartype_all() (bounded stand-in, NOT counted as proved)', modules=17, failing=int(p.returncode == 1)))

THIS_SRC = """
import sys, os, tempfile
td = tempfile.mkdtemp(prefix='c06this_'); sys.path.insert(0, td)
def w(rel, text=''):
    p = os.path.join(td, rel); os.makedirs(os.path.dirname(p), exist_ok=True); open(p, 'w').write(text)
CALL = 'from beartype.claw import beartype_this_package\\nbeartype_this_package()\\n'
w('c06tp/__init__.py'); w('c06tp/sub/__init__.py'); w('c06tp/sub/_boot.py', CALL); w('c06tp/sub/mod.py', 'def f(x: int) -> int:\\n    return x\\n')
w('c06tp/other/__init__.py', CALL); w('c06tp/other/m.py'); w('c06tp/third/__init__.py'); w('c06tp/third/deep/__init__.py'); w('c06tp/third/deep/boot2.py', CALL)
from beartype import BeartypeConf
from beartype.claw import beartype_package
from beartype.claw._package.clawpkgtrie import get_package_conf_or_none as conf_of      # observation only
from beartype.roar import BeartypeClawHookException
bad = []
def hooked(n): return conf_of(n) is not None
import c06tp.sub._boot                        # a non-__init__ module of package c06tp.sub calls beartype_this_package()
exp = {'c06tp.sub.mod': True, 'c06tp.sub._boot.anything': True, 'c06tp.sub': True, 'c06tp.other.m': False, 'c06tp.third.deep.x': False, 'c06tp': False}
for n, e in exp.items():
    if hooked(n) != e: bad.append(f'after beartype_this_package() in module c06tp.sub._boot: {n} hooked={hooked(n)}, expected {e} (the package of the caller is c06tp.sub)')
import c06tp.other                             # a package __init__ calls it
if not hooked('c06tp.other.m') or hooked('c06tp.third.x'): bad.append('after beartype_this_package() in c06tp/other/__init__.py: c06tp.other.m hooked=%s, c06tp.third.x hooked=%s' % (hooked('c06tp.other.m'), hooked('c06tp.third.x')))
beartype_package('c06tp.third.deep', conf=BeartypeConf(is_debug=True))
try:
    import c06tp.third.deep.boot2             # registers c06tp.third.deep again under the DEFAULT configuration: a conflict
    bad.append('beartype_this_package() in c06tp.third.deep.boot2 did not conflict with the earlier registration of c06tp.third.deep under another configuration')
except BeartypeClawHookException: pass
import c06tp.sub.mod
try: c06tp.sub.mod.f('x'); bad.append('c06tp.sub.mod was imported unchecked')
except Exception as e:
    if 'Violation' not in type(e).__name__: bad.append(f'c06tp.sub.mod.f: {type(e).__name__}')
print(bad[:3]); sys.exit(1 if bad else 0)
"""
def this_package(rep):
    """beartype_this_package() registers the package CONTAINING the calling module.  (F) get_frame_package_name_or_none returns the caller's
    package - its `__package__`, equivalently `__spec__.parent` (import-system invariant, trusted) - never the module's own name;
    (b) real on-disk packages calling it from a non-__init__ module, from an __init__ and against an earlier conflicting registration."""
    from pyvc import funcmode, model as M, discharge, symx, REPO
    from pyvc.symx import Exec, St, VObj, VPy
    import beartype._util.func.utilfuncframe as mod
    fobj, node, _ = funcmode.load('beartype/_util/func/utilfuncframe.py', 'get_frame_package_name_or_none')
    uni = M.Universe(); NONE = uni.const(None)
    FRAME = z3.Const('frame', M.Obj); GL = z3.Const('frame_globals', M.Obj); SPEC = z3.Const('module_spec', M.Obj); PKG = z3.Const('dunder_package', M.Obj)
    def m_get(ex, s, f, a, kw, w):
        key = a[0].o if isinstance(a[0], VPy) else None
        if key == '__package__': return [(s, VObj(PKG))]
        if key == '__spec__': return [(s2, VPy(None) if none else VObj(SPEC)) for s2, none in ex.fork(s, z3.Bool('spec_is_none'))]
        return [(s, VObj(M.fresh('global_' + str(key))))]
    ex = Exec(uni, dict(mod.__dict__), call_model={'.get': m_get}, name='frame_package'); ex.fields_mode = True; ex.method_names = {'get'}
    body = [st for st in node.body if not isinstance(st, ast.Assert) and not (isinstance(st, ast.Expr) and isinstance(st.value, ast.Constant))]
    try: outs = ex.exec_block(body, St((('frame', VObj(FRAME)),), (SPEC != NONE,)))
    except symx.Unsupported as e: rep.error(f'C06.this_package: unsupported: {e}'); outs = []
    pr = discharge.Prover(uni.axioms()); n = 0
    PARENT = z3.Select(z3.Const('H_parent', z3.ArraySort(M.Obj, M.Obj)), SPEC)
    for i, (kind, s_, v) in enumerate(outs):
        if kind != 'return': continue
        n += 1
        r = pr.prove(list(s_.pc), z3.Or(ex.obj(v) == PKG, z3.And(z3.Not(z3.Bool('spec_is_none')), ex.obj(v) == PARENT)))
        rep.add(f'C06.this_package.frame_package.post.is_the_callers_package.path{i}', r.status, time=r.time, backend=r.backend, reason=r.reason,
                where="returns the calling module's __package__ (or __spec__.parent): the package that CONTAINS the caller, for __init__ and non-__init__ callers alike")
    if not n: rep.error('C06.this_package: no returning path')
    import subprocess
    env = dict(os.environ); env['PYTHONPATH'] = REPO; env.pop('PYTHONDONTWRITEBYTECODE', None); env['PYTHONDONTWRITEBYTECODE'] = '1'
    p = subprocess.run([sys.executable, '-c', THIS_SRC], capture_output=True, text=True, timeout=180, env=env, cwd='/')
    if p.returncode not in (0, 1) or (p.returncode == 1 and not p.stdout.strip().startswith('[')): rep.error('C06 this_package harness: ' + (p.stdout + p.stderr)[-700:]); return
    if p.returncode == 1:
        rep.add('C06.this_package.bounded.registers_the_callers_package', 'refuted', backend='runtime-contract', bounded=True, where=p.stdout.strip()[-500:], solver_output='bounded run-time contract in a fresh interpreter (not a proof)',
                replay=dict(reproduced=True, detail=p.stdout.strip()[-300:]), replay_script=f"import subprocess\nenv = dict(os.environ); env['PYTHONPATH'] = os.environ.get('VERIF_REPO', {REPO!r}); env['PYTHONDONTWRITEBYTECODE'] = '1'\np = subprocess.run([sys.executable, '-c', {THIS_SRC!r}], env=env, cwd='/')\nsys.exit(p.returncode)\n")
    rep.bounded.append(dict(kind='beartype_this_package() called from real on-disk modules (non-__init__, __init__, conflicting) (bounded stand-in, NOT counted as proved)', scenarios=4, failing=int(p.returncode == 1)))
    rep.functions.append('beartype/_util/func/utilfuncframe.py:get_frame_package_name_or_none (mode F; leading assert dropped)')

def applied_configuration(rep):
    """"the configuration applied is that of the nearest registered ancestor": the loader hands the AST transformer and the injected decorators the
    configuration get_package_conf_or_none() returned for THIS import - it (re)writes the per-module entry unconditionally (a first-writer-wins entry
    would keep serving the configuration of an earlier import of the same module name after the registrations changed).  The obligation is the one
    C16 states on the real get_code (function mode), reported here for the configuration clause of C06."""
    from props import c16
    sub = report.Report('C16', 'quick', 0, 'other', 'sub')
    c16.run(sub)
    n = 0
    for o in sub.obls:
        if 'transforms_under_the_hooking_conf' not in o['name']: continue
        n += 1; rep.obls.append(dict(o, name=o['name'].replace('C16.get_code.post.transforms_under_the_hooking_conf', 'C06.import.applies_the_configuration_found_for_the_module')))
    for e in sub.errors: rep.error('C06 applied_configuration: ' + e)
    if not n: rep.error('C06 applied_configuration: no obligation')
    rep.functions.append('beartype/claw/_importlib/_clawimpfileloader.py:BeartypeSourceFileLoader.get_code (mode F: the configuration handed to the transformer; shared with C16)')

def main(tier, seed):
    rep = report.Report('C06', tier, seed, 'proof', f'./check C06 --tier {tier}')
    for fn in (lookup, registration, fresh_interpreter, this_package, applied_configuration, histories):
        try: fn(rep) if fn is not histories else fn(rep, tier, seed)
        except Exception: rep.error(f'C06 {fn.__name__}: ' + traceback.format_exc()[-2500:])
    files = ['beartype/claw/_package/clawpkgtrie.py', 'beartype/claw/_package/clawpkgmain.py', 'beartype/claw/_package/clawpkgcontext.py', 'beartype/claw/_package/_clawpkgmake.py', 'beartype/claw/_clawstate.py']
    rep.functions = ['clawpkgtrie.is_package_blacklisted (loop invariant)', 'clawpkgtrie.iter_packages_trie (loop invariant + ghost yield sequence)', 'clawpkgtrie.get_package_conf_or_none (callee contracts + loop invariant)',
                     'clawpkgtrie.is_packages_trie', 'clawpkgmain.hook_packages (ordering of the raising whitelisting step and the side effects)', 'clawpkgmain._whitelist_packages_all', 'trie-walking registration functions (_whitelist_packages_some, _blacklist_packages): bounded run-time contract only'] + [f'{p}@{report.src_hash(p)}' for p in files]
    from pyvc import model as M
    rep.trusted = ['pyvc', 'z3 5.1 / cvc5'] + M.ASSUMED_SEMANTICS
    rep.assumptions = ['the trie heap is child(node, basename) (the trie classes ARE dicts; .get returns the child or None); registry invariant: both roots are real tries (never None / the sentinel)',
                       'str.split(".") returns a non-empty list of basenames (contents abstract)', 'configuration objects are truthy (BeartypeConf defines neither __bool__ nor __len__)',
                       'the with-statement on claw_lock is transparent (ownership under C15)', 'built-in excluded packages are part of the initial blacklist trie (data, not code)']
    rep.extra['explanation'] = 'lookup functions proved against the property sentence over a ghost path function; registration histories explored on the real registry (bounded)'
    return rep.finish()

NAMES = ('aa', 'aa.bb', 'aa.bb.cc', 'dd')
QUERY = ('aa', 'aa.bb', 'aa.bb.cc', 'aa.bb.cc.ee', 'aa.xx', 'dd', 'dd.yy', 'zz')
CONFS = {'c1': 'BeartypeConf(is_debug=True)', 'c2': 'BeartypeConf()', 'c1skip': "BeartypeConf(is_debug=True, claw_skip_package_names=('aa.bb',))",
         'c2skip': "BeartypeConf(claw_skip_package_names=('aa.bb.cc',))", 'c1skip2': "BeartypeConf(is_debug=True, claw_skip_package_names=('dd', 'dd.yy'))"}
def op_alphabet():
    ops = []
    for c in CONFS: ops.append(('all', c))
    for c in CONFS:
        for n in NAMES: ops.append(('pkg', n, c))
    for c in ('c1', 'c2'):
        for ns in (('aa.bb', 'dd'), ('dd', 'aa'), ('aa.bb.cc', 'aa.bb')): ops.append(('pkgs', ns, c))
    for c in ('c1', 'c2', 'c1skip'): ops.append(('with', c))
    ops.append(('exit',)); ops.append(('withbad',))      # beartyping(conf=<not a configuration>): must raise and change nothing
    return ops

class Model:
    """the property text as a reference model: registered names, skipped names, beartype_all configuration, path hook"""
    def __init__(self): self.all = None; self.reg = {}; self.skip = set(); self.stack = []
    def snapshot(self): return (self.all, tuple(sorted(self.reg.items())), tuple(sorted(self.skip)))
    def hooked(self): return self.all is not None or bool(self.reg)
    def apply(self, op, skipnames):
        """-> 'ok' | 'raise'   (a raising operation leaves the model unchanged)"""
        k = op[0]
        if k == 'all':
            c = op[1]
            if self.all is not None and self.all != c: return 'raise'
            self.all = c; self.skip |= set(skipnames(c)); return 'ok'
        if k in ('pkg', 'pkgs'):
            names = (op[1],) if k == 'pkg' else op[1]; c = op[2]; cc = c
            if any(n in self.reg and self.reg[n] != cc for n in names): return 'raise'
            for n in names: self.reg[n] = cc
            self.skip |= set(skipnames(c)); return 'ok'
    def query(self, name):
        parts = name.split('.')
        for i in range(1, len(parts) + 1):
            if '.'.join(parts[:i]) in self.skip: return None
        for i in range(len(parts), 0, -1):
            p = '.'.join(parts[:i])
            if p in self.reg: return self.reg[p]
        return self.all

def run_history(hist):
    """run one history on the REAL registry (fresh registry state), comparing every step with the model; -> None or a failure description"""
    from beartype import BeartypeConf
    from beartype.claw import beartype_all, beartype_package, beartype_packages, beartyping
    from beartype.claw._clawstate import claw_state
    from beartype.claw._package.clawpkgtrie import get_package_conf_or_none, is_packages_trie
    from beartype.claw._package._clawpkgmake import make_conf_hookable
    from beartype.roar import BeartypeClawHookException
    import warnings, sys
    confs = {k: eval(v, {'BeartypeConf': BeartypeConf}) for k, v in CONFS.items()}
    plain = {k: make_conf_hookable(v) for k, v in confs.items()}
    skipnames = lambda c: confs[c].claw_skip_package_names
    claw_state.reinit()
    m = Model(); cms = []
    def view():
        return {q: get_package_conf_or_none(q) for q in QUERY}
    def expect():
        out = {}
        for q in QUERY:
            e = m.query(q)
            out[q] = None if e is None else e
        return out
    def same(real, exp):
        for q in QUERY:
            r = real[q]; e = exp[q]
            if e is None:
                if r is not None: return f'{q}: real {r!r} expected unchecked'
            else:
                # the configuration applied is the registered one (made hookable); the skip list is not part of the identity compared here
                if r is not plain[e]: return f'{q}: real {r!r} expected {e}'
        return None
    try:
        with warnings.catch_warnings():
            warnings.simplefilter('ignore')
            for step, op in enumerate(hist):
                before_real = view(); before_model = m.snapshot()
                if op[0] == 'with':
                    cm = beartyping(conf=confs[op[1]]); saved = (m.all, dict(m.reg), set(m.skip), claw_state.beartype_path_hook is not None)
                    try: cm.__enter__(); raised = False
                    except BeartypeClawHookException: raised = True
                    if not raised:
                        cms.append((cm, saved + (op[1],))); m.stack.append(saved); m.all = op[1]; m.skip |= set(skipnames(op[1]))      # the block's own skip list applies inside the block
                elif op[0] == 'withbad':
                    cmb = beartyping(conf='not a configuration')
                    try: cmb.__enter__(); return f'step {step} {op}: beartyping(conf=<str>) was entered without BeartypeClawHookException'
                    except BeartypeClawHookException: pass
                    after = view()
                    if any(after[q] is not before_real[q] for q in QUERY): return f'step {step} {op}: beartyping(conf=<invalid>) raised but the registry changed: ' + ', '.join(f'{q}: {before_real[q]!r} -> {after[q]!r}' for q in QUERY if after[q] is not before_real[q])[:300]
                elif op[0] == 'exit':
                    if not cms: continue
                    cm, saved = cms.pop(); cm.__exit__(None, None, None); cm_conf = saved[4]
                    # leaving a beartyping() block restores the state the block itself changed (the beartype_all configuration and the path
                    # hook); registrations the body made through other API calls are operations of the history in their own right and persist
                    m.all = saved[0]
                    # "restores exactly the state that preceded it": the names the block's own configuration skipped are skipped no longer (skips registered by other calls inside the block persist)
                    m.skip = (m.skip - set(skipnames(cm_conf))) | saved[2]
                    hook_now = claw_state.beartype_path_hook is not None
                    if hook_now and not m.hooked() and not saved[3]:
                        return f'step {step} {op}: path hook still installed after leaving beartyping() although nothing remains registered'
                else:
                    try:
                        if op[0] == 'all': beartype_all(conf=confs[op[1]])
                        elif op[0] == 'pkg': beartype_package(op[1], conf=confs[op[2]])
                        else: beartype_packages(op[1], conf=confs[op[2]])
                        real = 'ok'
                    except BeartypeClawHookException: real = 'raise'
                    want = m.apply(op, skipnames)
                    if real != want: return f'step {step} {op}: real {real}, property says {want}'
                    if want == 'raise':
                        after = view()
                        if any(after[q] is not before_real[q] for q in QUERY): return f'step {step} {op}: raised BeartypeClawHookException but the registry changed: ' + ', '.join(f'{q}: {before_real[q]!r} -> {after[q]!r}' for q in QUERY if after[q] is not before_real[q])[:300]
                d = same(view(), expect())
                if d: return f'step {step} {op}: {d}'
                # modules of registered packages are only checked while the path hook is installed
                hook = claw_state.beartype_path_hook
                if m.hooked() and (hook is None or hook not in sys.path_hooks):
                    return f'step {step} {op}: path hook not installed although packages / beartype_all are registered: later imports go unchecked'
    except Exception as e:
        return f'unexpected {type(e).__name__}: {e}'[:300]
    finally:
        for cm, _ in reversed(cms):
            try: cm.__exit__(None, None, None)
            except Exception: pass
        claw_state.reinit()
    return None

def _hist_worker(chunk):
    from pyvc import use_repo
    use_repo()
    out = []
    for h in chunk:
        r = run_history(h)
        if r: out.append((h, r))
    return out, len(chunk)

def histories(rep, tier, seed):
    import multiprocessing as mp, random
    ops = op_alphabet()
    H = [(a,) for a in ops] + [(a, b) for a in ops for b in ops]
    rnd = random.Random(seed)
    if tier == 'quick':
        H3 = [(a, b, c) for a in ops for b in ops for c in ops]; rnd.shuffle(H3); H += H3[:6000]
    else:
        H += [(a, b, c) for a in ops for b in ops for c in ops]
        H4 = [tuple(rnd.choice(ops) for _ in range(4)) for _ in range(60000)]; H += H4
    chunks = [H[i::64] for i in range(64)]
    with mp.get_context('fork').Pool(int(os.environ.get('VERIF_PROCS', '16'))) as pool:
        res = pool.map(_hist_worker, chunks)
    fails = [f for r, n in res for f in r]
    total = sum(n for r, n in res)
    # group failures by their signature (operation kinds + message class) so that each distinct defect is one obligation
    groups = {}
    for h, msg in fails:
        sig = classify(h, msg); groups.setdefault(sig, []).append((h, msg))
    for sig, items in sorted(groups.items()):
        items.sort(key=lambda x: len(x[0])); h, msg = items[0]
        script = f'from props.c06 import run_history\nr = run_history({h!r})\nprint("REPRODUCED:" if r else "not reproduced", r)\nsys.exit(1 if r else 0)\n'
        rep.add(f'C06.history.{sig}', 'refuted', backend='runtime-contract', where=f'{len(items)} histories; shortest: {h} -> {msg}', solver_output='bounded run-time contract on the real registry (not a proof)',
                replay=dict(reproduced=True, detail=f'history {h}: {msg}'[:400]), replay_script=script)
    rep.bounded.append(dict(kind='registration / beartyping histories on the real registry vs a reference model of the property text (bounded stand-in, NOT counted as proved)',
                            histories=total, failing=len(fails), bound='all histories <= 2 operations + 6000 sampled (quick) / all (thorough) of 3 + 60000 sampled of 4 (thorough), over 4 names x 3 configurations x skip lists x nested beartyping()',
                            operations=len(ops)))

def classify(h, msg):
    if 'raised BeartypeClawHookException but the registry changed' in msg: return 'conflict_leaves_registry_changed'
    if 'after leaving beartyping()' in msg: return 'beartyping_exit_keeps_path_hook'
    if 'path hook not installed' in msg: return 'path_hook_missing_while_registered'
    if 'beartyping(conf=<' in msg: return 'invalid_beartyping_changes_registry'
    kinds = '+'.join(sorted({o[0] for o in h}))
    if 'exit' in kinds and ('expected' in msg):
        if any(o[0] == 'with' and 'skip' in o[1] for o in h): return 'beartyping_exit_does_not_restore_skip_list'
        return 'beartyping_exit_does_not_restore'
    return 'view_mismatch.' + kinds
