# BeartypeConf.__new__() holds a NON-reentrant lock while emitting deprecation /
# environment-variable warnings (and while calling user __eq__/__repr__/__iter__
# during validation). Any such callback that itself builds a BeartypeConf
# deadlocks the thread (and every other thread creating configurations).
import sys, threading, warnings
from beartype import BeartypeConf, BeartypeDecorPlace

def showwarning(message, category, filename, lineno, file=None, line=None):
    BeartypeConf(is_debug=True)            # e.g. a logging hook that uses beartype
warnings.showwarning = showwarning
warnings.simplefilter('always')

done = []
def work():
    BeartypeConf(claw_decoration_position_funcs=BeartypeDecorPlace.FIRST)
    done.append(True)
t = threading.Thread(target=work, daemon=True); t.start(); t.join(5)
print('returned' if done else 'DEADLOCK: BeartypeConf(...) did not return within 5 s')
sys.exit(0 if done else 1)
