# copy.copy() / copy.deepcopy() / pickle round-trip of a non-default BeartypeConf
# silently overwrites the memoised DEFAULT configuration singleton.
import copy, pickle, sys
from beartype import BeartypeConf, BeartypeStrategy

default = BeartypeConf()
assert default.is_debug is False and default.strategy is BeartypeStrategy.O1

custom = BeartypeConf(is_debug=True, strategy=BeartypeStrategy.On)
clone = copy.deepcopy(custom)   # same with copy.copy(custom) or pickle.loads(pickle.dumps(custom))

bad = False
print('clone is custom            :', clone is custom)              # expected True (memoised)
print('clone is BeartypeConf()    :', clone is BeartypeConf())      # expected False
print('BeartypeConf().is_debug    :', BeartypeConf().is_debug)      # expected False
print('BeartypeConf().strategy    :', BeartypeConf().strategy)      # expected O1
print('BeartypeConf() == custom   :', BeartypeConf() == custom)     # expected False
print('BeartypeConf() is custom   :', BeartypeConf() is custom)
print('BeartypeConf(**custom-kw) is custom:',
      BeartypeConf(is_debug=True, strategy=BeartypeStrategy.On) is custom)
if BeartypeConf().is_debug is not False: bad = True
if BeartypeConf().strategy is not BeartypeStrategy.O1: bad = True
if (BeartypeConf() == custom) and (BeartypeConf() is not custom): bad = True
sys.exit(1 if bad else 0)
