# Finding 5: after athrow() into a decorated async generator, an exception
# later raised by the body carries the thrown exception as __context__ (and
# sys.exception() inside the body reports it) although the body had already
# completely handled it.  The undecorated generator raises with no context.
import sys
from beartype import beartype

def make(decorate):
    seen = []
    async def agen(x: int):
        try:
            yield x
        except ValueError:
            pass                                  # fully handled
        seen.append(repr(sys.exception()))        # None for the original
        raise KeyError('boom')
    return (beartype(agen) if decorate else agen), seen

def drive(aw):
    try:
        aw.send(None)
    except StopIteration as exc:
        return ('yielded', exc.value)
    except StopAsyncIteration:
        return ('stop',)
    except BaseException as exc:
        return ('raised', repr(exc), 'context=' + repr(exc.__context__))

def scenario(decorate):
    func, seen = make(decorate)
    g = func(1)
    return [drive(g.__anext__()), drive(g.athrow(ValueError('thrown'))), seen]

orig = scenario(False)
bear = scenario(True)
print('orig:', orig)
print('bear:', bear)
sys.exit(orig != bear)
