import sys, traceback, warnings
import beartype
from beartype.roar import BeartypeException, BeartypeWarning
assert beartype.__file__.startswith('/tmp/wt/hunt_C11'), beartype.__file__
BAD = []
def check(label, fn, user_excs=()):
    """Run fn(); flag anything other than a public beartype.roar exception (or an
    explicitly allowed user exception) and any non-beartype warning."""
    with warnings.catch_warnings(record=True) as w:
        warnings.simplefilter('always')
        try:
            fn(); print(f'[ok: no exception]   {label}')
        except user_excs as e:
            print(f'[ok: user exception] {label}: {type(e).__name__}')
        except BeartypeException as e:
            if type(e).__name__.startswith('_'):
                BAD.append(label)
                print(f'[VIOLATION private]  {label}: {type(e).__name__}: {str(e)[:140]!r}')
            else:
                print(f'[ok: beartype exc]   {label}: {type(e).__name__}')
        except BaseException as e:
            BAD.append(label)
            fr = traceback.extract_tb(e.__traceback__)[-1]
            print(f'[VIOLATION]          {label}: {type(e).__name__}: {str(e)[:140]} (raised at {fr.filename}:{fr.lineno})')
    for x in w:
        if not issubclass(x.category, BeartypeWarning):
            BAD.append(label)
            print(f'[VIOLATION warning]  {label}: {x.category.__name__}: {str(x.message)[:120]}')
def finish():
    print(f'{len(BAD)} violation(s)'); sys.exit(1 if BAD else 0)
# ---------------------------------------------------------------------------
# Finding 10: arbitrary non-hint objects that merely *look* like typing hints (repr() prefix
# detection) or hand-built types.GenericAlias objects leak AttributeError / AssertionError /
# private beartype exceptions.
import types, typing as T
from beartype import beartype
from beartype.door import is_bearable, die_if_unbearable, TypeHint
class Fake:
    def __init__(self, r, **kw): self._r = r; self.__dict__.update(kw)
    def __repr__(self): return self._r
check("is_bearable(1, <obj with repr 'typing.Annotated[int, 1]'>)", lambda: is_bearable(1, Fake('typing.Annotated[int, 1]')))
check("TypeHint(<obj with repr 'typing.NewType'>)", lambda: TypeHint(Fake('typing.NewType')))
check("is_bearable(1, <obj with repr 'typing.Optional[int]' and __args__>)", lambda: is_bearable(1, Fake('typing.Optional[int]', __args__=(int,), __origin__=T.Union, __parameters__=())))
check("die_if_unbearable('a', <obj with repr 'tuple[int, ...]' and __args__>)", lambda: die_if_unbearable('a', Fake('tuple[int, ...]', __args__=(int,), __origin__=list, __parameters__=())))
check('is_bearable(1, types.GenericAlias(1, (int,)))', lambda: is_bearable(1, types.GenericAlias(1, (int,))))
check('is_bearable(1, types.GenericAlias(typing.Union, (int, str)))', lambda: is_bearable(1, types.GenericAlias(T.Union, (int, str))))
check("die_if_unbearable('a', types.GenericAlias(typing.Tuple, (int,)))", lambda: die_if_unbearable('a', types.GenericAlias(T.Tuple, (int,))))
check('TypeHint(types.GenericAlias(typing.Annotated, (int,)))', lambda: TypeHint(types.GenericAlias(T.Annotated, (int,))))
finish()
